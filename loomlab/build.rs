// Extracts, textually, the lock-protected code of melstf that the loom lab explores: the function
// `microergs_per_dosc` (with the static table declared inside it) from src/state/melmint.rs of the repository
// the harness is pointed at.  The text is compiled unchanged in a module where `Lazy`, `RwLock`, `Mutex` and the
// atomics resolve to loom-backed shims with the same API (src/shim.rs).
use std::{env, fs, path::PathBuf};

fn repo_root() -> PathBuf {
    if let Ok(p) = env::var("MELSTF_REPO") {
        return PathBuf::from(p);
    }
    // the harness's Cargo.toml names the repository under test (tools/mutlab.sh rewrites it for the scratch lab)
    let manifest = PathBuf::from(env::var("CARGO_MANIFEST_DIR").unwrap()).join("../harness/Cargo.toml");
    println!("cargo:rerun-if-changed={}", manifest.display());
    let text = fs::read_to_string(&manifest).expect("harness/Cargo.toml");
    for line in text.lines() {
        let l = line.trim();
        if l.starts_with("melstf") {
            if let Some(i) = l.find("path") {
                let rest = &l[i..];
                let a = rest.find('"').unwrap();
                let b = rest[a + 1..].find('"').unwrap();
                return PathBuf::from(&rest[a + 1..a + 1 + b]);
            }
        }
    }
    panic!("melstf path not found in harness/Cargo.toml");
}

/// Returns the text of the item starting at `start` up to and including its matching closing brace.
fn item_text(src: &str, start: usize) -> &str {
    let bytes = src.as_bytes();
    let mut depth = 0i32;
    let mut i = start;
    let mut seen_open = false;
    // comments and string literals containing braces do not occur in this function; a lone brace inside a
    // comment would only make the extraction fail to compile, which is reported as "lab unavailable"
    while i < bytes.len() {
        match bytes[i] {
            b'{' => {
                depth += 1;
                seen_open = true;
            }
            b'}' => {
                depth -= 1;
                if seen_open && depth == 0 {
                    return &src[start..=i];
                }
            }
            _ => {}
        }
        i += 1;
    }
    panic!("unbalanced braces");
}

fn main() {
    let root = repo_root();
    let file = root.join("src/state/melmint.rs");
    println!("cargo:rerun-if-changed={}", file.display());
    println!("cargo:rerun-if-env-changed=MELSTF_REPO");
    let src = fs::read_to_string(&file).expect("melmint.rs");
    let mut out = String::new();
    // module-level statics / thread-locals that the function may use (any `static` item or `thread_local!` block
    // at column 0 that mentions a table), then the function itself
    let mut pos = 0;
    while let Some(i) = src[pos..].find("\nthread_local!") {
        let s = pos + i + 1;
        let t = item_text(&src, s);
        out.push_str(t);
        out.push('\n');
        pos = s + t.len();
    }
    for (i, _) in src.match_indices("\nstatic ") {
        let s = i + 1;
        let end = src[s..].find(";\n").map(|e| s + e + 1).unwrap();
        out.push_str(&src[s..end]);
        out.push('\n');
    }
    for (i, _) in src.match_indices("\npub static ") {
        let s = i + 1;
        let end = src[s..].find(";\n").map(|e| s + e + 1).unwrap();
        out.push_str(&src[s..end]);
        out.push('\n');
    }
    let key = "fn microergs_per_dosc";
    let at = src.find(key).expect("fn microergs_per_dosc not found");
    // include a possible `pub`/`pub(crate)` prefix and attributes on the same line
    let line_start = src[..at].rfind('\n').map(|x| x + 1).unwrap_or(0);
    out.push_str(item_text(&src, line_start));
    out.push('\n');
    let dest = PathBuf::from(env::var("OUT_DIR").unwrap()).join("inflator_extracted.rs");
    fs::write(&dest, &out).unwrap();
    // a digest of what was extracted goes into the evidence
    let dig = out.bytes().fold(0xcbf29ce484222325u64, |h, b| (h ^ b as u64).wrapping_mul(0x100000001b3));
    println!("cargo:rustc-env=LOOMLAB_EXTRACT_DIGEST={:016x}", dig);
    println!("cargo:rustc-env=LOOMLAB_EXTRACT_LINES={}", out.lines().count());
    println!("cargo:rustc-env=LOOMLAB_EXTRACT_FROM={}", file.display());
}
