//! loom-backed stand-ins with the API of the primitives the extracted code names (`once_cell::sync::Lazy`,
//! `parking_lot::{RwLock, Mutex}`, `std::sync::atomic::*`).  Every operation on them is a scheduling point of loom.
#![allow(dead_code)]
use std::marker::PhantomData;
use std::ops::Deref;

pub struct Lazy<T: 'static> {
    inner: loom::lazy_static::Lazy<T>,
}
impl<T: 'static> Lazy<T> {
    pub const fn new(init: fn() -> T) -> Self {
        Lazy { inner: loom::lazy_static::Lazy { init, _p: PhantomData } }
    }
    pub fn force(this: &Self) -> &T {
        this.deref()
    }
}
impl<T: 'static> Deref for Lazy<T> {
    type Target = T;
    fn deref(&self) -> &T {
        // a `Lazy` of the extracted code is always a `static`
        let s: &'static Self = unsafe { std::mem::transmute::<&Self, &'static Self>(self) };
        s.inner.get()
    }
}

pub struct RwLock<T>(loom::sync::RwLock<T>);
impl<T> RwLock<T> {
    pub fn new(t: T) -> Self {
        RwLock(loom::sync::RwLock::new(t))
    }
    pub fn read(&self) -> loom::sync::RwLockReadGuard<'_, T> {
        self.0.read().unwrap()
    }
    pub fn write(&self) -> loom::sync::RwLockWriteGuard<'_, T> {
        self.0.write().unwrap()
    }
    pub fn try_read(&self) -> Option<loom::sync::RwLockReadGuard<'_, T>> {
        self.0.try_read().ok()
    }
    pub fn try_write(&self) -> Option<loom::sync::RwLockWriteGuard<'_, T>> {
        self.0.try_write().ok()
    }
}
impl<T: Default> Default for RwLock<T> {
    fn default() -> Self {
        RwLock::new(T::default())
    }
}

pub struct Mutex<T>(loom::sync::Mutex<T>);
impl<T> Mutex<T> {
    pub fn new(t: T) -> Self {
        Mutex(loom::sync::Mutex::new(t))
    }
    pub fn lock(&self) -> loom::sync::MutexGuard<'_, T> {
        self.0.lock().unwrap()
    }
    pub fn try_lock(&self) -> Option<loom::sync::MutexGuard<'_, T>> {
        self.0.try_lock().ok()
    }
}
impl<T: Default> Default for Mutex<T> {
    fn default() -> Self {
        Mutex::new(T::default())
    }
}

#[derive(Clone, Copy, Debug, PartialEq, Eq, PartialOrd, Ord, Hash, Default)]
pub struct BlockHeight(pub u64);
pub const MICRO_CONVERTER: u128 = 1_000_000;
