//! loom lab: every interleaving (loom's DPOR over its C11 model, optionally preemption-bounded) of a few threads that
//! ask melstf's process-wide DOSC inflator table for neighbouring heights, on the *text* of the repository's own
//! `microergs_per_dosc` (see build.rs).  Oracle: every answer equals the sequential recurrence, and so does a final
//! read of every entry once all threads are done.
//!
//!     loomlab list                       scenarios: <name> <quick bound> <thorough bound> <both|thorough> <heights per thread>
//!     loomlab run <name> [bound]         one scenario; prints `LOOMLAB scenario=<n> schedules=<k> ok` or
//!                                        `LOOMLAB-MISMATCH ...` and exits 1
mod shim;
#[allow(unused_imports, dead_code, clippy::all)]
mod extracted {
    pub use crate::shim::{BlockHeight, Lazy, Mutex, RwLock, MICRO_CONVERTER};
    pub use loom::sync::atomic::{AtomicBool, AtomicU64, AtomicUsize, Ordering};
    pub use loom::thread_local;
    pub use std::cell::{Cell, RefCell};
    include!(concat!(env!("OUT_DIR"), "/inflator_extracted.rs"));
    pub fn ask(h: u64) -> u128 {
        microergs_per_dosc(BlockHeight(h))
    }
}

use std::sync::atomic::{AtomicU64, Ordering};

fn reference(h: u64) -> u128 {
    let mut x: u128 = 1_000_000;
    for _ in 0..h {
        x = x.saturating_add(1).max(x.saturating_add(x / 2_000_000));
    }
    x
}

struct Scenario {
    name: &'static str,
    threads: &'static [&'static [u64]],
    /// preemption bound of the quick tier (None = every interleaving loom's DPOR distinguishes)
    quick: Option<usize>,
    /// preemption bound of the thorough tier
    thorough: Option<usize>,
    /// thorough tier only
    thorough_only: bool,
}

const SCENARIOS: &[Scenario] = &[
    Scenario { name: "same-2x2", threads: &[&[2], &[2]], quick: None, thorough: None, thorough_only: false },
    Scenario { name: "lo-hi", threads: &[&[1], &[3]], quick: None, thorough: None, thorough_only: false },
    Scenario { name: "hi-lo", threads: &[&[3], &[1]], quick: None, thorough: None, thorough_only: false },
    Scenario { name: "zero-and-two", threads: &[&[0], &[2]], quick: None, thorough: None, thorough_only: false },
    Scenario { name: "two-calls-each", threads: &[&[2, 1], &[3, 0]], quick: None, thorough: None, thorough_only: false },
    Scenario { name: "grow-twice", threads: &[&[1, 3], &[2, 4]], quick: None, thorough: None, thorough_only: false },
    Scenario { name: "three-threads", threads: &[&[1], &[2], &[3]], quick: None, thorough: None, thorough_only: false },
    Scenario { name: "three-same", threads: &[&[2], &[2], &[2]], quick: None, thorough: None, thorough_only: false },
    Scenario { name: "three-two-calls", threads: &[&[3, 1], &[2], &[1, 4]], quick: Some(3), thorough: None, thorough_only: false },
    Scenario { name: "three-calls-each", threads: &[&[1, 3, 5], &[2, 4, 6]], quick: None, thorough: None, thorough_only: true },
    Scenario { name: "four-threads", threads: &[&[1], &[2], &[3], &[4]], quick: Some(2), thorough: Some(3), thorough_only: true },
    Scenario { name: "four-same", threads: &[&[3], &[3], &[3], &[3]], quick: Some(2), thorough: Some(3), thorough_only: true },
];

static SCHEDULES: AtomicU64 = AtomicU64::new(0);

fn run(sc: &'static Scenario, bound: Option<usize>) {
    let mut b = loom::model::Builder::new();
    b.preemption_bound = bound;
    b.max_branches = 100_000;
    let name = sc.name;
    b.check(move || {
        SCHEDULES.fetch_add(1, Ordering::Relaxed);
        let hs: Vec<_> = sc
            .threads
            .iter()
            .enumerate()
            .map(|(t, heights)| {
                loom::thread::spawn(move || {
                    for &h in heights.iter() {
                        let got = match std::panic::catch_unwind(|| extracted::ask(h)) {
                            Ok(g) => g,
                            Err(e) => {
                                let msg = e.downcast_ref::<String>().cloned().or_else(|| e.downcast_ref::<&str>().map(|s| s.to_string())).unwrap_or_default();
                                println!("LOOMLAB-PANIC scenario={} thread={} height={} message={}", name, t, h, msg);
                                std::panic::resume_unwind(e);
                            }
                        };
                        let want = reference(h);
                        if got != want {
                            println!("LOOMLAB-MISMATCH scenario={} thread={} height={} got={} want={}", name, t, h, got, want);
                            panic!("mismatch");
                        }
                    }
                })
            })
            .collect();
        for h in hs {
            h.join().unwrap();
        }
        let top = sc.threads.iter().flat_map(|t| t.iter()).copied().max().unwrap_or(0);
        for h in 0..=top {
            let got = extracted::ask(h);
            let want = reference(h);
            if got != want {
                println!("LOOMLAB-MISMATCH scenario={} thread=final height={} got={} want={}", name, h, got, want);
                panic!("mismatch");
            }
        }
    });
}

fn main() {
    let args: Vec<String> = std::env::args().collect();
    match args.get(1).map(|s| s.as_str()) {
        Some("list") => {
            for s in SCENARIOS {
                let f = |b: Option<usize>| b.map(|x| x.to_string()).unwrap_or_else(|| "none".into());
                println!("{} {} {} {} {:?}", s.name, f(s.quick), f(s.thorough), if s.thorough_only { "thorough" } else { "both" }, s.threads);
            }
        }
        Some("info") => {
            println!("extracted_from={} lines={} digest={}", env!("LOOMLAB_EXTRACT_FROM"), env!("LOOMLAB_EXTRACT_LINES"), env!("LOOMLAB_EXTRACT_DIGEST"));
        }
        Some("run") => {
            let name = args.get(2).expect("scenario name");
            let sc = SCENARIOS.iter().find(|s| s.name == name).expect("unknown scenario");
            let bound = match args.get(3).map(|s| s.as_str()) {
                None => sc.quick,
                Some("none") => None,
                Some(n) => Some(n.parse().expect("bound")),
            };
            let t0 = std::time::Instant::now();
            run(sc, bound);
            println!(
                "LOOMLAB scenario={} threads={} calls={} preemption_bound={} schedules={} wall_ms={} ok",
                sc.name,
                sc.threads.len(),
                sc.threads.iter().map(|t| t.len()).sum::<usize>(),
                bound.map(|b| b.to_string()).unwrap_or_else(|| "none".into()),
                SCHEDULES.load(Ordering::Relaxed),
                t0.elapsed().as_millis()
            );
        }
        _ => {
            eprintln!("usage: loomlab list | info | run <scenario> [bound|none]");
            std::process::exit(2);
        }
    }
}
