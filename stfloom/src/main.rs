//! stfloom: melstf's own `apply_tx_batch` under loom.
//!
//! The library target of this package is the repository's `src/lib.rs`, compiled against loom-backed stand-ins for rayon,
//! parking_lot and once_cell (`shims/`).  Every rayon terminal operation in melstf's source is a *parallel site*; for a small
//! batch, each site in turn is run with its pieces on loom threads (every way of cutting the batch into consecutive pieces),
//! and loom's DPOR explores every interleaving of whatever those threads share through locks, lazies and once-cells.
//! Oracle: the verdict and the header after sealing equal those of the fully sequential run.
//!
//!     stfloom list                      scenario names
//!     stfloom run <scenario> [bound]    prints `STFLOOM scenario=.. sites=.. models=.. executions=.. ok`
//!                                       or `STFLOOM-MISMATCH ...` (and exits 1)
use melstf::{GenesisConfig, Tip910MelPowHash, UnsealedState};
use melstructs::{CoinData, CoinID, CoinValue, Denom, NetID, Transaction, TxKind};
use melvm::Covenant;
use novasmt::{Database, InMemoryCas};
use std::collections::BTreeMap;
use std::sync::atomic::{AtomicU64, Ordering};
use std::sync::Mutex;

fn out(value: u128, denom: Denom) -> CoinData {
    CoinData { covhash: Covenant::always_true().hash(), value: CoinValue(value), denom, additional_data: vec![].into() }
}

fn tx(kind: TxKind, inputs: Vec<CoinID>, outputs: Vec<CoinData>, data: Vec<u8>) -> Transaction {
    Transaction { kind, inputs, outputs, fee: CoinValue(0), covenants: vec![Covenant::always_true().to_bytes()], data: data.into(), sigs: vec![] }
}

/// Block 0: genesis; block 1: the genesis coin cut into eight coins; returns the open block 2 and the funding transaction.
fn base() -> (UnsealedState<InMemoryCas>, Transaction) {
    let db = Database::new(InMemoryCas::default());
    let genesis = GenesisConfig { network: NetID::Custom02, init_coindata: out(10_000_000, Denom::Mel), stakes: BTreeMap::new(), init_fee_pool: CoinValue(0), init_fee_multiplier: 0 }
        .realize(&db)
        .seal(None);
    let mut b1 = genesis.next_unsealed();
    let mut outs: Vec<CoinData> = (0..8).map(|i| out(1000 + i as u128, Denom::Mel)).collect();
    outs.push(out(10_000_000 - outs.iter().map(|o| o.value.0).sum::<u128>(), Denom::Mel));
    let fund = tx(TxKind::Normal, vec![CoinID::zero_zero()], outs, vec![]);
    b1.apply_tx(&fund).expect("funding");
    (b1.seal(None).next_unsealed(), fund)
}

fn scenario_names() -> Vec<&'static str> {
    vec!["two-callers", "rivals", "faucet-twice", "chain", "chain-reversed", "shared-second-input", "independent", "faucet-spends-and-rival", "rivals-around-bystander", "two-mints", "two-mints-reversed", "faucet-twice-around-bystander", "chain-of-three", "chain-of-three-reversed", "three-rivals", "shared-input-and-bystander", "mint-and-two-payments"]
}

/// The batch of a scenario against `base()` (deterministic; proofs are real).
fn batch(name: &str, st: &UnsealedState<InMemoryCas>, fund: &Transaction) -> Vec<Transaction> {
    let c = |i: u8| fund.output_coinid(i);
    let spend = |ins: Vec<CoinID>, v: u128, tag: u8| tx(TxKind::Normal, ins, vec![out(v, Denom::Mel)], vec![0xe0, tag]);
    let r1 = spend(vec![c(0)], 1000, 1);
    let r2 = spend(vec![c(0)], 1000, 2);
    let a = spend(vec![c(1)], 1001, 3);
    let b = spend(vec![a.output_coinid(0)], 1001, 4);
    let t1 = spend(vec![c(2), c(3)], 2005, 5);
    let t2 = spend(vec![c(4), c(3)], 2007, 6);
    let by = spend(vec![c(5)], 1005, 7);
    let f = tx(TxKind::Faucet, vec![], vec![out(5, Denom::Mel)], b"stfloom".to_vec());
    let mut f2 = f.clone();
    f2.sigs = vec![vec![9u8; 64].into()];
    let fs = tx(TxKind::Faucet, vec![c(6)], vec![out(1006, Denom::Mel), out(7, Denom::Mel)], b"stfloom-spends".to_vec());
    let rs = spend(vec![c(6)], 1006, 8);
    let mint = |coin: u8, value: u128, difficulty: u32| {
        // the coin was created in block 1; the puzzle is seeded with that block's header
        let sealed_view = st.clone().seal(None);
        let hdr = sealed_view.history(melstructs::BlockHeight(1)).expect("header of block 1");
        let pz = tmelcrypt::hash_keyed(hdr.hash(), stdcode::serialize(&c(coin)).unwrap());
        let proof = melpow::Proof::generate(&pz, difficulty as usize, Tip910MelPowHash).to_bytes();
        tx(TxKind::DoscMint, vec![c(coin)], vec![out(value, Denom::Mel)], stdcode::serialize(&(difficulty, proof)).unwrap())
    };
    match name {
        "rivals" => vec![r1, r2],
        "faucet-twice" => vec![f, f2],
        "chain" => vec![a, b],
        "chain-reversed" => vec![b, a],
        "shared-second-input" => vec![t1, t2],
        "independent" => vec![a, by],
        "faucet-spends-and-rival" => vec![fs, rs],
        "rivals-around-bystander" => vec![r1, by, r2],
        "faucet-twice-around-bystander" => vec![f, by, f2],
        "chain-of-three" => {
            let c3 = spend(vec![b.output_coinid(0)], 1001, 9);
            vec![a, b, c3]
        }
        "chain-of-three-reversed" => {
            let c3 = spend(vec![b.output_coinid(0)], 1001, 9);
            vec![c3, b, a]
        }
        "three-rivals" => vec![r1, r2, spend(vec![c(0)], 1000, 10)],
        "shared-input-and-bystander" => vec![t1, by, t2],
        "mint-and-two-payments" => vec![a, mint(0, 1000, 14), by],
        // both above the recorded speed (10^6): difficulty 15 and 14 under the TIP-910 hash on a one-block-old coin (speeds 3,276,800 and 1,638,400)
        "two-mints" => vec![mint(0, 1000, 15), mint(1, 1001, 14)],
        "two-mints-reversed" => vec![mint(1, 1001, 14), mint(0, 1000, 15)],
        _ => panic!("unknown scenario"),
    }
}

fn digest(mut st: UnsealedState<InMemoryCas>, txs: &[Transaction]) -> String {
    rayon::SITE.store(0, Ordering::Relaxed);
    let r = match std::panic::catch_unwind(std::panic::AssertUnwindSafe(|| st.apply_tx_batch(txs))) {
        Ok(r) => r,
        Err(e) => {
            let msg = e.downcast_ref::<String>().cloned().or_else(|| e.downcast_ref::<&str>().map(|s| s.to_string())).unwrap_or_default();
            println!("STFLOOM-PANIC message={}", msg);
            std::panic::resume_unwind(e);
        }
    };
    rayon::SELECTED.store(-1, Ordering::Relaxed);
    match r {
        Err(_) => "rejected".into(),
        Ok(()) => {
            let h = st.seal(None).header();
            format!("accepted:{}:speed={}", h.hash(), h.dosc_speed)
        }
    }
}

/// loom runs the model body on a coroutine with 32 KiB of stack; the body moves to a loom thread with a real one.
fn big_stack(f: impl FnOnce() + Send + 'static) {
    loom::thread::Builder::new().stack_size(1 << 20).spawn(f).expect("spawn").join().expect("model body");
}

static EXECUTIONS: AtomicU64 = AtomicU64::new(0);

fn run(name: &'static str, bound: Option<usize>) {
    // 1. sequential reference, the batch itself and the number of parallel sites (one loom execution, no parallel site selected)
    let reference: &'static Mutex<(String, usize, Vec<Transaction>)> = Box::leak(Box::new(Mutex::new((String::new(), 0, vec![]))));
    loom::model(move || big_stack(move || {
        rayon::SELECTED.store(-1, Ordering::Relaxed);
        rayon::CUTS.store(u64::MAX, Ordering::Relaxed);
        let (st, fund) = base();
        let txs = batch(name, &st, &fund);
        let d = digest(st, &txs);
        let sites = rayon::SITE.load(Ordering::Relaxed);
        *reference.lock().unwrap() = (d, sites, txs);
    }));
    let (want, sites, txs) = reference.lock().unwrap().clone();
    let txs: &'static Vec<Transaction> = Box::leak(Box::new(txs));
    let want: &'static String = Box::leak(Box::new(want));
    let n = txs.len();
    // every way of cutting n items into consecutive pieces (mask 0 = one piece: the whole batch is one sequential fold)
    let masks: Vec<u64> = (0..(1u64 << (n - 1))).collect();
    let mut models = 0u64;
    let mut parallel_models = 0u64;
    for site in 0..sites {
        for &mask in &masks {
            let mut b = loom::model::Builder::new();
            b.preemption_bound = bound;
            b.max_branches = 200_000;
            rayon::SELECTED_PARTS.store(0, Ordering::Relaxed);
            b.check(move || big_stack(move || {
                EXECUTIONS.fetch_add(1, Ordering::Relaxed);
                let (st, _fund) = base();
                rayon::CUTS.store(mask, Ordering::Relaxed);
                rayon::SELECTED.store(site as i64, Ordering::Relaxed);
                let got = digest(st, txs);
                rayon::CUTS.store(u64::MAX, Ordering::Relaxed);
                if &got != want {
                    println!("STFLOOM-MISMATCH scenario={} site={} cuts={:#b} got={} want={}", name, site, mask, got.split(':').next().unwrap_or(""), want.split(':').next().unwrap_or(""));
                    println!("STFLOOM-DETAIL got={} want={}", got, want);
                    panic!("mismatch");
                }
            }));
            models += 1;
            if rayon::SELECTED_PARTS.load(Ordering::Relaxed) > 1 {
                parallel_models += 1;
            }
        }
    }
    println!(
        "STFLOOM scenario={} transactions={} reference={} sites={} cut_patterns={} models={} models_with_a_parallel_site={} executions={} preemption_bound={} ok",
        name,
        n,
        want.split(':').next().unwrap_or(""),
        sites,
        masks.len(),
        models,
        parallel_models,
        EXECUTIONS.load(Ordering::Relaxed),
        bound.map(|b| b.to_string()).unwrap_or_else(|| "none".into())
    );
}

/// Two callers in one process (a node's mempool and its block validation, two chains in one node): each loom thread owns a chain
/// of its own - the fee multipliers differ - and applies the same two transactions to it, twice.  What one caller validates must
/// not reach the other's verdicts: every verdict equals the one a caller alone gets (computed by running the callers one after
/// the other in a model of their own).
fn run_two_callers(bound: Option<usize>) {
    fn chain(mult: u128) -> UnsealedState<InMemoryCas> {
        let db = Database::new(InMemoryCas::default());
        GenesisConfig { network: NetID::Custom02, init_coindata: out(10_000_000, Denom::Mel), stakes: BTreeMap::new(), init_fee_pool: CoinValue(0), init_fee_multiplier: mult }.realize(&db).seal(None).next_unsealed()
    }
    // T pays more than the minimum at the low multiplier and less than the minimum at the high one; U pays enough for both
    fn txs() -> Vec<Transaction> {
        let mut t = tx(TxKind::Normal, vec![CoinID::zero_zero()], vec![out(10_000_000 - 3_000, Denom::Mel)], vec![0x2c]);
        t.fee = CoinValue(3_000);
        let mut u = tx(TxKind::Normal, vec![CoinID::zero_zero()], vec![out(10_000_000 - 900_000, Denom::Mel)], vec![0x2d]);
        u.fee = CoinValue(900_000);
        vec![t, u]
    }
    fn caller(mult: u128) -> Vec<String> {
        let st = chain(mult);
        let mut v = vec![];
        for round in 0..2 {
            for (i, t) in txs().iter().enumerate() {
                let mut c = st.clone();
                let r = match std::panic::catch_unwind(std::panic::AssertUnwindSafe(|| c.apply_tx(t))) {
                    Ok(r) => r,
                    Err(e) => {
                        println!("STFLOOM-PANIC message=caller with multiplier {} panicked", mult);
                        std::panic::resume_unwind(e);
                    }
                };
                v.push(match r {
                    Ok(()) => {
                        let h = c.seal(None).header();
                        format!("round{}/tx{}:accepted:{}:{}", round, i, h.fee_pool.0, h.hash())
                    }
                    Err(_) => format!("round{}/tx{}:rejected", round, i),
                });
            }
        }
        v
    }
    let mults: [u128; 2] = [65_536, 65_536 * 400];
    let alone: &'static Mutex<Vec<Vec<String>>> = Box::leak(Box::new(Mutex::new(vec![])));
    for m in mults {
        loom::model(move || big_stack(move || alone.lock().unwrap().push(caller(m))));
    }
    let want: &'static Vec<Vec<String>> = Box::leak(Box::new(alone.lock().unwrap().clone()));
    let mut b = loom::model::Builder::new();
    b.preemption_bound = bound;
    b.max_branches = 200_000;
    b.check(move || {
        EXECUTIONS.fetch_add(1, Ordering::Relaxed);
        let hs: Vec<_> = mults
            .iter()
            .enumerate()
            .map(|(k, m)| {
                let m = *m;
                loom::thread::Builder::new()
                    .stack_size(1 << 20)
                    .spawn(move || {
                        let got = caller(m);
                        if got != want[k] {
                            let first = got.iter().zip(want[k].iter()).find(|(a, b)| a != b).map(|(a, b)| format!("{} (alone: {})", a, b)).unwrap_or_default();
                            println!("STFLOOM-MISMATCH scenario=two-callers site=- cuts=- got=differs want=alone caller_with_multiplier={} first_difference={}", m, first.replace(' ', "_"));
                            panic!("mismatch");
                        }
                    })
                    .expect("spawn")
            })
            .collect();
        for h in hs {
            h.join().expect("caller");
        }
    });
    let accepted = want.iter().flatten().filter(|v| v.contains(":accepted:")).count();
    println!(
        "STFLOOM scenario=two-callers transactions=2 reference={}-of-{}-accepted sites=0 cut_patterns=1 models=1 models_with_a_parallel_site=1 executions={} preemption_bound={} ok",
        accepted,
        want.iter().flatten().count(),
        EXECUTIONS.load(Ordering::Relaxed),
        bound.map(|b| b.to_string()).unwrap_or_else(|| "none".into())
    );
}

fn main() {
    let args: Vec<String> = std::env::args().collect();
    match args.get(1).map(|s| s.as_str()) {
        Some("list") => {
            for s in scenario_names() {
                println!("{}", s);
            }
        }
        Some("run") => {
            let name = args.get(2).expect("scenario");
            let name: &'static str = scenario_names().into_iter().find(|s| s == name).expect("unknown scenario");
            let bound = match args.get(3).map(|s| s.as_str()) {
                None | Some("none") => None,
                Some(n) => Some(n.parse().expect("bound")),
            };
            let t0 = std::time::Instant::now();
            if name == "two-callers" {
                run_two_callers(bound);
            } else {
                run(name, bound);
            }
            eprintln!("wall_ms={}", t0.elapsed().as_millis());
        }
        _ => {
            eprintln!("usage: stfloom list | run <scenario> [bound|none]");
            std::process::exit(2);
        }
    }
}
