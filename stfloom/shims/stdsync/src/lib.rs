//! What `std::sync::...` paths in melstf's own source are rewritten to (tools/gen_stfloom_src.py): loom's mirror of std's
//! Mutex / RwLock / Condvar / atomics (same API), a loom-backed OnceLock, and std's own Arc / mpsc (never a race by themselves).
pub use loom::sync::{Condvar, Mutex, MutexGuard, RwLock, RwLockReadGuard, RwLockWriteGuard};
pub use std::sync::{mpsc, Arc, LockResult, PoisonError, TryLockError, Weak};
pub mod atomic {
    pub use loom::sync::atomic::*;
}

/// std::sync::OnceLock over a loom mutex (every access a scheduling point).
pub struct OnceLock<T> {
    m: loom::sync::Mutex<()>,
    v: std::cell::UnsafeCell<Option<T>>,
}
unsafe impl<T: Send + Sync> Sync for OnceLock<T> {}
unsafe impl<T: Send> Send for OnceLock<T> {}
impl<T> OnceLock<T> {
    pub fn new() -> Self {
        OnceLock { m: loom::sync::Mutex::new(()), v: std::cell::UnsafeCell::new(None) }
    }
    pub fn get(&self) -> Option<&T> {
        let _g = self.m.lock().unwrap();
        unsafe { (*self.v.get()).as_ref() }
    }
    pub fn set(&self, value: T) -> Result<(), T> {
        let _g = self.m.lock().unwrap();
        let slot = unsafe { &mut *self.v.get() };
        if slot.is_some() {
            return Err(value);
        }
        *slot = Some(value);
        Ok(())
    }
    pub fn get_or_init<F: FnOnce() -> T>(&self, f: F) -> &T {
        let _g = self.m.lock().unwrap();
        let slot = unsafe { &mut *self.v.get() };
        if slot.is_none() {
            *slot = Some(f());
        }
        slot.as_ref().unwrap()
    }
    pub fn take(&mut self) -> Option<T> {
        self.v.get_mut().take()
    }
    pub fn into_inner(self) -> Option<T> {
        self.v.into_inner()
    }
}
impl<T> Default for OnceLock<T> {
    fn default() -> Self {
        Self::new()
    }
}
impl<T: Clone> Clone for OnceLock<T> {
    fn clone(&self) -> Self {
        let c = OnceLock::new();
        if let Some(v) = self.get() {
            let _ = c.set(v.clone());
        }
        c
    }
}
impl<T: std::fmt::Debug> std::fmt::Debug for OnceLock<T> {
    fn fmt(&self, f: &mut std::fmt::Formatter<'_>) -> std::fmt::Result {
        f.write_str("OnceLock(..)")
    }
}
