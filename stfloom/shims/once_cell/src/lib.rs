//! once_cell::sync::{Lazy, OnceCell} over loom: a `Lazy` static is re-initialised in every execution of a loom model.
pub mod sync {
    use std::marker::PhantomData;
    use std::ops::Deref;

    pub struct Lazy<T: 'static> {
        inner: loom::lazy_static::Lazy<T>,
    }
    impl<T: 'static> Lazy<T> {
        pub const fn new(init: fn() -> T) -> Self {
            Lazy { inner: loom::lazy_static::Lazy { init, _p: PhantomData } }
        }
        pub fn force(this: &Self) -> &T {
            this.deref()
        }
    }
    impl<T: 'static> Deref for Lazy<T> {
        type Target = T;
        fn deref(&self) -> &T {
            // a `Lazy` of the code under test is always a `static`
            let s: &'static Self = unsafe { std::mem::transmute::<&Self, &'static Self>(self) };
            s.inner.get()
        }
    }

    /// A cell written at most once; the write is guarded by a loom mutex (a scheduling point), reads of a filled cell take it too.
    pub struct OnceCell<T> {
        m: loom::sync::Mutex<()>,
        v: std::cell::UnsafeCell<Option<T>>,
    }
    unsafe impl<T: Send + Sync> Sync for OnceCell<T> {}
    unsafe impl<T: Send> Send for OnceCell<T> {}
    impl<T> OnceCell<T> {
        pub fn new() -> Self {
            OnceCell { m: loom::sync::Mutex::new(()), v: std::cell::UnsafeCell::new(None) }
        }
        pub fn get(&self) -> Option<&T> {
            let _g = self.m.lock().unwrap();
            unsafe { (*self.v.get()).as_ref() }
        }
        pub fn set(&self, value: T) -> Result<(), T> {
            let _g = self.m.lock().unwrap();
            let slot = unsafe { &mut *self.v.get() };
            if slot.is_some() {
                return Err(value);
            }
            *slot = Some(value);
            Ok(())
        }
        pub fn get_or_init<F: FnOnce() -> T>(&self, f: F) -> &T {
            let _g = self.m.lock().unwrap();
            let slot = unsafe { &mut *self.v.get() };
            if slot.is_none() {
                *slot = Some(f());
            }
            slot.as_ref().unwrap()
        }
        pub fn take(&mut self) -> Option<T> {
            self.v.get_mut().take()
        }
    }
    impl<T> Default for OnceCell<T> {
        fn default() -> Self {
            Self::new()
        }
    }
    impl<T: Clone> Clone for OnceCell<T> {
        fn clone(&self) -> Self {
            let c = OnceCell::new();
            if let Some(v) = self.get() {
                let _ = c.set(v.clone());
            }
            c
        }
    }
    impl<T: std::fmt::Debug> std::fmt::Debug for OnceCell<T> {
        fn fmt(&self, f: &mut std::fmt::Formatter<'_>) -> std::fmt::Result {
            f.write_str("OnceCell(..)")
        }
    }
}
