//! The everyday part of dashmap's API over one loom mutex: every operation is a scheduling point, and (as in dashmap) two
//! operations are two critical sections - a `contains_key` followed by an `insert` can be separated by another thread.
use std::borrow::Borrow;
use std::collections::hash_map::RandomState;
use std::collections::HashMap;
use std::hash::{BuildHasher, Hash};
use std::ops::{Deref, DerefMut};

pub struct DashMap<K, V, S = RandomState> {
    m: loom::sync::Mutex<HashMap<K, V, S>>,
}

pub mod mapref {
    pub mod one {
        pub use crate::{Ref, RefMut};
    }
    pub mod entry {
        pub use crate::Entry;
    }
}

pub struct Ref<'a, K, V, S = RandomState> {
    g: loom::sync::MutexGuard<'a, HashMap<K, V, S>>,
    k: K,
}
impl<'a, K: Eq + Hash, V, S: BuildHasher> Ref<'a, K, V, S> {
    pub fn key(&self) -> &K {
        &self.k
    }
    pub fn value(&self) -> &V {
        self.g.get(&self.k).expect("present")
    }
}
impl<'a, K: Eq + Hash, V, S: BuildHasher> Deref for Ref<'a, K, V, S> {
    type Target = V;
    fn deref(&self) -> &V {
        self.value()
    }
}
pub struct RefMut<'a, K, V, S = RandomState> {
    g: loom::sync::MutexGuard<'a, HashMap<K, V, S>>,
    k: K,
}
impl<'a, K: Eq + Hash, V, S: BuildHasher> RefMut<'a, K, V, S> {
    pub fn key(&self) -> &K {
        &self.k
    }
    pub fn value(&self) -> &V {
        self.g.get(&self.k).expect("present")
    }
    pub fn value_mut(&mut self) -> &mut V {
        self.g.get_mut(&self.k).expect("present")
    }
}
impl<'a, K: Eq + Hash, V, S: BuildHasher> Deref for RefMut<'a, K, V, S> {
    type Target = V;
    fn deref(&self) -> &V {
        self.value()
    }
}
impl<'a, K: Eq + Hash, V, S: BuildHasher> DerefMut for RefMut<'a, K, V, S> {
    fn deref_mut(&mut self) -> &mut V {
        self.value_mut()
    }
}

pub struct Entry<'a, K, V, S = RandomState> {
    g: loom::sync::MutexGuard<'a, HashMap<K, V, S>>,
    k: K,
}
impl<'a, K: Eq + Hash + Clone, V, S: BuildHasher> Entry<'a, K, V, S> {
    pub fn or_insert(mut self, v: V) -> RefMut<'a, K, V, S> {
        self.g.entry(self.k.clone()).or_insert(v);
        RefMut { g: self.g, k: self.k }
    }
    pub fn or_insert_with(mut self, f: impl FnOnce() -> V) -> RefMut<'a, K, V, S> {
        self.g.entry(self.k.clone()).or_insert_with(f);
        RefMut { g: self.g, k: self.k }
    }
    pub fn or_default(self) -> RefMut<'a, K, V, S>
    where
        V: Default,
    {
        self.or_insert_with(V::default)
    }
    pub fn and_modify(mut self, f: impl FnOnce(&mut V)) -> Self {
        if let Some(v) = self.g.get_mut(&self.k) {
            f(v);
        }
        self
    }
}

impl<K: Eq + Hash, V> DashMap<K, V, RandomState> {
    pub fn new() -> Self {
        DashMap { m: loom::sync::Mutex::new(HashMap::new()) }
    }
    pub fn with_capacity(n: usize) -> Self {
        DashMap { m: loom::sync::Mutex::new(HashMap::with_capacity(n)) }
    }
}
impl<K: Eq + Hash, V, S: BuildHasher + Default> Default for DashMap<K, V, S> {
    fn default() -> Self {
        DashMap { m: loom::sync::Mutex::new(HashMap::with_hasher(S::default())) }
    }
}
impl<K: Eq + Hash, V, S: BuildHasher + Clone> DashMap<K, V, S> {
    pub fn with_hasher(s: S) -> Self {
        DashMap { m: loom::sync::Mutex::new(HashMap::with_hasher(s)) }
    }
    pub fn with_capacity_and_hasher(n: usize, s: S) -> Self {
        DashMap { m: loom::sync::Mutex::new(HashMap::with_capacity_and_hasher(n, s)) }
    }
}
impl<K: Eq + Hash, V, S: BuildHasher> DashMap<K, V, S> {
    pub fn insert(&self, k: K, v: V) -> Option<V> {
        self.m.lock().unwrap().insert(k, v)
    }
    pub fn remove<Q: ?Sized + Hash + Eq>(&self, k: &Q) -> Option<(K, V)>
    where
        K: Borrow<Q>,
    {
        self.m.lock().unwrap().remove_entry(k)
    }
    pub fn contains_key<Q: ?Sized + Hash + Eq>(&self, k: &Q) -> bool
    where
        K: Borrow<Q>,
    {
        self.m.lock().unwrap().contains_key(k)
    }
    pub fn get<Q: ?Sized + Hash + Eq>(&self, k: &Q) -> Option<Ref<'_, K, V, S>>
    where
        K: Borrow<Q> + Clone,
    {
        let g = self.m.lock().unwrap();
        let key = g.get_key_value(k).map(|(k, _)| k.clone())?;
        Some(Ref { g, k: key })
    }
    pub fn get_mut<Q: ?Sized + Hash + Eq>(&self, k: &Q) -> Option<RefMut<'_, K, V, S>>
    where
        K: Borrow<Q> + Clone,
    {
        let g = self.m.lock().unwrap();
        let key = g.get_key_value(k).map(|(k, _)| k.clone())?;
        Some(RefMut { g, k: key })
    }
    pub fn entry(&self, k: K) -> Entry<'_, K, V, S> {
        Entry { g: self.m.lock().unwrap(), k }
    }
    pub fn len(&self) -> usize {
        self.m.lock().unwrap().len()
    }
    pub fn is_empty(&self) -> bool {
        self.m.lock().unwrap().is_empty()
    }
    pub fn clear(&self) {
        self.m.lock().unwrap().clear()
    }
    pub fn into_inner_map(self) -> HashMap<K, V, S> {
        self.m.into_inner().unwrap()
    }
}
impl<K: Eq + Hash, V, S: BuildHasher> IntoIterator for DashMap<K, V, S> {
    type Item = (K, V);
    type IntoIter = std::collections::hash_map::IntoIter<K, V>;
    fn into_iter(self) -> Self::IntoIter {
        self.m.into_inner().unwrap().into_iter()
    }
}

pub struct DashSet<K, S = RandomState> {
    inner: DashMap<K, (), S>,
}
impl<K: Eq + Hash> DashSet<K, RandomState> {
    pub fn new() -> Self {
        DashSet { inner: DashMap::new() }
    }
}
impl<K: Eq + Hash, S: BuildHasher + Default> Default for DashSet<K, S> {
    fn default() -> Self {
        DashSet { inner: DashMap::default() }
    }
}
impl<K: Eq + Hash, S: BuildHasher> DashSet<K, S> {
    pub fn insert(&self, k: K) -> bool {
        self.inner.insert(k, ()).is_none()
    }
    pub fn contains<Q: ?Sized + Hash + Eq>(&self, k: &Q) -> bool
    where
        K: Borrow<Q>,
    {
        self.inner.contains_key(k)
    }
    pub fn remove<Q: ?Sized + Hash + Eq>(&self, k: &Q) -> Option<K>
    where
        K: Borrow<Q>,
    {
        self.inner.remove(k).map(|x| x.0)
    }
    pub fn len(&self) -> usize {
        self.inner.len()
    }
    pub fn is_empty(&self) -> bool {
        self.inner.is_empty()
    }
}
