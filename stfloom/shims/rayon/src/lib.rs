//! A stand-in for the part of rayon's API that melstf uses, in which a parallel iterator's pieces run on **loom threads**.
//!
//! A `Par` is a list of *parts* (closures that produce the items of one piece of the split).  Adaptors compose lazily per part;
//! a terminal operation (`try_for_each`, `try_fold` + `try_reduce`, `collect`, `for_each`, ...) is a *parallel site*: the
//! driver selects one site per exploration (`SELECTED`), whose parts are then spawned as loom threads and joined (loom allows
//! four threads besides its main one; one of them carries the driver's big-stack body, so a site has at most three parts); every other site runs its parts one after the other on the calling thread.  How the
//! source is cut into parts is the driver's choice too (`CUTS`: bit i set = a cut between items i and i+1).
#![allow(clippy::type_complexity)]
use std::sync::atomic::{AtomicBool, AtomicI64, AtomicU64, AtomicUsize, Ordering};
use std::sync::Arc;

/// index of the terminal operation (in program order on the calling thread) that runs in parallel; -1 = none
pub static SELECTED: AtomicI64 = AtomicI64::new(-1);
/// number of terminal operations seen since the driver reset it
pub static SITE: AtomicUsize = AtomicUsize::new(0);
/// cut pattern of the selected site's source
pub static CUTS: AtomicU64 = AtomicU64::new(u64::MAX);
/// number of parts the selected site had when it ran (0 = it never ran with more than one part)
pub static SELECTED_PARTS: AtomicUsize = AtomicUsize::new(0);
static IN_PARALLEL: AtomicBool = AtomicBool::new(false);

pub type Part<'a, T> = Box<dyn FnOnce() -> Vec<T> + Send + 'a>;

pub struct Par<'a, T: Send + 'a> {
    parts: Vec<Part<'a, T>>,
    /// number of items of each part, when known (sources and length-preserving adaptors)
    sizes: Option<Vec<usize>>,
}

struct SendPtr<T>(*mut T);
unsafe impl<T> Send for SendPtr<T> {}

fn run_parts<'a, T: Send + 'a>(parts: Vec<Part<'a, T>>) -> Vec<Vec<T>> {
    let nested = IN_PARALLEL.load(Ordering::Relaxed);
    let site = if nested { usize::MAX } else { SITE.fetch_add(1, Ordering::Relaxed) };
    let n = parts.len();
    let parallel = !nested && n > 1 && n <= 3 && SELECTED.load(Ordering::Relaxed) == site as i64;
    if !parallel {
        return parts.into_iter().map(|p| p()).collect();
    }
    SELECTED_PARTS.store(n, Ordering::Relaxed);
    IN_PARALLEL.store(true, Ordering::Relaxed);
    let mut slots: Vec<Option<Vec<T>>> = (0..n).map(|_| None).collect();
    let mut handles = Vec::with_capacity(n);
    for (i, p) in parts.into_iter().enumerate() {
        let slot = SendPtr(&mut slots[i] as *mut Option<Vec<T>>);
        let job: Box<dyn FnOnce() + Send + 'a> = Box::new(move || {
            let s = slot;
            let v = p();
            unsafe { *s.0 = Some(v) };
        });
        // the threads are joined before this function returns, so the borrowed data outlives them
        let job: Box<dyn FnOnce() + Send + 'static> = unsafe { std::mem::transmute(job) };
        // loom's coroutines get 32 KiB of stack by default; validation needs more (the size is in machine words)
        handles.push(loom::thread::Builder::new().stack_size(1 << 19).spawn(job).expect("spawn"));
    }
    let mut panicked = None;
    for h in handles {
        if let Err(e) = h.join() {
            panicked = Some(e);
        }
    }
    IN_PARALLEL.store(false, Ordering::Relaxed);
    if let Some(e) = panicked {
        std::panic::resume_unwind(e);
    }
    slots.into_iter().map(|s| s.expect("part finished")).collect()
}

/// Cuts `n` source items into consecutive pieces according to `CUTS`.
fn pieces(n: usize) -> Vec<std::ops::Range<usize>> {
    let cuts = CUTS.load(Ordering::Relaxed);
    let mut v = vec![];
    let mut start = 0;
    for i in 0..n {
        let last = i + 1 == n;
        let cut = last || i >= 63 || (cuts >> i) & 1 == 1;
        if cut {
            v.push(start..i + 1);
            start = i + 1;
        }
    }
    v
}

fn from_vec<'a, T: Send + 'a>(items: Vec<T>) -> Par<'a, T> {
    let n = items.len();
    let ranges = pieces(n);
    let mut items: Vec<Option<T>> = items.into_iter().map(Some).collect();
    let mut parts: Vec<Part<'a, T>> = vec![];
    let mut sizes = vec![];
    for r in ranges {
        let chunk: Vec<T> = items[r.clone()].iter_mut().map(|x| x.take().unwrap()).collect();
        sizes.push(chunk.len());
        parts.push(Box::new(move || chunk));
    }
    Par { parts, sizes: Some(sizes) }
}

pub trait TryLike: Sized {
    type Ok;
    fn from_ok(v: Self::Ok) -> Self;
    fn branch(self) -> Result<Self::Ok, Self>;
}
impl<T, E> TryLike for Result<T, E> {
    type Ok = T;
    fn from_ok(v: T) -> Self {
        Ok(v)
    }
    fn branch(self) -> Result<T, Self> {
        match self {
            Ok(v) => Ok(v),
            Err(e) => Err(Err(e)),
        }
    }
}
impl<T> TryLike for Option<T> {
    type Ok = T;
    fn from_ok(v: T) -> Self {
        Some(v)
    }
    fn branch(self) -> Result<T, Self> {
        match self {
            Some(v) => Ok(v),
            None => Err(None),
        }
    }
}

pub trait IntoParallelIterator<'a> {
    type Item: Send + 'a;
    fn into_par_iter(self) -> Par<'a, Self::Item>;
}
impl<'a, T: Send + 'a> IntoParallelIterator<'a> for Par<'a, T> {
    type Item = T;
    fn into_par_iter(self) -> Par<'a, T> {
        self
    }
}
impl<'a, T: Sync + 'a> IntoParallelIterator<'a> for &'a [T] {
    type Item = &'a T;
    fn into_par_iter(self) -> Par<'a, &'a T> {
        from_vec(self.iter().collect())
    }
}
impl<'a, T: Sync + 'a> IntoParallelIterator<'a> for &'a Vec<T> {
    type Item = &'a T;
    fn into_par_iter(self) -> Par<'a, &'a T> {
        from_vec(self.iter().collect())
    }
}
impl<'a, T: Send + 'a> IntoParallelIterator<'a> for Vec<T> {
    type Item = T;
    fn into_par_iter(self) -> Par<'a, T> {
        from_vec(self)
    }
}
impl<'a> IntoParallelIterator<'a> for std::ops::Range<usize> {
    type Item = usize;
    fn into_par_iter(self) -> Par<'a, usize> {
        from_vec(self.collect())
    }
}

pub trait IntoParallelRefIterator<'a> {
    type Item: Send + 'a;
    fn par_iter(&'a self) -> Par<'a, Self::Item>;
}
impl<'a, T: Sync + 'a> IntoParallelRefIterator<'a> for [T] {
    type Item = &'a T;
    fn par_iter(&'a self) -> Par<'a, &'a T> {
        from_vec(self.iter().collect())
    }
}
impl<'a, T: Sync + 'a> IntoParallelRefIterator<'a> for Vec<T> {
    type Item = &'a T;
    fn par_iter(&'a self) -> Par<'a, &'a T> {
        from_vec(self.iter().collect())
    }
}

pub trait IntoParallelRefMutIterator<'a> {
    type Item: Send + 'a;
    fn par_iter_mut(&'a mut self) -> Par<'a, Self::Item>;
}
impl<'a, T: Send + 'a> IntoParallelRefMutIterator<'a> for [T] {
    type Item = &'a mut T;
    fn par_iter_mut(&'a mut self) -> Par<'a, &'a mut T> {
        from_vec(self.iter_mut().collect())
    }
}
impl<'a, T: Send + 'a> IntoParallelRefMutIterator<'a> for Vec<T> {
    type Item = &'a mut T;
    fn par_iter_mut(&'a mut self) -> Par<'a, &'a mut T> {
        from_vec(self.iter_mut().collect())
    }
}

pub trait ParallelBridge<'a>: Sized {
    type Item: Send + 'a;
    fn par_bridge(self) -> Par<'a, Self::Item>;
}
impl<'a, I: Iterator + 'a> ParallelBridge<'a> for I
where
    I::Item: Send + 'a,
{
    type Item = I::Item;
    fn par_bridge(self) -> Par<'a, I::Item> {
        // the bridge hands items to whichever worker asks next: no order is promised - the parts keep source order here,
        // the interleaving of their effects is loom's business
        let mut p = from_vec(self.collect());
        p.sizes = None;
        p
    }
}

/// The methods melstf calls on parallel iterators.  Implemented by `Par` only.
pub trait ParallelIterator<'a>: Sized {
    type Item: Send + 'a;
    fn into_parts(self) -> (Vec<Part<'a, Self::Item>>, Option<Vec<usize>>);

    fn map<R: Send + 'a, F: Fn(Self::Item) -> R + Send + Sync + 'a>(self, f: F) -> Par<'a, R> {
        let (parts, sizes) = self.into_parts();
        let f = Arc::new(f);
        Par {
            parts: parts
                .into_iter()
                .map(|p| {
                    let f = f.clone();
                    Box::new(move || p().into_iter().map(|x| f(x)).collect()) as Part<'a, R>
                })
                .collect(),
            sizes,
        }
    }
    fn filter<F: Fn(&Self::Item) -> bool + Send + Sync + 'a>(self, f: F) -> Par<'a, Self::Item> {
        let (parts, _) = self.into_parts();
        let f = Arc::new(f);
        Par {
            parts: parts
                .into_iter()
                .map(|p| {
                    let f = f.clone();
                    Box::new(move || p().into_iter().filter(|x| f(x)).collect()) as Part<'a, Self::Item>
                })
                .collect(),
            sizes: None,
        }
    }
    fn filter_map<R: Send + 'a, F: Fn(Self::Item) -> Option<R> + Send + Sync + 'a>(self, f: F) -> Par<'a, R> {
        let (parts, _) = self.into_parts();
        let f = Arc::new(f);
        Par {
            parts: parts
                .into_iter()
                .map(|p| {
                    let f = f.clone();
                    Box::new(move || p().into_iter().filter_map(|x| f(x)).collect()) as Part<'a, R>
                })
                .collect(),
            sizes: None,
        }
    }
    fn flat_map<PI: IntoParallelIterator<'a>, F: Fn(Self::Item) -> PI + Send + Sync + 'a>(self, f: F) -> Par<'a, PI::Item> {
        let (parts, _) = self.into_parts();
        let f = Arc::new(f);
        Par {
            parts: parts
                .into_iter()
                .map(|p| {
                    let f = f.clone();
                    Box::new(move || {
                        let mut out = vec![];
                        for x in p() {
                            // the inner iterator is consumed inside the part that produced it
                            let (inner, _) = f(x).into_par_iter().into_parts();
                            for ip in inner {
                                out.extend(ip());
                            }
                        }
                        out
                    }) as Part<'a, PI::Item>
                })
                .collect(),
            sizes: None,
        }
    }
    fn flat_map_iter<I: IntoIterator, F: Fn(Self::Item) -> I + Send + Sync + 'a>(self, f: F) -> Par<'a, I::Item>
    where
        I::Item: Send + 'a,
    {
        let (parts, _) = self.into_parts();
        let f = Arc::new(f);
        Par {
            parts: parts
                .into_iter()
                .map(|p| {
                    let f = f.clone();
                    Box::new(move || p().into_iter().flat_map(|x| f(x)).collect()) as Part<'a, I::Item>
                })
                .collect(),
            sizes: None,
        }
    }
    fn cloned<'b, T: Clone + Send + Sync + 'a + 'b>(self) -> Par<'a, T>
    where
        Self: ParallelIterator<'a, Item = &'b T>,
        'b: 'a,
    {
        self.map(|x: &'b T| x.clone())
    }
    fn copied<'b, T: Copy + Send + Sync + 'a + 'b>(self) -> Par<'a, T>
    where
        Self: ParallelIterator<'a, Item = &'b T>,
        'b: 'a,
    {
        self.map(|x: &'b T| *x)
    }
    fn with_min_len(self, _n: usize) -> Par<'a, Self::Item> {
        let (parts, sizes) = self.into_parts();
        Par { parts, sizes }
    }
    fn with_max_len(self, _n: usize) -> Par<'a, Self::Item> {
        let (parts, sizes) = self.into_parts();
        Par { parts, sizes }
    }

    fn for_each<F: Fn(Self::Item) + Send + Sync + 'a>(self, f: F) {
        let _ = self.map(f).run();
    }
    fn try_for_each<R: TryLike<Ok = ()> + Send + 'a, F: Fn(Self::Item) -> R + Send + Sync + 'a>(self, f: F) -> R {
        let (parts, _) = self.into_parts();
        let f = Arc::new(f);
        let wrapped: Vec<Part<'a, R>> = parts
            .into_iter()
            .map(|p| {
                let f = f.clone();
                Box::new(move || {
                    for x in p() {
                        match f(x).branch() {
                            Ok(()) => {}
                            Err(r) => return vec![r],
                        }
                    }
                    vec![]
                }) as Part<'a, R>
            })
            .collect();
        for r in run_parts(wrapped).into_iter().flatten() {
            return r;
        }
        R::from_ok(())
    }
    fn try_fold<T: Send + 'a, R: TryLike<Ok = T> + Send + 'a, ID: Fn() -> T + Send + Sync + 'a, F: Fn(T, Self::Item) -> R + Send + Sync + 'a>(self, identity: ID, fold_op: F) -> Par<'a, R> {
        let (parts, _) = self.into_parts();
        let (identity, fold_op) = (Arc::new(identity), Arc::new(fold_op));
        Par {
            parts: parts
                .into_iter()
                .map(|p| {
                    let (identity, fold_op) = (identity.clone(), fold_op.clone());
                    Box::new(move || {
                        let mut acc = identity();
                        for x in p() {
                            match fold_op(acc, x).branch() {
                                Ok(a) => acc = a,
                                Err(r) => return vec![r],
                            }
                        }
                        vec![R::from_ok(acc)]
                    }) as Part<'a, R>
                })
                .collect(),
            sizes: None,
        }
    }
    fn try_reduce<T, ID: Fn() -> T + Send + Sync, OP: Fn(T, T) -> Self::Item + Send + Sync>(self, identity: ID, op: OP) -> Self::Item
    where
        Self::Item: TryLike<Ok = T>,
    {
        let mut acc = identity();
        for r in self.run() {
            match r.branch() {
                Ok(v) => match op(acc, v).branch() {
                    Ok(a) => acc = a,
                    Err(e) => return e,
                },
                Err(e) => return e,
            }
        }
        <Self::Item as TryLike>::from_ok(acc)
    }
    fn fold<T: Send + 'a, ID: Fn() -> T + Send + Sync + 'a, F: Fn(T, Self::Item) -> T + Send + Sync + 'a>(self, identity: ID, fold_op: F) -> Par<'a, T> {
        let (parts, _) = self.into_parts();
        let (identity, fold_op) = (Arc::new(identity), Arc::new(fold_op));
        Par {
            parts: parts
                .into_iter()
                .map(|p| {
                    let (identity, fold_op) = (identity.clone(), fold_op.clone());
                    Box::new(move || vec![p().into_iter().fold(identity(), |a, x| fold_op(a, x))]) as Part<'a, T>
                })
                .collect(),
            sizes: None,
        }
    }
    fn reduce<ID: Fn() -> Self::Item + Send + Sync, OP: Fn(Self::Item, Self::Item) -> Self::Item + Send + Sync>(self, identity: ID, op: OP) -> Self::Item {
        self.run().into_iter().fold(identity(), |a, x| op(a, x))
    }
    fn sum<S: std::iter::Sum<Self::Item>>(self) -> S {
        self.run().into_iter().sum()
    }
    fn count(self) -> usize {
        self.run().len()
    }
    fn all<F: Fn(Self::Item) -> bool + Send + Sync + 'a>(self, f: F) -> bool {
        self.map(f).run().into_iter().all(|b| b)
    }
    fn any<F: Fn(Self::Item) -> bool + Send + Sync + 'a>(self, f: F) -> bool {
        self.map(f).run().into_iter().any(|b| b)
    }
    fn collect<C: FromIterator<Self::Item>>(self) -> C {
        self.run().into_iter().collect()
    }
    /// Runs the parts (in parallel if this is the selected site) and returns the items in source order.
    fn run(self) -> Vec<Self::Item> {
        let (parts, _) = self.into_parts();
        run_parts(parts).into_iter().flatten().collect()
    }
}

pub trait IndexedParallelIterator<'a>: ParallelIterator<'a> {
    fn enumerate(self) -> Par<'a, (usize, Self::Item)> {
        let (parts, sizes) = self.into_parts();
        let sizes = sizes.expect("enumerate on an iterator of unknown length");
        let mut offset = 0;
        let mut out: Vec<Part<'a, (usize, Self::Item)>> = vec![];
        for (p, n) in parts.into_iter().zip(sizes.iter()) {
            let start = offset;
            offset += n;
            out.push(Box::new(move || p().into_iter().enumerate().map(|(i, x)| (start + i, x)).collect()));
        }
        Par { parts: out, sizes: Some(sizes) }
    }
    fn with_min_len_indexed(self, _n: usize) -> Par<'a, Self::Item> {
        let (parts, sizes) = self.into_parts();
        Par { parts, sizes }
    }
}

impl<'a, T: Send + 'a> ParallelIterator<'a> for Par<'a, T> {
    type Item = T;
    fn into_parts(self) -> (Vec<Part<'a, T>>, Option<Vec<usize>>) {
        (self.parts, self.sizes)
    }
}
impl<'a, T: Send + 'a> IndexedParallelIterator<'a> for Par<'a, T> {}

pub mod slice {
    use super::{from_parts_of, Par};
    /// `par_chunks` / `par_chunks_exact` of a slice: one part per chunk.
    pub trait ParallelSlice<'a, T: Sync + 'a> {
        fn as_parallel_slice(&self) -> &[T];
        fn par_chunks(&'a self, n: usize) -> Par<'a, &'a [T]> {
            from_parts_of(self.as_parallel_slice().chunks(n).collect())
        }
        fn par_chunks_exact(&'a self, n: usize) -> Par<'a, &'a [T]> {
            from_parts_of(self.as_parallel_slice().chunks_exact(n).collect())
        }
    }
    impl<'a, T: Sync + 'a> ParallelSlice<'a, T> for [T] {
        fn as_parallel_slice(&self) -> &[T] {
            self
        }
    }
    impl<'a, T: Sync + 'a> ParallelSlice<'a, T> for Vec<T> {
        fn as_parallel_slice(&self) -> &[T] {
            self
        }
    }
}

/// One part per item, whatever `CUTS` says (chunked sources bring their own pieces).
pub(crate) fn from_parts_of<'a, T: Send + 'a>(items: Vec<T>) -> Par<'a, T> {
    let sizes = vec![1; items.len()];
    Par { parts: items.into_iter().map(|x| Box::new(move || vec![x]) as Part<'a, T>).collect(), sizes: Some(sizes) }
}

pub fn current_num_threads() -> usize {
    2
}

pub mod iter {
    pub use super::{IndexedParallelIterator, IntoParallelIterator, IntoParallelRefIterator, IntoParallelRefMutIterator, ParallelBridge, ParallelIterator};
}
pub mod prelude {
    pub use super::iter::*;
    pub use super::slice::ParallelSlice;
}
