//! parking_lot's lock API over loom's locks: every acquisition is a scheduling point of loom.
pub type RwLockReadGuard<'a, T> = loom::sync::RwLockReadGuard<'a, T>;
pub type RwLockWriteGuard<'a, T> = loom::sync::RwLockWriteGuard<'a, T>;
pub type MutexGuard<'a, T> = loom::sync::MutexGuard<'a, T>;

pub struct RwLock<T>(loom::sync::RwLock<T>);
impl<T> RwLock<T> {
    pub fn new(t: T) -> Self {
        RwLock(loom::sync::RwLock::new(t))
    }
    pub fn read(&self) -> RwLockReadGuard<'_, T> {
        self.0.read().unwrap()
    }
    pub fn write(&self) -> RwLockWriteGuard<'_, T> {
        self.0.write().unwrap()
    }
    pub fn try_read(&self) -> Option<RwLockReadGuard<'_, T>> {
        self.0.try_read().ok()
    }
    pub fn try_write(&self) -> Option<RwLockWriteGuard<'_, T>> {
        self.0.try_write().ok()
    }
    pub fn into_inner(self) -> T {
        self.0.into_inner().unwrap()
    }
}
impl<T: Default> Default for RwLock<T> {
    fn default() -> Self {
        RwLock::new(T::default())
    }
}
impl<T: std::fmt::Debug> std::fmt::Debug for RwLock<T> {
    fn fmt(&self, f: &mut std::fmt::Formatter<'_>) -> std::fmt::Result {
        f.write_str("RwLock(..)")
    }
}

pub struct Mutex<T>(loom::sync::Mutex<T>);
impl<T> Mutex<T> {
    pub fn new(t: T) -> Self {
        Mutex(loom::sync::Mutex::new(t))
    }
    pub fn lock(&self) -> MutexGuard<'_, T> {
        self.0.lock().unwrap()
    }
    pub fn try_lock(&self) -> Option<MutexGuard<'_, T>> {
        self.0.try_lock().ok()
    }
    pub fn into_inner(self) -> T {
        self.0.into_inner().unwrap()
    }
}
impl<T: Default> Default for Mutex<T> {
    fn default() -> Self {
        Mutex::new(T::default())
    }
}
impl<T: std::fmt::Debug> std::fmt::Debug for Mutex<T> {
    fn fmt(&self, f: &mut std::fmt::Formatter<'_>) -> std::fmt::Result {
        f.write_str("Mutex(..)")
    }
}
