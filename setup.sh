#!/bin/sh
# Build the verification harness offline from files on disk only.
set -e
cd "$(dirname "$0")"
exec ./check --build-only
