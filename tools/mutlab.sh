#!/bin/sh
# Scratch laboratory for detection experiments, outside /repo and /verif:
#   tools/mutlab.sh setup              create /tmp/mutlab/{repo (git worktree of /repo HEAD), verif (copy of /verif pointing at it)}
#   tools/mutlab.sh sync               refresh the copy of /verif (after harness edits) and reset the repo worktree to /repo HEAD
#   tools/mutlab.sh patch <file.diff> <checks...>     apply a patch, run the quick checks, revert
#   tools/mutlab.sh sub <file> <old> <new> <checks...> textual substitution, run, revert
#   tools/mutlab.sh tests              run the repository's own suite in the worktree (as it stands)
#   tools/mutlab.sh teardown           remove everything
LAB="${MUTLAB:-/tmp/mutlab}"
sync_verif() {
    mkdir -p $LAB/verif
    rsync -a --delete --exclude target --exclude .git --exclude replays --exclude evidence /verif/ $LAB/verif/
    mkdir -p $LAB/verif/evidence $LAB/verif/replays
    sed -i "s#path = \"/repo/lib/melvm\"#path = \"$LAB/repo/lib/melvm\"#; s#path = \"/repo/lib/tip911-stakeset\"#path = \"$LAB/repo/lib/tip911-stakeset\"#; s#path = \"/repo\"#path = \"$LAB/repo\"#" $LAB/verif/harness/Cargo.toml
    sed -i "s#/repo/#$LAB/repo/#g" $LAB/verif/stfloom/Cargo.toml
}
runchecks() {
    for id in "$@"; do
        out=$(cd $LAB/verif && ./check "$id" quick 2>&1); rc=$?
        echo "== $id exit=$rc viol=$(echo "$out" | grep -c '^VIOLATION') :: $(echo "$out" | grep -m1 -A2 '^VIOLATION' | tr '\n' ' ' | cut -c1-330)"
        [ $rc -ge 2 ] && echo "$out" | tail -5
    done
}
case "$1" in
setup)
    mkdir -p $LAB
    git -C /repo worktree add -q --detach $LAB/repo HEAD || exit 1
    sync_verif
    (cd $LAB/verif && ./check --build-only) && echo "lab ready"
    ;;
sync)
    git -C $LAB/repo checkout -q -- . && git -C $LAB/repo checkout -q --detach "$(git -C /repo rev-parse HEAD)"
    sync_verif
    ;;
patch)
    f="$2"; shift 2
    git -C $LAB/repo apply "$f" || { echo "PATCH DOES NOT APPLY"; exit 9; }
    runchecks "$@"
    git -C $LAB/repo checkout -q -- . ; git -C $LAB/repo clean -fdq -- src lib tests 2>/dev/null
    ;;
sub)
    f="$2"; old="$3"; new="$4"; shift 4
    python3 - "$LAB/repo/$f" "$old" "$new" <<'PY' || exit 9
import sys
p=sys.argv[1]; s=open(p).read()
if sys.argv[2] not in s: print("PATTERN NOT FOUND"); sys.exit(1)
open(p,'w').write(s.replace(sys.argv[2],sys.argv[3],1))
PY
    runchecks "$@"
    git -C $LAB/repo checkout -q -- .
    ;;
tests)
    cd $LAB/repo && cargo test --workspace --no-fail-fast --offline 2>&1 | grep -E "^test .* \.\.\. (ok|FAILED)" | sort > $LAB/tests.txt
    echo "passed=$(grep -c '\.\.\. ok' $LAB/tests.txt) failed: $(grep FAILED $LAB/tests.txt | sed 's/test \(.*\) \.\.\. FAILED/\1/' | tr '\n' ' ')"
    ;;
teardown)
    git -C /repo worktree remove --force $LAB/repo 2>/dev/null
    rm -rf $LAB
    ;;
*) echo "usage: see header"; exit 2 ;;
esac
