#!/bin/sh
# tools/coverage.sh [tier]   diagnostic only (not a registered check): builds the harness on the nightly toolchain with
# -C instrument-coverage in /tmp/cov, runs every check's tier there and lists the lines of /repo that no check executed.
# Slow: the instrumented search takes hours for C01-C12 and the signature-heavy checks (C14) practically do not finish; run single
# checks by editing the loop.  Finding of the one run made: the executor arm of PushIC was never executed (now in C10's alphabet).
# Output: /tmp/cov/uncovered.txt (per file: uncovered line ranges) and /tmp/cov/summary.txt.
TIER="${1:-quick}"
COV=/tmp/cov
BIN=$HOME/.rustup/toolchains/nightly-x86_64-unknown-linux-gnu/lib/rustlib/x86_64-unknown-linux-gnu/bin
mkdir -p $COV/verif/evidence $COV/verif/replays $COV/prof
rm -f $COV/prof/*.profraw
cp /verif/known_findings.json /verif/properties.jsonl $COV/verif/
(cd /verif/harness && LLVM_PROFILE_FILE=$COV/build-%p.profraw CARGO_NET_OFFLINE=true CARGO_TARGET_DIR=$COV/target RUSTFLAGS="--cfg melstf_verif -C instrument-coverage" cargo +nightly build --release --offline 2>&1 | tail -1)
for n in 01 02 03 04 05 06 07 08 09 10 11 12 13 14 15 16 17 18 19 20; do
    c=C$n
    (cd $COV && LLVM_PROFILE_FILE=$COV/prof/$c-%p.profraw MCHECK_VERIF_DIR=$COV/verif ./target/release/mcheck $c --tier $TIER 2>&1 | tail -1)
done
$BIN/llvm-profdata merge -sparse $COV/prof/*.profraw -o $COV/all.profdata
$BIN/llvm-cov report $COV/target/release/mcheck -instr-profile=$COV/all.profdata $(find /repo/src /repo/lib -name '*.rs' | grep -v target) > $COV/summary.txt 2>&1
$BIN/llvm-cov show $COV/target/release/mcheck -instr-profile=$COV/all.profdata -show-line-counts-or-regions=false $(find /repo/src /repo/lib -name '*.rs' | grep -v target) > $COV/show.txt 2>&1
python3 - <<'PY'
import re
out=open('/tmp/cov/uncovered.txt','w'); cur=None
for line in open('/tmp/cov/show.txt',errors='replace'):
    if line.startswith('/repo/') and line.rstrip().endswith(':'):
        cur=line.strip(); out.write('\n'+cur+'\n'); continue
    m=re.match(r'\s*(\d+)\|\s*0\|(.*)',line)
    if m and cur: out.write('%5s: %s\n'%(m.group(1),m.group(2).rstrip()))
PY
cat $COV/summary.txt | tail -40
