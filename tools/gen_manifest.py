#!/usr/bin/env python3
"""Regenerates /verif/MANIFEST.json from the table below (single source of truth for the interface file)."""
import json, os, subprocess
ROOT = os.path.dirname(os.path.dirname(os.path.abspath(__file__)))
props = [json.loads(l) for l in open(os.path.join(ROOT, 'properties.jsonl'))]
ids = [p['id'] for p in props]

# id -> (engine, technique, level text, level note, design ref)
CHECKS = {
 'C12': ('E2-bytecode-enumeration',
         'exhaustive enumeration of all byte strings <= 3 bytes (thorough: + all 4-byte strings with an operand-taking first opcode), all opcode x operand-length classes and all instruction lists <= 2 (thorough <= 3) over boundary representatives, each against a reference codec',
         'Bounded exhaustive enumeration of the real codec (Covenant::from_bytes/to_bytes/from_ops/to_ops/hash/weight, OpCode::encode) against an independent table-driven reference codec: every byte string up to the bound is decoded by both; accepted strings must re-encode to themselves; every representable instruction list must round-trip. This is the right level because the property is a statement about a finite-state codec whose every branch is reached by strings of <= 3 bytes plus per-opcode operand-length classes.',
         'Trusted: the reference codec table in harness/src/refvm.rs (transcribed from DESIGN.md appendix C), blake3, the harness. Strings longer than the bound are covered only through the per-opcode operand-length classes.',
         'DESIGN.md §4 C12'),
 'C17': ('E3-parameter-grid',
         'exhaustive sweep of the finite grid delta in [-128,127] x fee multipliers {0..300 (thorough 0..4096)} u {2^k-1,2^k,2^k+1 : 8<=k<=70} x {before, at, after the TIP-901 switch on mainnet/testnet/custom} through the real next_unsealed().seal(action) on fabricated states, plus 300-block runs of extreme deltas',
         'Bounded exhaustive sweep of the real seal path over the whole delta range and a boundary-dense set of multipliers on states fabricated with SealedState::from_block at the relevant heights; every result is compared with the specified step computed in arbitrary-precision arithmetic; a panic is a violation. Right level: the behaviour is a pure function of (multiplier, delta, TIP-901 flag) and its failure modes sit at arithmetic boundaries, which the grid enumerates.',
         'Trusted: fabricated parent states (from_block with a synthetic parent header) behave like honestly reached states for the fee-multiplier path; BigInt arithmetic of the num crate. Multipliers above 2^70 are outside the bound.',
         'DESIGN.md §4 C17'),
 'C14': ('E3-parameter-grid',
         'exhaustive enumeration of all stake distributions with n <= 4 (thorough n <= 6) stakers and weights {1,2,3}, several stakes per key, stakes outside the epoch, x every subset of signers x {valid, bit-flipped, empty, zero, oversized, wrong-message, swapped, foreign} signature variants through the real SealedState::confirm',
         'Bounded exhaustive enumeration through the real confirm(): every subset of signers of every small stake distribution, with the threshold oracle (>2/3 confirms, <2/3 never), the invalid-signature oracle and monotonicity over all subset pairs. Right level: confirm is a pure function of (stake set, epoch, proof); its decision boundary is reached with <= 6 stakers of weight <= 3.',
         'Trusted: Ed25519 (tmelcrypt) for producing valid signatures with fixed keys; states in epochs 1 and 2 are fabricated at heights 200000/400000. More than 6 stakers and weights other than {1,2,3,2^100} are outside the bound.',
         'DESIGN.md §4 C14'),
}
NOT_APPLICABLE = {}
DEFAULT_NA = 'check not built yet (work in progress; see DESIGN.md appendix B)'

hook_commits = []
try:
    out = subprocess.check_output(['git', '-C', '/repo', 'log', '--format=%H %s'], text=True)
    for line in out.splitlines():
        h, s = line.split(' ', 1)
        if s.startswith('verif hook'):
            hook_commits.append(h)
except Exception:
    pass

checks = []
for pid in ids:
    if pid in CHECKS:
        eng, tech, text, note, ref = CHECKS[pid]
        checks.append({
            'property_id': pid,
            'quick_cmd': f'./check {pid} quick',
            'thorough_cmd': f'./check {pid} thorough',
            'evidence_file': f'/verif/evidence/{pid}.json',
            'replay_cmd_template': f'./check {pid} --replay {{path}}',
            'engine': eng,
            'level_claimed': {'category': 'model_checking', 'text': text, 'design_ref': ref},
            'level_note': note,
            'technique': tech,
        })
na = [{'property_id': p, 'reason': NOT_APPLICABLE.get(p, DEFAULT_NA)} for p in ids if p not in CHECKS]
engines = {}
for pid, c in CHECKS.items():
    engines.setdefault(c[0], []).append(pid)
m = {
 'version': 1,
 'setup_cmd': './setup.sh',
 'hooks': {
   'guard': 'melstf_verif',
   'enable': 'RUSTFLAGS="--cfg melstf_verif" (exported by ./check; harness build in CARGO_TARGET_DIR=/verif/target with path dependencies on /repo)',
   'baseline_off_cmd': 'cd /repo && cargo test --workspace --no-fail-fast --offline',
   'source_commits': list(reversed(hook_commits)),
   'add_only': True,
 },
 'engines': [{'name': k, 'path': 'harness/src', 'serves_properties': sorted(v),
              'kind_free_text': 'explicit-state / exhaustive bounded enumeration over the real implementation (Rust harness `mcheck`)'} for k, v in sorted(engines.items())],
 'checks': checks,
 'notes': 'All checks are run by ./check <ID> <tier>, which rebuilds the harness and /repo (hooks on) from the current working tree. Exit 0 = held on everything explored, 1 = VIOLATION line printed, >=2 = machinery failure (no verdict). Known findings: /verif/known_findings.json.',
 'not_applicable': na,
}
json.dump(m, open(os.path.join(ROOT, 'MANIFEST.json'), 'w'), indent=1)
print('MANIFEST.json written:', len(checks), 'checks,', len(na), 'not applicable')
