#!/usr/bin/env python3
"""Regenerates /verif/MANIFEST.json from the table below (single source of truth for the interface file)."""
import json, os, subprocess
ROOT = os.path.dirname(os.path.dirname(os.path.abspath(__file__)))
props = [json.loads(l) for l in open(os.path.join(ROOT, 'properties.jsonl'))]
ids = [p['id'] for p in props]

# id -> (engine, technique, level text, level note, design ref)
CHECKS = {
 'C10': ('E2-vm-lockstep',
         'exhaustive enumeration of all programs up to length 4 (thorough 5) over four reduced alphabets (arithmetic/logic, data, control/heap, loop skeletons) on three initial heaps, programs that build strings of 2^15..2^17 bytes and apply the length-bounded and indexed opcodes, all operand tuples from a 37-value boundary set for every opcode, and a grid of transaction/environment conversions, each executed on the real interpreter in lock-step (pc, stack, heap, failure after every instruction) with an independent reference interpreter',
         'Bounded exhaustive exploration of the real MelVM interpreter (single-stepped through hook H1) against a reference interpreter written from DESIGN.md appendix C with BigUint arithmetic: every program of the bounded space is run on both and compared after every instruction, then through the public debug_execute twice (determinism). Right level: the interpreter is a sequential deterministic machine whose every instruction arm, failure mode and loop-bookkeeping path is reached by programs of <= 5 instructions plus per-opcode operand boundaries.',
         'Trusted: the reference interpreter (harness/src/refvm.rs), blake3, ed25519-consensus; shifts by >= 256 are recorded as implementation-defined (amount reduced mod 256). Programs longer than the bound, heaps other than the three used, and operands outside the boundary set are not covered. The hook only re-exports the Executor type.',
         'DESIGN.md §4 C10, appendix C'),
 'C11': ('E2-vm-lockstep',
         'exhaustive enumeration of all programs up to length 4 (thorough 5) over a 28-symbol control-flow alphabet and loop towers (oracle steps <= weight, weight == reference weight), loops followed by tails that make the program longer than 65536 instructions, a 3000-fold loop over every operand-free instruction, all loop-header programs with n <= 6 (thorough 8) headers over {0,1,2}x{0,1,n,65535} plus uniform families up to n = 2000 and 0xb0 byte strings up to 100 kB (oracle: weighing work counter <= n^3+64, terminates), and data-doubling / deep-nesting families x every consuming opcode (incl. short appends in either operand order) in child processes (oracle: peak heap growth <= 4096*(weight+64), terminates within the deadline)',
         'Bounded exhaustive exploration of the real interpreter and weight calculator: instruction counts from single-stepping the real Executor (H1) against Covenant::weight(); deterministic weighing work from the H2 counter; memory from a counting allocator in child processes with a 2 MiB stack and an address-space limit. Right level: cost violations need specific program shapes (nested loops, overrunning bodies, doubling followed by a materialising opcode), which the families enumerate completely within the stated bounds.',
         'Trusted: the harness allocator accounting; the per-child deadline (10 s quick / 30 s thorough) as the only time judgement; "polynomial" is judged on n <= 2000 headers and k <= 26 doublings. Crashes (stack overflow) are attributed to C09, not C11.',
         'DESIGN.md §4 C11'),
 'C12': ('E2-bytecode-enumeration',
         'exhaustive enumeration of all byte strings <= 3 bytes (thorough: + all 4-byte strings with an operand-taking first opcode), all opcode x operand-length classes and all instruction lists <= 2 (thorough <= 3) over boundary representatives, and structured long strings (the standard covenants with tails, programs of 65535..131073 instructions), each against a reference codec, incl. equality of a decoded program with a fresh decode / rebuild of itself after hash()',
         'Bounded exhaustive enumeration of the real codec (Covenant::from_bytes/to_bytes/from_ops/to_ops/hash/weight, OpCode::encode) against an independent table-driven reference codec: every byte string up to the bound is decoded by both; accepted strings must re-encode to themselves; every representable instruction list must round-trip. This is the right level because the property is a statement about a finite-state codec whose every branch is reached by strings of <= 3 bytes plus per-opcode operand-length classes.',
         'Trusted: the reference codec table in harness/src/refvm.rs (transcribed from DESIGN.md appendix C), blake3, the harness. Strings longer than the bound are covered only through the per-opcode operand-length classes.',
         'DESIGN.md §4 C12'),
 'C17': ('E3-parameter-grid',
         'exhaustive sweep of the finite grid delta in [-128,127] x fee multipliers {0..300 (thorough 0..4096)} u {2^k-1,2^k,2^k+1 : 8<=k<=70} x {before, at, after the TIP-901 switch on mainnet/testnet/custom, with full and with empty fee pools} through the real next_unsealed().seal(action) on fabricated states, plus 300-block runs of extreme deltas',
         'Bounded exhaustive sweep of the real seal path over the whole delta range and a boundary-dense set of multipliers on states fabricated with SealedState::from_block at the relevant heights; every result is compared with the specified step computed in arbitrary-precision arithmetic; a panic is a violation. Right level: the behaviour is a pure function of (multiplier, delta, TIP-901 flag) and its failure modes sit at arithmetic boundaries, which the grid enumerates.',
         'Trusted: fabricated parent states (from_block with a synthetic parent header) behave like honestly reached states for the fee-multiplier path; BigInt arithmetic of the num crate. Multipliers above 2^70 are outside the bound.',
         'DESIGN.md §4 C17'),
 'C14': ('E3-parameter-grid',
         'exhaustive enumeration of all stake distributions with n <= 6 (thorough n <= 7) stakers and weights {1,2,3}, several stakes per key, re-staked keys, stakes outside the epoch (states at the first block of epochs 1-3, re-labelled and entered by a real block), x every subset of signers x {valid, bit-flipped, empty, zero, oversized, wrong-message, swapped, foreign} signature variants through the real SealedState::confirm',
         'Bounded exhaustive enumeration through the real confirm(): every subset of signers of every small stake distribution, with the threshold oracle (>2/3 confirms, <2/3 never), the invalid-signature oracle and monotonicity over all subset pairs. Right level: confirm is a pure function of (stake set, epoch, proof); its decision boundary is reached with <= 7 stakers of weight <= 3.',
         'Trusted: Ed25519 (tmelcrypt) for producing valid signatures with fixed keys; states in epochs 1 and 2 are fabricated at heights 200000/400000. More than 7 stakers and weights other than {1,2,3,2^100} are outside the bound.',
         'DESIGN.md §4 C14'),
}

E1_NOTE = 'Trusted: the reference model harness/src/refstf.rs (batch rule, settlement orchestration, peg and subsidy formulas transcribed from the statements), melstructs::PoolState arithmetic, novasmt, the state-key abstraction (header hash + tips + proposer action; that the header commits to the whole state is checked by C07). Bounds: the transaction alphabet instantiates each template on the first 1-2 coins per denomination, <= 2-3 transactions per block, depth bound as reported in the evidence; values outside the alphabet are not covered. Hook H3 only reads an unsealed state.'
def e1(tech, text, ref):
    return ('E1-state-graph-search', tech, text, E1_NOTE, ref)
CHECKS.update({
 'C01': e1('explicit-state breadth-first search over the real apply_tx_batch / seal / next_unsealed (one transition = one real call) with de-duplication on the header-based state key, up to the depth bound, over alphabets containing every issuance path (faucet, new token, swap, deposit, withdrawal, every pool-name spelling, other kinds carrying pool names, proposer actions), plus histories across the rule-switch heights (end of the legacy deposit window 978392, TIP-906/902/901 activations) real-proof DoscMints before and after a speed record, three further genesis configurations (initial coin in SYM / ERG / 2^100 MEL, non-empty initial fee pool, genesis stakes), far heights where the subsidy runs out (21,950,000), amounts near 2^110 at lopsided prices, 255-300 requests of the maximum coin value against one pool in one block, withdrawals of liquidity tokens the built-in pools never issued, the two standard genesis configurations of the repository (empty-block histories), and hostile members (input-less token mints, second spends of recently spent coins) in replay histories; the own new token of a transaction counts as issuance only if the token did not exist before; oracle on every transition: per-denomination supply (raw coin tree + pool tree + fee pool + tips) after <= before + issuance allowed by the statement',
    'Bounded exhaustive exploration of histories of the real state-transition function: every action sequence up to the depth bound over a finite, state-dependent alphabet is executed on the real code, and conservation of every denomination is evaluated on the raw trees of the real state after every accepted batch and every seal. Right level: a conservation violation needs a particular combination of transactions (ordering, pool-name spelling, kind, several requests per block), which small-scope exhaustive search produces and examples do not.',
    'DESIGN.md §4 C01'),
 'C02': e1('explicit-state breadth-first search over the real state-transition function in lock-step with a map-based reference model: all action sequences up to the depth bound over single transactions and ordered batches (dependent pairs in both orders, three-step chains in the worst order, conflicting pairs, repeated transactions, adversarial members incl. second spends of coins spent earlier in the block or history, input-less transactions, an unbalanced transaction that also issues a token), plus a stake followed by spends of its outputs in every input position, balanced transactions whose fee or output exceeds 2^120, and a faucet consuming a coin without its covenant; oracle: real accepts => every stated condition holds in the model; on accept the raw coin tree equals the model entry for entry; on reject header and tips are unchanged',
    'Bounded exhaustive lock-step exploration: every transition calls the real apply_tx_batch and the reference batch rule on the same input; acceptance is compared in the direction the statement gives (necessity), the resulting coin set exactly, and rejected batches must leave the state key unchanged.',
    'DESIGN.md §4 C02'),
 'C15': e1('explicit-state breadth-first search over blocks mixing swap / deposit / withdrawal requests (several per pool, both sides, existing and brand-new pools), every pool-name spelling and every other transaction kind carrying a pool name, requests whose coins were spent again in the same block, near-requests (deposit with its sides exchanged, withdrawal with change, two coins of one denomination under an equal-sided name), a user pool emptied by several withdrawals of one block, amounts near 2^110, and histories across the rule-switch heights; oracles at every seal: outputs of non-requests unchanged; coins and pools equal the reference settlement (single price, pro-rata floor, exact reserve movement); deposit shares <= liquidity minted; reserve product non-decreasing',
    'Bounded exhaustive exploration of blocks and multi-block histories through the real seal, compared with a reference settlement written from the statement plus statement-level invariants evaluated on the real trees.',
    'DESIGN.md §4 C15'),
 'C16': e1('explicit-state breadth-first search over liquidity histories (mint a token, create its pool, deposit twice in a block, swap, withdraw everything) to depth 8 (thorough 11), two pools with three requests per block to depth 10, the Testnet ERG/SYM pool before TIP-902, a custom pool whose liquidity is wholly user-held, withdrawals of liquidity tokens a built-in pool never issued, near-requests among genuine ones, deposits of 2^110, and three further genesis configurations; state invariant after every seal: built-in pools exist with non-zero reserves, sum of liquidity-token coins <= pool.liqs for every pool',
    'Bounded exhaustive exploration with a state invariant evaluated on the raw coin and pool trees of every sealed state reached.',
    'DESIGN.md §4 C16'),
 'C20': e1('explicit-state breadth-first search over UTXO and pool histories on networks with TIP-906 from genesis and on testnet histories crossing the activation height (root fabricated at 498; Mainnet at 829998), on Testnet after activation while the legacy deposit rule still applies, with the replayable grandfathered faucet on Mainnet, near-requests in the pool alphabet, restarts (from_block) of every sealed state, and three further genesis configurations; state invariant on every open and sealed state: count entry per covenant hash == number of coin entries with that hash, no stray or zero counters, none before activation',
    'Bounded exhaustive exploration with a state invariant evaluated on the raw coin tree (coins grouped by covenant hash against the count entries) after every open, accepted batch and seal.',
    'DESIGN.md §4 C20'),
})

CHECKS.update({
 'C03': ('E1-order-and-schedule-enumeration',
    'for every base state (sealed states within depth 3, thorough 6, of pool/UTXO histories on Custom02 and Custom08) and every set S of alphabet transactions with |S| <= 3 over an alphabet of 16 (thorough 18) members incl. three invalid ones (plus all sets of 4 on the first base; thorough: <= 4 everywhere): all |S|! orderings as one batch, every topological one-at-a-time order, explicit rayon pools of 1 and 16 (thorough 1,2,4,16) threads x all orders, one-at-a-time application in both topological directions, and apply_block over HashSets rebuilt with fresh hashers and insertion orders; oracle: identical accept/reject and identical seal(None) and seal(Some) headers; plus the height-0 header-reading-covenant corner, the DoscMint corner (two mints above the recorded speed padded with payments, so that they can share a chunk of the parallel fold), structured batches of 300-2100 chained transactions in 60+ orders, and 40 (thorough 200) repetitions of multi-input batches on a 16-thread pool (schedule sampling, labelled so)',
    'Bounded exhaustive enumeration of orders on the real apply_tx_batch / apply_tx / apply_block: every permutation of every small set (acceptable sets and sets with an invalid member) is executed and all results compared; pool sizes vary the parallel schedule at closure granularity. Right level: order dependence needs a specific relative order of two or three dependent transactions, which the permutation sweep enumerates completely within the bound.',
    'Trusted: header equality as state equality (C07). Limits: interleavings inside one validation closure are not enumerated (rayon, parking_lot and dashmap cannot be intercepted by loom/shuttle; closures only read shared immutable data) - pool-size variation is free-running, i.e. sampling of schedules, and is labelled so in the evidence; which error a rejected batch returns is not compared.',
    'DESIGN.md §4 C03, §5'),
 'C06': ('E3-mutation-grid',
    'for 14 (thorough 60) parents within depth 3 (thorough 6) of histories on Custom02, Custom08 (dense transaction tree) and Testnet (thorough: + fees, Mainnet), every child block built from <= 2 (thorough 3) alphabet transactions (incl. chains, a stake with a spend of the staked coin, and blocks assembled by sequential apply_tx) with and without a proposer action (incl. the strongest votes, delta 127 and -128), a 150-transaction honest block over rebuilt transaction sets, honest blocks of faucets whose fees add up beyond the maximum coin value, blocks built by a proposer that also tried invalid, duplicate and late-failing batches, and every single mutation of it: each of the 11 header fields replaced by two other values, each transaction removed, each alphabet transaction (valid and invalid) added, each transaction replaced (same hash_nosigs with other signatures; other output data), proposer action None<->Some, delta+-1, other destination; oracle computed without apply_block: Ok iff batch accepted and sealed header == block header, returned header == block header',
    'Bounded exhaustive enumeration of (parent, block, single mutation) triples through the real apply_block, against the first sentence of the statement evaluated through next_unsealed / apply_tx_batch / seal.',
    'Trusted: next_unsealed, apply_tx_batch and seal as the definition of the correct successor (their own correctness is C01-C05, C15-C20); HashSet iteration order is C03 subject.',
    'DESIGN.md §4 C06'),
 'C07': e1('explicit-state breadth-first search over UTXO and pool histories on Custom02, Custom08 (dense transaction commitment) and Testnet across the TIP-906 activation (also with pool requests inside the legacy deposit window), Mainnet across 830000 with the replayable grandfathered faucet, transfers carrying empty signature slots on Custom08 (the transaction commitment is checked on open states too, before states are merged), a user pool that is emptied, public accessors (pool, coin, stake) against the committed entries, the TIP-911 stake view of independently built stake sets, three further genesis configurations, with an oracle on every generated successor (before de-duplication): height/previous/network linkage and history contents on the honest segment; coin, pool and stake roots recomputed from the model content in a fresh tree in ascending and descending key order; transaction commitment rebuilt externally under both schemes; two-directional maps content digest <-> root / header hash over the whole explored set (history independence and sensitivity); Merkle proofs of presence and absence for coins, pools and history entries verified against the header roots and refuted for other values; transaction positions and dense proofs; scalar/stake sensitivity through from_block pairs',
    'Bounded exhaustive exploration with commitment oracles evaluated on every generated state, including the cross-path bijection between model content and commitments.',
    'DESIGN.md §4 C07'),
 'C08': ('E1-product-search',
    'product search: every sealed state within d1 = 5 (thorough 6) of scenarios on Custom02 (with and without fees), Custom08, Testnet across the 499->500 activation and Custom02 with stakes at the last block of epochs 0 and 1 is a restart point (with/without proposer action, with/without pending tips); plus a testnet chain with a user-created pool reached by ~490 real blocks shortly before TIP-902; the pair (original, from_block(to_block)) is driven in lock-step through every continuation of depth d2 = 4 (thorough 5) including one nested restart; oracle: same accept/reject, same header and same tips at every step; a panic of the rebuilt lineage alone is a divergence; plus twelve-block continuations of empty blocks under three proposer-action patterns after restarts at four points of every root',
    'Bounded exhaustive exploration of (crash point x continuation): all restart points within the first bound, all continuations within the second, on the real to_block / from_block / next_unsealed / apply_tx_batch / seal.',
    'Trusted: the content-addressed store survives the restart (same Database); header + tips equality as behavioural equality within the continuation bound.',
    'DESIGN.md §4 C08'),
})

CHECKS.update({
 'C04': ('E3-spend-shapes',
    'exhaustive enumeration of spend shapes: 24 covenant families (always-true/false, a heap-writing and a heap-reading covenant, a covenant failing inside a loop, a 17-bit heap address, a branch on a byte string, nested-loop counters, four undecodable shapes, readers of the fee pool / pool root / coin root of the previous header, legacy and new signature, hash-lock, time-lock, index-bound, value-bound, undecodable, denomination / parent-index / additional-data readers, failing) x every assignment to 1, 2 and 3 input positions (same family twice uses its two coins) x covenant list {complete, missing first/last, extra, wrong bytes of the same length} x signatures {valid, bit-flipped, wrong key, wrong slot, signed before the data changed, none} x data {preimage, wrong} x kinds {Normal, Faucet, Swap, LiqDeposit, LiqWithdraw}, at height 1 (same block as funding) and height 2, plus height-0 spends of the genesis coin and every program of length <= 3 (thorough 4) over an 18-symbol environment-reading alphabet; oracle per input from the reference VM and melvm on (transaction, own environment): apply_tx accepts iff every input covenant is present, decodable and truthy',
    'Bounded exhaustive enumeration through the real apply_tx with an oracle that does not go through validate_tx_scripts: the expected verdict is computed input by input on that input own spending environment; necessity and sufficiency are both checked because every other acceptance condition holds by construction.',
    'Trusted: the reference VM (cross-checked against melvm on every evaluation), Ed25519 with fixed keys. Covenants outside the families / alphabet and more than 3 inputs are not covered.',
    'DESIGN.md §4 C04'),
 'C05': ('E3-parameter-grid + E1-state-graph-search',
    'exhaustive grid: fee multipliers {0,1,2,65535,65536,65537,10^6,2^40,2^64,2^90} x inputs {1,2,3} x outputs {0,1,2,3,255} x 7 extra covenants of weight 0..~10^8 x data length {0,1,100} x fee - minimum in {-1000,-2,-1,0,1,2,1000} (fee iterated to the fixed point fee = min(tx)), followed by padded-signature variants, 40 loop-shape covenants, one covenant per opcode (every exp k) and the two standard signature covenants with each operand replaced or followed by a heavy tail, oracle: accepted iff fee >= reference minimum, fee pool += minimum, tips += remainder; then breadth-first search over histories with over-paying transfers and seals with/without proposer actions at multipliers 0, 65536, 10^6 to depth 9/8/8 (thorough 11/10/10) (seal actions incl. a reward sent to the destruction address), three further genesis configurations, the two standard genesis configurations, and histories with fees near 2^120, oracle: reward coin = (fee pool of seal(None) >> 16) + tips, fee pool decreases by exactly that part, tips restart at 0',
    'Bounded exhaustive sweep and state-graph search through the real apply_tx / seal with exact arithmetic oracles from the statement.',
    'Trusted: reference covenant weight and stdcode length for the transaction weight; the grid fixtures fund coins with a faucet that pays its own minimum fee.',
    'DESIGN.md §4 C05'),
 'C09': ('E1/E3 hostile alphabet + child processes',
    'exhaustive product of a hostile transaction alphabet (per kind: values and fees over {0,1,2,2^120-1,2^120,2^120+1,2^127,2^128-2,2^128-1}; output counts {0,1,2,254,255,256,300}; missing/repeated inputs; every pool-name spelling with 0/1/2/all-valued swaps, zero-sided deposits, zero/over-sized withdrawals; stake documents over epoch {0,cur,cur+1,2^64-1} and amount boundaries; DoscMint (difficulty, proof) over {0,1,2,3,63,64,65,100,101,127,128,2^32-1} x 8 proof shapes; heavy, undecodable and saturating covenants, one 0.6*2^128-weight covenant listed two and three times; oversized signatures and data) x base states (Custom02 height 1 with/without fees, unsealed genesis at height 0, a custom pool with liquidity tokens held, the same pool emptied, Mainnet at 829998, Testnet at 498; thorough adds more TIP boundaries and Custom08) x calls {apply_tx_batch alone / before / after a normal transfer, seal(None), seal(Some delta), next block, apply_block, confirm with garbage proofs}; engine scenarios (C16 / C15 histories, histories across the coin-count activation on testnet and mainnet, far heights 21,950,000 and 128,950,000); hostile-covenant spends (data doubling, deep nesting, ...) in child processes with a 2 MiB stack; oracle: every call returns without panic, overflow (overflow checks on), abort or exceeding the watchdog',
    'Bounded exhaustive fault enumeration on the real entry points with panic capture (catch_unwind + backtrace frame), a watchdog for non-termination and child-process isolation for inputs that can kill the process. Right level: a crash needs one specific boundary value in one specific field of one kind, which the per-field boundary product enumerates.',
    'Trusted: the watchdog deadline (30 s / 60 s for calls that take microseconds) as the only time judgement; RLIMIT_AS and the 2 MiB thread stack as the validator environment. Field values between the boundary points and combinations of two hostile fields in one transaction are not covered. Every other check also wraps its real calls in catch_unwind and counts panics, but reports them only here.',
    'DESIGN.md §4 C09'),
 'C13': e1('explicit-state breadth-first search to depth 28 (thorough 32) over histories that submit up to two stake transactions from a grid of documents ((e_start, e_post_end) around the current epoch, amount == / != first output, a zero amount, first output SYM / MEL, truncated / trailing-byte / empty document), try to spend every output of every stake transaction in the same batch (both orders), later in the block, in the next block and - after jumps to the last block of each epoch - in the first block of the next, through epoch end+1, plus testnet histories across heights 500000 and 900000 where the stake rules / the lock rule of the legacy networks come into force, first stakes around an epoch boundary, and a rebuild (from_block) of every sealed state whose block holds a Stake transaction; oracles: registered stake set == model (register only if consistent), spending the staked coin rejected while a registered, unexpired stake covers it and never rejected as locked otherwise, votes(e,k) and total_votes(e) == sums over the model, stakes_hash == root of the model stakes',
    'Bounded exhaustive exploration across epoch boundaries (reached by re-labelling sealed content with from_block) with lock, registration, voting-power and commitment oracles on every state.',
    'DESIGN.md §4 C13'),
 'C18': ('E3 with real proofs through the E1 lock-step oracle',
    'exhaustive grid with real melpow proofs: coin ages {1,2,3,50} (thorough + {99,100,101}) x (difficulty, hash) in {1,2,4,8,16 legacy; 1,3,8 TIP-910} (thorough + 7 more) x ERG amounts {0, max-1, max, max+1, 2max+1, max split over two outputs} x corruptions {claimed difficulty +-1, trailing byte, truncated, empty data, empty / 39-byte / zero proof, every (or a spread of) 40-byte unit removed or bit-flipped, proof for another coin, proof seeded with another height header}, on Custom02 and Mainnet (age >= 100 rule; thorough + Testnet), the genesis coin (height 0) on chains of height 1..101, mints after an earlier mint raised the recorded speed, two mints in one batch in both orders, two sibling chains of one network holding the same coin under different headers, worlds re-labelled at heights 1040 .. 10^6 (inflator above 1); oracle: real accepts => the reference verdict (puzzle, verification under either hash, reward bound, age rule) accepts; dosc_speed == max(previous, demonstrated speeds); public calculate_reward / dosc_to_erg == reference transcription over a 3280-point grid; supplement (sampling, labelled): 4 threads asking for neighbouring fresh heights of the process-wide inflator table, every answer compared with the recurrence',
    'Bounded exhaustive enumeration through the real apply_tx_batch against a reference transcription of the reward formula and an independent evaluation of the proof with the melpow library.',
    'Trusted: melpow::Proof::generate/verify as the definition of valid sequential work; BigInt arithmetic. Difficulties above 20 are outside the bound (proof generation cost).',
    'DESIGN.md §4 C18'),
 'C19': e1('explicit-state breadth-first search to depth 9 (thorough 11) on all 9 network ids over 7 faucet shapes incl. the grandfathered mainnet transaction, the same bodies carrying other signatures and a faucet that spends a coin, applied alone, twice in one batch, in mixed batches, later in the block, in later blocks, after a to_block/from_block restart, after a jump, and on testnet after the chain has crossed the TIP-906 activation; the search continues behind a model mismatch; oracle: on mainnet only the grandfathered hash may be accepted; elsewhere a faucet accepted once is rejected everywhere afterwards',
    'Bounded exhaustive exploration of replay points of faucet transactions on every network through the real apply_tx_batch, in lock-step with the reference duplicate rule.',
    'DESIGN.md §4 C19'),
})

NOT_APPLICABLE = {}
DEFAULT_NA = 'check not built yet (work in progress; see DESIGN.md appendix B)'

hook_commits = []
try:
    out = subprocess.check_output(['git', '-C', '/repo', 'log', '--format=%H %s'], text=True)
    for line in out.splitlines():
        h, s = line.split(' ', 1)
        if s.startswith('verif hook'):
            hook_commits.append(h)
except Exception:
    pass

checks = []
for pid in ids:
    if pid in CHECKS:
        eng, tech, text, note, ref = CHECKS[pid]
        checks.append({
            'property_id': pid,
            'quick_cmd': f'./check {pid} quick',
            'thorough_cmd': f'./check {pid} thorough',
            'evidence_file': f'/verif/evidence/{pid}.json',
            'replay_cmd_template': f'./check {pid} --replay {{path}}',
            'engine': eng,
            'level_claimed': {'category': 'model_checking', 'text': text, 'design_ref': ref},
            'level_note': note,
            'technique': tech,
        })
na = [{'property_id': p, 'reason': NOT_APPLICABLE.get(p, DEFAULT_NA)} for p in ids if p not in CHECKS]
engines = {}
for pid, c in CHECKS.items():
    engines.setdefault(c[0], []).append(pid)
m = {
 'version': 1,
 'setup_cmd': './setup.sh',
 'hooks': {
   'guard': 'melstf_verif',
   'enable': 'RUSTFLAGS="--cfg melstf_verif" (exported by ./check; harness build in CARGO_TARGET_DIR=/verif/target with path dependencies on /repo)',
   'baseline_off_cmd': 'cd /repo && cargo test --workspace --no-fail-fast --offline',
   'source_commits': list(reversed(hook_commits)),
   'add_only': True,
 },
 'engines': [{'name': k, 'path': 'harness/src', 'serves_properties': sorted(v),
              'kind_free_text': 'explicit-state / exhaustive bounded enumeration over the real implementation (Rust harness `mcheck`)'} for k, v in sorted(engines.items())],
 'checks': checks,
 'notes': 'All checks are run by ./check <ID> <tier>, which rebuilds the harness and /repo (hooks on) from the current working tree. Exit 0 = held on everything explored, 1 = VIOLATION line printed, >=2 = machinery failure (no verdict). Known findings: /verif/known_findings.json.',
 'not_applicable': na,
}
json.dump(m, open(os.path.join(ROOT, 'MANIFEST.json'), 'w'), indent=1)
print('MANIFEST.json written:', len(checks), 'checks,', len(na), 'not applicable')
