#!/usr/bin/env python3
"""tools/gen_stfloom_src.py <repo root> <out dir>
Copies the repository's src/ (and README.md) to <out dir>, rewriting the few paths through which melstf's own source could
reach threads and locks *without* going through a crate that stfloom replaces by name:
    std::sync::...      -> stdsync::...   (loom's mirror of Mutex / RwLock / Condvar / atomics, a loom-backed OnceLock; Arc stays std's)
    thread_local! { .. } -> loom::thread_local! { .. }
Nothing else is touched; a file without such paths is copied byte for byte.  The number of rewritten places is printed."""
import os, re, shutil, sys
repo, out = sys.argv[1], sys.argv[2]
if os.path.isdir(out):
    shutil.rmtree(out)
os.makedirs(out)
shutil.copy(os.path.join(repo, 'README.md'), os.path.join(out, 'README.md'))
n = 0
for root, _dirs, files in os.walk(os.path.join(repo, 'src')):
    rel = os.path.relpath(root, repo)
    os.makedirs(os.path.join(out, rel), exist_ok=True)
    for f in files:
        src = os.path.join(root, f)
        dst = os.path.join(out, rel, f)
        if not f.endswith('.rs'):
            shutil.copy(src, dst)
            continue
        text = open(src).read()
        new, k1 = re.subn(r'\bstd::sync::', 'stdsync::', text)
        new, k2 = re.subn(r'(?<![:\w])thread_local!', 'loom::thread_local!', new)
        # `use std::{cell::RefCell, sync::Mutex}`-style nested imports: pull the sync part out
        def nested(m):
            inner = m.group(1)
            parts = []
            depth = 0
            cur = ''
            for ch in inner:
                if ch == '{': depth += 1
                if ch == '}': depth -= 1
                if ch == ',' and depth == 0:
                    parts.append(cur.strip()); cur = ''
                else:
                    cur += ch
            if cur.strip(): parts.append(cur.strip())
            sync = [p for p in parts if p.startswith('sync::')]
            rest = [p for p in parts if not p.startswith('sync::')]
            if not sync:
                return m.group(0)
            out = ''
            if rest:
                out += 'use std::{' + ', '.join(rest) + '};\n'
            for p in sync:
                out += 'use stdsync::' + p[len('sync::'):] + ';\n'
            return out.rstrip('\n')
        new, k3 = re.subn(r'use std::\{((?:[^{}]|\{[^{}]*\})*)\};', nested, new)
        k3 = 0 if new == text else k3
        n += k1 + k2 + (1 if k3 and 'stdsync' in new and k1 == 0 else 0)
        open(dst, 'w').write(new)
print(f"stfloom source: {n} rewritten place(s)")
