#!/bin/sh
# tools/seedreg.sh [log]   regression of every stored seeded change (both rounds) against the quick check of its own property,
# in the scratch lab (tools/mutlab.sh setup first).  One line per seed: "<id> <round> <patch> exit=<rc> <first violation class>".
LOG="${1:-/tmp/seedreg.log}"; : > "$LOG"
cd "$(dirname $0)/.."
for d in seeded/C??; do
    for sub in "$d" "$d/round2" "$d/round3" "$d/round4" "$d/round5" "$d/round7" "$d/round8" "$d/round9"; do
        for p in patch.diff patch2.diff; do
            [ -f "$sub/$p" ] || continue
            id=$(basename $d)
            extra=""
            case "$sub/$p" in
                seeded/C16/patch.diff) extra="C15";;
                seeded/C16/patch2.diff|seeded/C16/round2/patch2.diff) extra="C09";;
                seeded/C13/round2/patch2.diff) extra="C14";;
                seeded/C02/round2/patch2.diff) extra="C03";;
                seeded/C02/round3/patch.diff) extra="C01";;
                seeded/C03/round3/patch2.diff) extra="C18";;
                seeded/C09/round3/patch2.diff) extra="C20";;
                seeded/C16/round3/patch.diff) extra="C15";;
                seeded/C02/round4/patch2.diff|seeded/C06/round4/patch.diff) extra="C13";;
                seeded/C03/round4/patch2.diff|seeded/C19/round4/patch2.diff) extra="C04";;
                seeded/C18/round4/patch2.diff) extra="C03";;
                seeded/C04/round5/patch.diff) extra="C03";;
                seeded/C06/round5/patch2.diff) extra="C13";;
                seeded/C06/patch.diff) extra="C19";;
                seeded/C19/round5/patch.diff|seeded/C06/round2/patch2.diff) continue;;  # superseded by fix V
            esac
            case "$sub" in
                */round8|*/round9)
                    m=$sub/meta.json; [ "$p" = patch2.diff ] && m=$sub/meta2.json
                    det=$(python3 -c "import json; d=json.load(open('$m')).get('confirmed_by_builder',{}).get('detected_by',[]); print(' '.join(d[:2]))" 2>/dev/null)
                    [ -n "$det" ] && { id="$det"; extra=""; } ;;
            esac
            res=$(tools/mutlab.sh patch "$(pwd)/$sub/$p" $id $extra 2>&1 | grep -E "^==|PATCH DOES NOT" | cut -c1-260 | tr '\n' ' ')
            echo "$sub/$p $res" >> "$LOG"
        done
    done
done
# round 6: changes by code region (seeded/F??/round6), run against the checks recorded for them
for d in seeded/F??/round6; do
    for p in patch.diff patch2.diff; do
        [ -f "$d/$p" ] || continue
        m=$d/meta.json; [ "$p" = patch2.diff ] && m=$d/meta2.json
        checks=$(python3 -c "import json,sys; print(' '.join(json.load(open('$m'))['confirmed_by_builder']['detected_by'][:2]))")
        res=$(tools/mutlab.sh patch "$(pwd)/$d/$p" $checks 2>&1 | grep -E "^==|PATCH DOES NOT" | cut -c1-260 | tr '\n' ' ')
        echo "$d/$p $res" >> "$LOG"
    done
done
echo DONE >> "$LOG"
