#!/usr/bin/env python3
"""tools/round_table.py <round>: markdown table of a round of seeded changes from seeded/INDEX.json (for DESIGN.md §6.1)."""
import json, sys
r = int(sys.argv[1])
idx = [e for e in json.load(open('/verif/seeded/INDEX.json')) if e.get('round') == r]
idx.sort(key=lambda e: (e['property'], e['seed']))
print('| seed | change | reported by | |')
print('|---|---|---|---|')
for e in idx:
    s = ' '.join(e['summary'].split())[:150].replace('|', '/')
    print(f"| {e['property']}-r{r}-{e['seed']} | {s} | {', '.join(e['detected_by']) or '-'} | {'missed at first' if e['initially_missed'] else 'caught as built'} |")
print()
print(f"{len(idx)} changes, {sum(1 for e in idx if e['initially_missed'])} missed at first by the check of their own property")
