#!/bin/sh
# tools/seedtest.sh <seed-dir> <patch-file> <demo-file> <melvm|root> <checks...>
# Confirms a seeded change in the scratch lab: demo passes on the clean tree, patch applies, repo suite stays at baseline,
# demo fails with the patch; then runs the given quick checks against the patched tree and restores the lab.
LAB="${MUTLAB:-/tmp/mutlab}"
dir="$1"; patch="$2"; demo="$3"; where="$4"; shift 4
tdir="$LAB/repo/tests"; pkg=""
[ "$where" = "melvm" ] && { tdir="$LAB/repo/lib/melvm/tests"; pkg="-p melvm"; }
mkdir -p "$tdir"; cp "$dir/$demo" "$tdir/seeded_demo.rs"
clean=$(cd $LAB/repo && cargo test --offline $pkg --test seeded_demo 2>&1 | grep -E "^test result" | head -1)
echo "demo on clean tree: $clean"
git -C $LAB/repo apply "$dir/$patch" || { echo "PATCH DOES NOT APPLY"; rm -rf "$tdir"; exit 9; }
patched=$(cd $LAB/repo && cargo test --offline $pkg --test seeded_demo 2>&1 | grep -E "^test result" | head -1)
echo "demo with patch:    $patched"
rm -f "$tdir/seeded_demo.rs"; rmdir "$tdir" 2>/dev/null
$(dirname $0)/mutlab.sh tests
for id in "$@"; do
    out=$(cd $LAB/verif && ./check "$id" quick 2>&1); rc=$?
    echo "== $id exit=$rc viol=$(echo "$out" | grep -c '^VIOLATION') :: $(echo "$out" | grep -m1 -A2 '^VIOLATION' | tr '\n' ' ' | cut -c1-330)"
    [ $rc -ge 2 ] && echo "$out" | tail -5
done
git -C $LAB/repo checkout -q -- . ; git -C $LAB/repo clean -fdq
