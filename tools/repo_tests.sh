#!/bin/sh
# Runs the repository's own suite with the verification guard OFF and compares with the 76-test baseline.
cd /repo && cargo test --workspace --no-fail-fast --offline 2>&1 | grep -E "^test .* \.\.\. (ok|FAILED)" | sort > /tmp/repo_tests.$$
pass=$(grep -c "\.\.\. ok" /tmp/repo_tests.$$); fail=$(grep "FAILED" /tmp/repo_tests.$$ | sed 's/test \(.*\) \.\.\. FAILED/\1/' | tr '\n' ' ')
echo "passed=$pass failed: $fail"
rm -f /tmp/repo_tests.$$
[ "$pass" = "76" ] && [ "$fail" = "state::tests::apply_batch_normal state::tests::fee_pool_increase state::tests::insufficient_fees state::tests::simple_dmt " ]
