#!/usr/bin/env python3
"""tools/record_seed.py <ID> <round> <1|2> <detected_by,comma> <missed:0|1> <note>
Records the builder's confirmation of a seeded change in its meta file and in seeded/INDEX.json (replacing an earlier entry)."""
import json, sys, os
pid, rnd, n, det, missed, note = sys.argv[1], int(sys.argv[2]), int(sys.argv[3]), sys.argv[4].split(','), sys.argv[5] == '1', sys.argv[6]
base = f'/verif/seeded/{pid}/round{rnd}'
suf = '' if n == 1 else '2'
mf = f'{base}/meta{suf}.json'
m = json.load(open(mf))
m['confirmed_by_builder'] = {
    'how': 'tools/seedtest.sh in the scratch lab (demonstration passes on the clean tree / fails with the patch, repository suite at baseline with the patch), then the quick checks listed in detected_by',
    'detected_by': det, 'initially_missed_by_own_check': missed, 'note': note}
json.dump(m, open(mf, 'w'), indent=1); open(mf, 'a').write('\n')
idx = json.load(open('/verif/seeded/INDEX.json'))
idx = [e for e in idx if not (e['property'] == pid and e.get('round') == rnd and e.get('seed') == n)]
idx.append({'property': pid, 'round': rnd, 'seed': n, 'patch': f'round{rnd}/patch{suf}.diff', 'demo': f'round{rnd}/demo{suf}.rs',
            'summary': m.get('summary', '')[:300], 'needs_to_manifest': m.get('needs_to_manifest', '')[:300],
            'detected_by': det, 'initially_missed': missed, 'note': note})
json.dump(idx, open('/verif/seeded/INDEX.json', 'w'), indent=1); open('/verif/seeded/INDEX.json', 'a').write('\n')
print('recorded', pid, rnd, n, det, missed)
