#!/bin/sh
# usage: tools/mut.sh <file-under-/repo> <python-replace-old> <python-replace-new> <check ids...>
# Applies a textual mutation to /repo, runs the quick checks, restores /repo.
f="$1"; old="$2"; new="$3"; shift 3
python3 - "$f" "$old" "$new" <<'PY' || exit 9
import sys
p='/repo/'+sys.argv[1]; s=open(p).read()
if sys.argv[2] not in s: print("PATTERN NOT FOUND"); sys.exit(1)
open(p,'w').write(s.replace(sys.argv[2],sys.argv[3],1))
PY
for id in "$@"; do
  out=$(cd /verif && ./check "$id" quick 2>&1); rc=$?
  echo "== $id exit=$rc: $(echo "$out" | grep -c '^VIOLATION') violation(s); first: $(echo "$out" | grep -m1 -A2 '^VIOLATION' | tr '\n' ' ' | cut -c1-300)"
done
git -C /repo checkout -- . 
