#!/bin/sh
# Runs every check in the given tier (default quick), printing one summary line each. For development use.
tier="${1:-quick}"
cd /verif
for i in 01 02 03 04 05 06 07 08 09 10 11 12 13 14 15 16 17 18 19 20; do
  s=$(date +%s)
  out=$(./check C$i "$tier" 2>&1); rc=$?
  e=$(( $(date +%s) - s ))
  echo "C$i rc=$rc ${e}s known=$(echo "$out" | grep -c '^KNOWN-FINDING') viol=$(echo "$out" | grep -c '^VIOLATION') :: $(echo "$out" | grep '^check ' | cut -c1-160)"
done
