#!/usr/bin/env python3
"""tools/mutscan.py <file-relative-to-repo> <checks,comma> [--max N] [--start K] [--log FILE]
Systematic operator-mutation scan (a diagnostic of the checks, not a registered check): enumerates single-token mutants of one
source file of the code under test (relational, arithmetic, boolean, min/max, integer literals), and for each one, in a scratch
laboratory (MUTLAB, default /tmp/mutscan; set up with `MUTLAB=/tmp/mutscan tools/mutlab.sh setup`), rebuilds the harness against
the mutated tree and runs the given quick checks in order until one reports a violation.  One line per mutant in the log:
    <file>:<line> <operator> :: <detected by CNN (class)> | SURVIVED | STILLBORN (does not compile) | MACHINERY (exit >= 2 of CNN)
The enumeration is deterministic; sites are visited in a fixed pseudo-random order (so that a partial scan spreads over the
file); --start/--max select a window of that order.  Only code before the first `#[cfg(test)]` is mutated; comment, log,
attribute and assertion lines are skipped."""
import os, re, subprocess, sys, hashlib, time

LAB = os.environ.get('MUTLAB', '/tmp/mutscan')
args = sys.argv[1:]
rel, checks = args[0], args[1].split(',')
opt = dict(zip(args[2::2], args[3::2]))
MAX = int(opt.get('--max', 10**9)); START = int(opt.get('--start', 0))
LOG = opt.get('--log', '/tmp/mutscan.log')
path = os.path.join(LAB, 'repo', rel)
orig = open(path).read()
lines = orig.split('\n')
end = next((i for i, l in enumerate(lines) if '#[cfg(test)]' in l), len(lines))

OPS = [
    (r' <= ', ' < ', 'le->lt'), (r' >= ', ' > ', 'ge->gt'), (r' < ', ' <= ', 'lt->le'), (r' > ', ' >= ', 'gt->ge'),
    (r' == ', ' != ', 'eq->ne'), (r' != ', ' == ', 'ne->eq'),
    (r' \+ ', ' - ', 'add->sub'), (r' - ', ' + ', 'sub->add'), (r' \* ', ' / ', 'mul->div'), (r' / ', ' * ', 'div->mul'),
    (r' \+= ', ' -= ', 'addassign->subassign'), (r' -= ', ' += ', 'subassign->addassign'),
    (r' && ', ' || ', 'and->or'), (r' \|\| ', ' && ', 'or->and'),
    (r'\.min\(', '.max(', 'min->max'), (r'\.max\(', '.min(', 'max->min'),
    (r'saturating_sub\(', 'wrapping_sub(', 'satsub->wrapsub'), (r'saturating_add\(', 'wrapping_add(', 'satadd->wrapadd'),
    (r'checked_add\(', 'checked_sub(', 'checkedadd->checkedsub'),
    (r' >> ', ' << ', 'shr->shl'), (r' % ', ' / ', 'rem->div'),
    (r'\.is_some\(\)', '.is_none()', 'some->none'), (r'\.is_none\(\)', '.is_some()', 'none->some'),
    (r'\.is_empty\(\)', '.len() == 1', 'empty->one'), (r'\bfalse\b', 'true', 'false->true'), (r'\btrue\b', 'false', 'true->false'),
]
LIT = re.compile(r'(?<![\w.#"])(\d[\d_]*)(?![\w."\d])')

def skip(l):
    t = l.strip()
    return (not t or t.startswith('//') or t.startswith('#[') or t.startswith('///') or 'log::' in t or 'assert' in t
            or t.startswith('use ') or 'melstf_verif' in t or t.startswith('pub const') and False)

sites = []
for i in range(end):
    l = lines[i]
    if skip(l):
        continue
    code = l.split('//')[0]
    for pat, rep, name in OPS:
        for m in re.finditer(pat, code):
            sites.append((i, m.start(), m.end(), rep, name))
    for m in LIT.finditer(code):
        s = m.group(1)
        try:
            v = int(s.replace('_', ''))
        except ValueError:
            continue
        sites.append((i, m.start(1), m.end(1), str(v + 1), 'lit+1'))
# fixed pseudo-random order
sites.sort(key=lambda s: hashlib.sha256(f'{rel}:{s[0]}:{s[1]}:{s[4]}'.encode()).hexdigest())
print(f'{rel}: {len(sites)} mutants enumerated; window [{START}, {START + MAX})', flush=True)

env = dict(os.environ, CARGO_NET_OFFLINE='true', CARGO_TARGET_DIR=f'{LAB}/verif/target', MCHECK_VERIF_DIR=f'{LAB}/verif',
           RUSTFLAGS='--cfg melstf_verif', RUST_BACKTRACE='0')

def build():
    r = subprocess.run(['cargo', 'build', '--release', '--offline', '--quiet'], cwd=f'{LAB}/verif/harness', env=env,
                       stdout=subprocess.DEVNULL, stderr=subprocess.DEVNULL)
    return r.returncode == 0

def run_check(cid):
    try:
        r = subprocess.run([f'{LAB}/verif/target/release/mcheck', cid, '--tier', 'quick'], cwd=f'{LAB}/verif', env=env,
                           capture_output=True, text=True, timeout=900)
    except subprocess.TimeoutExpired:
        return 99, 'timeout'
    cls = ''
    m = re.search(r'^VIOLATION.*\n\s*class: (.*)', r.stdout, re.M)
    if m:
        cls = m.group(1).strip()[:90]
    return r.returncode, cls

with open(LOG, 'a') as log:
    for k, (i, a, b, rep, name) in enumerate(sites[START:START + MAX]):
        l = lines[i]
        mutated = l[:a] + rep + l[b:]
        new = lines[:]; new[i] = mutated
        open(path, 'w').write('\n'.join(new))
        t0 = time.time()
        try:
            if not build():
                res = 'STILLBORN'
            else:
                res = 'SURVIVED'
                for c in checks:
                    rc, cls = run_check(c)
                    if rc == 1:
                        res = f'detected by {c} ({cls})'; break
                    if rc >= 2:
                        res = f'MACHINERY (exit {rc} of {c})'; break
        finally:
            open(path, 'w').write(orig)
        line = f'{rel}:{i + 1} {name} [{l.strip()[:90]}] -> [{mutated.strip()[:90]}] :: {res} ({time.time() - t0:.0f}s)'
        print(line, flush=True); log.write(line + '\n'); log.flush()
open(path, 'w').write(orig)
