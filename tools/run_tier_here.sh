#!/bin/sh
# tools/run_tier_here.sh <tier> [IDs...]: like run_all.sh but in the directory it is started from (a `vp run` snapshot), one summary line per check.
tier="${1:-quick}"; shift
ids="$*"; [ -n "$ids" ] || ids="C01 C02 C03 C04 C05 C06 C07 C08 C09 C10 C11 C12 C13 C14 C15 C16 C17 C18 C19 C20"
for id in $ids; do
  s=$(date +%s)
  out=$(./check $id "$tier" 2>&1); rc=$?
  e=$(( $(date +%s) - s ))
  echo "$id rc=$rc ${e}s known=$(echo "$out" | grep -c '^KNOWN-FINDING') viol=$(echo "$out" | grep -c '^VIOLATION') :: $(echo "$out" | grep '^check ' | cut -c1-200)"
  [ $rc -ne 0 ] && echo "$out" | grep -E -A3 "^VIOLATION|MACHINERY" | head -40
done
