#!/bin/sh
# tools/collect.sh <round> <ID> <melvm|root> <checks...>  copy a sub-agent's deliverables from /tmp/wt<round>-<ID>/seeded into
# /verif/seeded/<ID>/round<round>, remove its worktree, and confirm + test both seeds in the scratch lab.
r="$1"; p="$2"; where="$3"; shift 3
d=/verif/seeded/$p/round$r
mkdir -p $d; cp /tmp/wt$r-$p/seeded/* $d/ && git -C /repo worktree remove --force /tmp/wt$r-$p
for n in "" 2; do
  [ -f $d/patch$n.diff ] || continue
  echo "### $p round$r seed${n:-1}"
  $(dirname $0)/seedtest.sh $d patch$n.diff demo$n.rs $where "$@" 2>&1 | grep -E "demo|==|passed=|PATCH" | cut -c1-420
done
