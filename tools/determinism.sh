#!/bin/sh
# tools/determinism.sh <ID...> : runs each quick check twice, in fresh processes (fresh HashMap seeds) with 16 and with 5 search
# threads, and compares states, transitions and the whole outcome histogram.  A difference is a machinery defect (uncaptured
# nondeterminism), never a verdict.
cd /verif
rc=0
for id in "$@"; do
  ./check "$id" quick >/dev/null 2>&1; cp evidence/$id.json /tmp/det_a.json
  MCHECK_THREADS=5 ./check "$id" quick >/dev/null 2>&1; cp evidence/$id.json /tmp/det_b.json
  python3 - "$id" <<'PY' || rc=1
import json,sys
a=json.load(open('/tmp/det_a.json'))['coverage']; b=json.load(open('/tmp/det_b.json'))['coverage']
keys=['states','transitions','traces_validated_against_impl','outcome_histogram','known_findings_seen']
bad=[k for k in keys if a.get(k)!=b.get(k)]
print(sys.argv[1], 'deterministic' if not bad else 'DIFFERS in '+','.join(bad), a['states'], a['transitions'])
sys.exit(1 if bad else 0)
PY
done
exit $rc
