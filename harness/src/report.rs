//! Run bookkeeping: violation collection, known-finding matching, evidence and replay files.
use parking_lot::Mutex;
use serde_json::{json, Map, Value};
use std::collections::BTreeMap;
use std::sync::atomic::{AtomicU64, Ordering};
use std::time::Instant;

/// Root of the verification tree (evidence, replays, known findings); /verif unless the check script says otherwise (scratch copies used for mutation runs).
pub fn verif_dir() -> String {
    std::env::var("MCHECK_VERIF_DIR").unwrap_or_else(|_| "/verif".to_string())
}

#[derive(Clone, Debug)]
pub struct Violation {
    pub property: String,
    /// Deterministic class string built from the *features* of the failing case.
    pub class: String,
    /// Human-readable description of what failed.
    pub what: String,
    /// Everything needed to re-run the failing case.
    pub replay: Value,
}

pub struct Run {
    pub id: String,
    pub tier: String,
    pub seed: u64,
    start: Instant,
    /// First (= shortest, enumeration is simplest-first) violation per class, and how many times it was hit.
    violations: Mutex<BTreeMap<String, (Violation, u64)>>,
    pub states: AtomicU64,
    pub transitions: AtomicU64,
    pub validated: AtomicU64,
    samples: Mutex<Vec<Value>>,
    extra: Mutex<Map<String, Value>>,
    histogram: Mutex<BTreeMap<String, u64>>,
    assumptions: Mutex<Vec<String>>,
    pub exhaustive: Mutex<bool>,
    caps: Mutex<Vec<String>>,
}

impl Run {
    pub fn new(id: &str, tier: &str) -> Self {
        let seed = std::env::var("VERIF_SEED").ok().and_then(|s| s.parse().ok()).unwrap_or(0);
        Run {
            id: id.to_string(),
            tier: tier.to_string(),
            seed,
            start: Instant::now(),
            violations: Default::default(),
            states: AtomicU64::new(0),
            transitions: AtomicU64::new(0),
            validated: AtomicU64::new(0),
            samples: Default::default(),
            extra: Default::default(),
            histogram: Default::default(),
            assumptions: Default::default(),
            exhaustive: Mutex::new(true),
            caps: Default::default(),
        }
    }
    pub fn thorough(&self) -> bool {
        self.tier == "thorough"
    }
    pub fn elapsed(&self) -> f64 {
        self.start.elapsed().as_secs_f64()
    }
    pub fn state(&self) {
        self.states.fetch_add(1, Ordering::Relaxed);
    }
    pub fn states_add(&self, n: u64) {
        self.states.fetch_add(n, Ordering::Relaxed);
    }
    pub fn transition(&self) {
        self.transitions.fetch_add(1, Ordering::Relaxed);
    }
    pub fn transitions_add(&self, n: u64) {
        self.transitions.fetch_add(n, Ordering::Relaxed);
    }
    pub fn validated(&self) {
        self.validated.fetch_add(1, Ordering::Relaxed);
    }
    pub fn validated_add(&self, n: u64) {
        self.validated.fetch_add(n, Ordering::Relaxed);
    }
    /// Counts one outcome in the outcome histogram (so that vacuous runs are visible).
    pub fn outcome(&self, key: &str) {
        *self.histogram.lock().entry(key.to_string()).or_insert(0) += 1;
    }
    pub fn outcome_n(&self, key: &str, n: u64) {
        *self.histogram.lock().entry(key.to_string()).or_insert(0) += n;
    }
    pub fn outcome_count(&self, key: &str) -> u64 {
        self.histogram.lock().get(key).copied().unwrap_or(0)
    }
    pub fn sample(&self, v: Value) {
        let mut s = self.samples.lock();
        if s.len() < 12 {
            s.push(v);
        }
    }
    pub fn set(&self, k: &str, v: Value) {
        self.extra.lock().insert(k.to_string(), v);
    }
    pub fn assume(&self, s: &str) {
        let mut a = self.assumptions.lock();
        if !a.iter().any(|x| x == s) {
            a.push(s.to_string());
        }
    }
    pub fn cap_hit(&self, s: &str) {
        *self.exhaustive.lock() = false;
        self.caps.lock().push(s.to_string());
    }
    pub fn violation(&self, property: &str, class: String, what: String, replay: Value) {
        let mut v = self.violations.lock();
        let e = v.entry(format!("{}|{}", property, class)).or_insert_with(|| {
            (
                Violation {
                    property: property.to_string(),
                    class,
                    what,
                    replay,
                },
                0,
            )
        });
        e.1 += 1;
    }
    pub fn violation_count(&self) -> usize {
        self.violations.lock().len()
    }
    pub fn violation_classes(&self) -> Vec<String> {
        self.violations.lock().values().map(|v| v.0.class.clone()).collect()
    }

    /// Machinery failure: never a verdict.
    pub fn machinery_failure(&self, msg: &str) -> ! {
        eprintln!("MACHINERY-FAILURE check={} {}", self.id, msg);
        std::process::exit(2);
    }

    /// Writes evidence, prints KNOWN-FINDING / VIOLATION lines and returns the exit code.
    pub fn finish(&self) -> i32 {
        let known = crate::findings::load();
        let vio = self.violations.lock();
        let mut new_violations = 0;
        let mut known_seen = vec![];
        let mut vio_out = vec![];
        std::fs::create_dir_all(format!("{}/replays", verif_dir())).ok();
        for (_, (v, hits)) in vio.iter() {
            // a violation recorded by an engine that serves several properties is reported by the property it belongs to only
            if v.property != self.id {
                if std::env::var("MCHECK_ALL_PROPS").is_ok() {
                    println!("note: (other property, reported by its own check) {} {} -- {} [{} hits]", v.property, v.class, v.what.chars().take(300).collect::<String>(), hits);
                }
                continue;
            }
            if let Some(k) = known.iter().find(|k| k.status == "known" && k.property == v.property && k.class == v.class) {
                println!("KNOWN-FINDING: property={} {} [class {}; {} hit(s) this run]", v.property, k.what, v.class, hits);
                known_seen.push(json!({"class": v.class, "hits": hits}));
            } else {
                let path = format!("{}/replays/{}-{}.json", verif_dir(), v.property, short_hash(&v.class));
                let body = json!({
                    "property": v.property, "class": v.class, "what": v.what, "tier": self.tier,
                    "hits": hits, "replay": v.replay,
                });
                std::fs::write(&path, serde_json::to_string_pretty(&body).unwrap()).ok();
                println!("VIOLATION property={} replay={}", v.property, path);
                println!("  class: {}", v.class);
                println!("  what:  {}", v.what);
                new_violations += 1;
                vio_out.push(json!({"class": v.class, "what": v.what, "hits": hits, "replay": path}));
            }
        }
        let states = self.states.load(Ordering::Relaxed);
        let transitions = self.transitions.load(Ordering::Relaxed);
        let mut coverage = Map::new();
        coverage.insert("states".into(), json!(states.max(1)));
        coverage.insert("transitions".into(), json!(transitions.max(1)));
        coverage.insert("traces_validated_against_impl".into(), json!(self.validated.load(Ordering::Relaxed)));
        let samples = self.samples.lock().clone();
        coverage.insert(
            "samples".into(),
            Value::Array(if samples.is_empty() { vec![json!("(no sample recorded)")] } else { samples }),
        );
        coverage.insert("exhaustive".into(), json!(*self.exhaustive.lock()));
        coverage.insert("caps_hit".into(), json!(*self.caps.lock()));
        coverage.insert("outcome_histogram".into(), json!(*self.histogram.lock()));
        coverage.insert("distinct_outcomes".into(), json!(self.histogram.lock().len()));
        coverage.insert("known_findings_seen".into(), Value::Array(known_seen));
        coverage.insert("new_violations".into(), Value::Array(vio_out));
        for (k, v) in self.extra.lock().iter() {
            coverage.insert(k.clone(), v.clone());
        }
        let ev = json!({
            "property_id": self.id,
            "tier": self.tier,
            "seed": self.seed,
            "level": "model_checking",
            "coverage": Value::Object(coverage),
            "assumptions": *self.assumptions.lock(),
            "wall_s": self.elapsed(),
            "violations": new_violations,
        });
        std::fs::create_dir_all(format!("{}/evidence", verif_dir())).ok();
        let path = format!("{}/evidence/{}.json", verif_dir(), self.id);
        if let Err(e) = std::fs::write(&path, serde_json::to_string_pretty(&ev).unwrap()) {
            eprintln!("MACHINERY-FAILURE cannot write evidence {}: {}", path, e);
            return 2;
        }
        println!(
            "check {} tier={} states={} transitions={} validated={} violations={} wall={:.1}s exhaustive={}",
            self.id,
            self.tier,
            states,
            transitions,
            self.validated.load(Ordering::Relaxed),
            new_violations,
            self.elapsed(),
            *self.exhaustive.lock()
        );
        if new_violations > 0 {
            1
        } else {
            0
        }
    }
}

pub fn short_hash(s: &str) -> String {
    hex::encode(&blake3::hash(s.as_bytes()).as_bytes()[..6])
}

pub fn hx(b: &[u8]) -> String {
    hex::encode(b)
}
