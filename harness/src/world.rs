//! Fixed keys, stores, genesis configurations, transaction builders, state fabrication and raw
//! observation of the trees of a state.  Nothing here calls the OS random generator.
use bytes::Bytes;
use melstf::{GenesisConfig, SealedState, SmtMapping, UnsealedState};
use melstructs::{
    Address, Block, BlockHeight, CoinData, CoinDataHeight, CoinID, CoinValue, Denom, Header, NetID, PoolKey, PoolState,
    StakeDoc, Transaction, TxHash, TxKind,
};
use melvm::{opcode::OpCode, Covenant};
use novasmt::{ContentAddrStore, Database};
use parking_lot::RwLock;
use std::borrow::Cow;
use std::collections::{BTreeMap, HashMap};
use std::sync::atomic::{AtomicU64, Ordering};
use tmelcrypt::{Ed25519PK, Ed25519SK, HashVal, Hashable};

// ---------------------------------------------------------------------------------------------
// store

const SHARDS: usize = 64;

/// De-duplicating content-addressed store (`InMemoryCas::insert` appends duplicates forever).
pub struct DedupCas {
    shards: Vec<RwLock<HashMap<Vec<u8>, Box<[u8]>>>>,
    bytes: AtomicU64,
}

impl Default for DedupCas {
    fn default() -> Self {
        DedupCas {
            shards: (0..SHARDS).map(|_| RwLock::new(HashMap::new())).collect(),
            bytes: AtomicU64::new(0),
        }
    }
}

impl DedupCas {
    fn shard(&self, key: &[u8]) -> usize {
        (key.first().copied().unwrap_or(0) as usize ^ key.get(1).copied().unwrap_or(0) as usize) % SHARDS
    }
    pub fn bytes(&self) -> u64 {
        self.bytes.load(Ordering::Relaxed)
    }
}

impl ContentAddrStore for DedupCas {
    fn get<'a>(&'a self, key: &[u8]) -> Option<Cow<'a, [u8]>> {
        // scheduling point of the store-seam explorer (sched.rs); a single relaxed load when no exploration is running
        if crate::sched::ACTIVE.load(Ordering::Acquire) {
            crate::sched::point(key);
        }
        let g = self.shards[self.shard(key)].read();
        g.get(key).map(|v| Cow::Owned(v.to_vec()))
    }
    fn insert(&self, key: &[u8], value: &[u8]) {
        let mut g = self.shards[self.shard(key)].write();
        if !g.contains_key(key) {
            self.bytes.fetch_add((key.len() + value.len()) as u64, Ordering::Relaxed);
            g.insert(key.to_vec(), value.to_vec().into_boxed_slice());
        }
    }
}

pub type Cas = DedupCas;
pub type St = UnsealedState<Cas>;
pub type Sealed = SealedState<Cas>;
pub type Db = Database<Cas>;

pub fn new_db() -> Db {
    Database::new(DedupCas::default())
}

// ---------------------------------------------------------------------------------------------
// keys

/// Deterministic key pair number `i` (seed = blake3("mcheck key" || i)).
pub fn key(i: u8) -> (Ed25519PK, Ed25519SK) {
    let seed = *blake3::hash(&[b"mcheck key".as_ref(), &[i]].concat()).as_bytes();
    let sk = ed25519_consensus::SigningKey::from(seed);
    let pk = ed25519_consensus::VerificationKey::from(&sk).to_bytes();
    let mut both = [0u8; 64];
    both[..32].copy_from_slice(&seed);
    both[32..].copy_from_slice(&pk);
    (Ed25519PK(pk), Ed25519SK(both))
}

// ---------------------------------------------------------------------------------------------
// covenants

pub fn cov_true() -> Covenant {
    Covenant::from_ops(&[OpCode::PushI(1u8.into())])
}
pub fn cov_false() -> Covenant {
    Covenant::from_ops(&[OpCode::PushI(0u8.into())])
}
/// A second always-true covenant with a different hash (`n` distinguishes them).
pub fn cov_true_n(n: u32) -> Covenant {
    Covenant::from_ops(&[OpCode::PushI((n as u64 + 2).into())])
}
pub fn cov_legacy(i: u8) -> Covenant {
    Covenant::std_ed25519_pk_legacy(key(i).0)
}
pub fn cov_new(i: u8) -> Covenant {
    Covenant::std_ed25519_pk_new(key(i).0)
}
pub fn addr_true() -> Address {
    cov_true().hash()
}
/// A second always-true address (another covenant hash), so that an address can lose its last coin.
pub fn addr_true2() -> Address {
    cov_true_n(1).hash()
}

// ---------------------------------------------------------------------------------------------
// transactions

pub fn out(cov: Address, value: u128, denom: Denom) -> CoinData {
    CoinData {
        covhash: cov,
        value: CoinValue(value),
        denom,
        additional_data: Bytes::new(),
    }
}
pub fn out_t(value: u128, denom: Denom) -> CoinData {
    out(addr_true(), value, denom)
}

pub fn mktx(kind: TxKind, inputs: Vec<CoinID>, outputs: Vec<CoinData>, fee: u128, covs: Vec<Bytes>, data: Vec<u8>) -> Transaction {
    Transaction {
        kind,
        inputs,
        outputs,
        fee: CoinValue(fee),
        covenants: covs,
        data: data.into(),
        sigs: vec![],
    }
}

/// Transaction spending coins locked by the always-true covenant.
pub fn tx_t(kind: TxKind, inputs: Vec<CoinID>, outputs: Vec<CoinData>, fee: u128, data: Vec<u8>) -> Transaction {
    // both always-true covenants are carried, so that wallet coins under either address can be spent
    mktx(kind, inputs, outputs, fee, vec![cov_true().to_bytes(), cov_true_n(1).to_bytes()], data)
}

pub fn min_fee(tx: &Transaction, mult: u128) -> u128 {
    tx.base_fee(mult, 0, melvm::covenant_weight_from_bytes).0
}

pub fn txid(tx: &Transaction) -> String {
    hex::encode(&tx.hash_nosigs().0 .0[..4])
}

pub fn tx_json(tx: &Transaction) -> serde_json::Value {
    serde_json::json!({
        "kind": format!("{}", tx.kind),
        "hash": hex::encode(tx.hash_nosigs().0.0),
        "stdcode_hex": hex::encode(stdcode::serialize(tx).unwrap()),
        "inputs": tx.inputs.iter().map(|c| c.to_string()).collect::<Vec<_>>(),
        "outputs": tx.outputs.iter().map(|o| format!("{} {} -> {}", o.value.0, o.denom, hex::encode(&o.covhash.0.0[..4]))).collect::<Vec<_>>(),
        "fee": tx.fee.0.to_string(),
        "data_hex": hex::encode(&tx.data),
    })
}

// ---------------------------------------------------------------------------------------------
// genesis

pub struct World {
    pub db: Db,
    pub genesis: St,
}

pub fn genesis_cfg(net: NetID, coin: CoinData, fee_pool: u128, fee_mult: u128, stakes: BTreeMap<TxHash, StakeDoc>) -> GenesisConfig {
    GenesisConfig {
        network: net,
        init_coindata: coin,
        stakes,
        init_fee_pool: CoinValue(fee_pool),
        init_fee_multiplier: fee_mult,
    }
}

pub fn world(net: NetID, coin: CoinData, fee_pool: u128, fee_mult: u128, stakes: BTreeMap<TxHash, StakeDoc>) -> World {
    let db = new_db();
    let genesis = genesis_cfg(net, coin, fee_pool, fee_mult, stakes).realize(&db);
    World { db, genesis }
}

/// Standard world: `value` MEL at the zero-zero coin locked by the always-true covenant.
pub fn world_mel(net: NetID, value: u128, fee_mult: u128) -> World {
    world(net, out_t(value, Denom::Mel), 0, fee_mult, BTreeMap::new())
}

// ---------------------------------------------------------------------------------------------
// fabrication of states at arbitrary heights / networks

/// Re-labels the *content* of `s` (coins, pools, stakes, fee variables) as a sealed state of
/// `net` at `height`.  `extra_history` headers are inserted into the history tree in addition to a
/// synthetic parent header at `height - 1`.
pub fn fabricate(s: &Sealed, db: &Db, net: NetID, height: u64, extra_history: &[(u64, Header)]) -> Sealed {
    let h0 = s.header();
    let mut hist: SmtMapping<Cas, BlockHeight, Header> = SmtMapping::new(s.raw_history_smt());
    for (h, hd) in extra_history {
        hist.insert(BlockHeight(*h), *hd);
    }
    if height > 0 {
        let mut parent = h0;
        parent.network = net;
        parent.height = BlockHeight(height - 1);
        if hist.get(&BlockHeight(height - 1)).is_none() || !extra_history.iter().any(|(h, _)| *h == height - 1) {
            hist.insert(BlockHeight(height - 1), parent);
        }
    }
    let header = Header {
        network: net,
        previous: HashVal::default(),
        height: BlockHeight(height),
        history_hash: hist.root_hash(),
        coins_hash: h0.coins_hash,
        transactions_hash: h0.transactions_hash,
        fee_pool: h0.fee_pool,
        fee_multiplier: h0.fee_multiplier,
        dosc_speed: h0.dosc_speed,
        pools_hash: h0.pools_hash,
        stakes_hash: h0.stakes_hash,
    };
    let blk = Block {
        header,
        transactions: Default::default(),
        proposer_action: None,
    };
    // re-labelling stands for "the same node, many blocks later": it keeps the node's in-memory stake set (with whatever that
    // value carries); only a *restart* (`restart_from_disk`) builds the stake set anew from its documents
    SealedState::from_block(&blk, &s.raw_stakes(), db)
}

/// Same as `fabricate` but also overrides the scalar header fields.
pub fn fabricate_with(s: &Sealed, db: &Db, net: NetID, height: u64, fee_pool: u128, fee_mult: u128, dosc_speed: u128) -> Sealed {
    let f = fabricate(s, db, net, height, &[]);
    let mut blk = f.to_block();
    blk.header.fee_pool = CoinValue(fee_pool);
    blk.header.fee_multiplier = fee_mult;
    blk.header.dosc_speed = dosc_speed;
    SealedState::from_block(&blk, &s.raw_stakes(), db)
}


/// What a node reads back after a stop: the block decoded from its serialised bytes and a stake set built anew from the
/// persisted stake documents (not the in-memory `StakeSet` value of the running node, which could carry memoised state with it).
pub fn persisted(s: &Sealed) -> (Block, tip911_stakeset::StakeSet) {
    let bytes = stdcode::serialize(&s.to_block()).expect("block serialises");
    let blk: Block = stdcode::deserialize(&bytes).expect("block deserialises");
    let docs: Vec<(melstructs::TxHash, melstructs::StakeDoc)> = s.raw_stakes().iter().map(|(k, v)| (*k, *v)).collect();
    let mut docs = docs;
    docs.sort_by_key(|(k, _)| *k);
    (blk, tip911_stakeset::StakeSet::new(docs.into_iter()))
}

/// to_block -> bytes -> from_block with a freshly built stake set, over the same content-addressed store.
pub fn restart_from_disk(s: &Sealed) -> Sealed {
    let db = s.raw_coins_smt().database();
    let (blk, stakes) = persisted(s);
    SealedState::from_block(&blk, &stakes, &db)
}


// ---------------------------------------------------------------------------------------------
// raw observation

#[derive(Clone, Debug, PartialEq, Eq)]
pub enum CoinEntry {
    Coin(CoinDataHeight),
    Count(u64),
    Garbage(Vec<u8>),
}

/// All entries of the raw coin tree: key hash -> decoded entry.
pub fn raw_coin_entries(s: &Sealed) -> BTreeMap<[u8; 32], CoinEntry> {
    let tree = s.raw_coins_smt();
    let mut m = BTreeMap::new();
    for (k, v) in tree.iter() {
        let e = if let Ok(c) = stdcode::deserialize::<CoinDataHeight>(&v) {
            CoinEntry::Coin(c)
        } else if let Ok(n) = stdcode::deserialize::<u64>(&v) {
            CoinEntry::Count(n)
        } else {
            CoinEntry::Garbage(v.to_vec())
        };
        m.insert(k, e);
    }
    m
}

pub fn coin_key(id: CoinID) -> [u8; 32] {
    stdcode::serialize(&id).unwrap().hash().0
}
pub fn count_key(a: Address) -> [u8; 32] {
    tmelcrypt::hash_keyed(b"coin_count", a.0).0
}
pub fn pool_tree_key(k: PoolKey) -> [u8; 32] {
    tmelcrypt::hash_single(&stdcode::serialize(&k).unwrap()).0
}

/// All pools of the state, by raw tree key.
pub fn raw_pools(s: &Sealed) -> BTreeMap<[u8; 32], PoolState> {
    let tree = s.raw_pools_smt();
    let mut m = BTreeMap::new();
    for (k, v) in tree.iter() {
        if let Ok(p) = stdcode::deserialize::<PoolState>(&v) {
            m.insert(k, p);
        }
    }
    m
}

pub fn pool_json(p: &PoolState) -> serde_json::Value {
    serde_json::json!({"lefts": p.lefts.to_string(), "rights": p.rights.to_string(), "liqs": p.liqs.to_string()})
}

pub fn faucet_marker(txhash: TxHash) -> CoinID {
    CoinID {
        txhash: tmelcrypt::hash_keyed(b"fdp", txhash.0).into(),
        index: 0,
    }
}

pub fn header_json(h: &Header) -> serde_json::Value {
    serde_json::json!({
        "network": format!("{:?}", h.network), "height": h.height.0, "previous": h.previous.to_string(),
        "history_hash": h.history_hash.to_string(), "coins_hash": h.coins_hash.to_string(),
        "transactions_hash": h.transactions_hash.to_string(), "fee_pool": h.fee_pool.0.to_string(),
        "fee_multiplier": h.fee_multiplier.to_string(), "dosc_speed": h.dosc_speed.to_string(),
        "pools_hash": h.pools_hash.to_string(), "stakes_hash": h.stakes_hash.to_string(),
    })
}

/// Which header fields differ.
pub fn header_diff(a: &Header, b: &Header) -> Vec<&'static str> {
    let mut d = vec![];
    if a.network != b.network {
        d.push("network");
    }
    if a.previous != b.previous {
        d.push("previous");
    }
    if a.height != b.height {
        d.push("height");
    }
    if a.history_hash != b.history_hash {
        d.push("history_hash");
    }
    if a.coins_hash != b.coins_hash {
        d.push("coins_hash");
    }
    if a.transactions_hash != b.transactions_hash {
        d.push("transactions_hash");
    }
    if a.fee_pool != b.fee_pool {
        d.push("fee_pool");
    }
    if a.fee_multiplier != b.fee_multiplier {
        d.push("fee_multiplier");
    }
    if a.dosc_speed != b.dosc_speed {
        d.push("dosc_speed");
    }
    if a.pools_hash != b.pools_hash {
        d.push("pools_hash");
    }
    if a.stakes_hash != b.stakes_hash {
        d.push("stakes_hash");
    }
    d
}
