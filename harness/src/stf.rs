//! E1 — explicit-state search over the real state-transition function, in lock-step with the
//! reference model.  A node holds a real state and the model state; a transition calls the real
//! `next_unsealed` / `apply_tx_batch` / `seal` and evaluates every transition oracle.  Violations
//! are tagged with the property they belong to; a check reports only its own property.
use crate::guard::guard;
use crate::refstf::*;
use crate::report::Run;
use crate::world::*;
use melstf::StateError;
use melstructs::{BlockHeight, CoinDataHeight, CoinID, Denom, Header, NetID, PoolKey, PoolState, ProposerAction, Transaction, TxKind};
use num::BigUint;
use rayon::prelude::*;
use serde_json::{json, Value};
use std::collections::{BTreeMap, BTreeSet, HashSet};
use std::sync::Arc;

#[derive(Clone)]
pub enum Real {
    Sealed(Sealed),
    Open(St),
}

/// One step of the path that led to a node: a persistent linked list, so that a node costs O(1) memory for its history.
pub struct Link {
    pub prev: Option<Arc<Link>>,
    pub label: String,
    pub action: Option<Action>,
    pub root: Option<Value>,
    pub len: usize,
}

#[derive(Clone)]
pub struct Node {
    pub real: Real,
    pub model: RefState,
    /// the actions that led here (shortest path: BFS), with a replayable form of each
    pub link: Arc<Link>,
    /// headers of the sealed states on the honest segment leading here (reset by a jump), oldest first
    pub lineage: Arc<Vec<Header>>,
    /// part of the state key: 1 after a restart, so that the continuation of a rebuilt state is explored in its own right
    pub salt: u8,
    /// the last sealed state on the path (the block a node would find on disk) ...
    pub anchor: Option<Arc<Sealed>>,
    /// ... and the batches accepted since it was opened, in order: what a *fresh twin* of an open node is rebuilt from
    pub since: Arc<Vec<Vec<Transaction>>>,
}

#[derive(Clone, Debug)]
pub enum Action {
    Open,
    Batch { label: String, txs: Vec<Transaction>, expect_ok: bool },
    Seal(Option<ProposerAction>),
    /// sealed -> sealed: to_block / from_block round trip
    Restart,
    /// sealed -> sealed: re-label the same content at another height (fabricated with from_block)
    Jump(u64),
}

impl Action {
    pub fn label(&self) -> String {
        match self {
            Action::Open => "open".into(),
            Action::Batch { label, .. } => label.clone(),
            Action::Seal(None) => "seal(None)".into(),
            Action::Seal(Some(a)) => format!("seal(delta={},dest={})", a.fee_multiplier_delta, hex::encode(&a.reward_dest.0 .0[..3])),
            Action::Restart => "restart".into(),
            Action::Jump(h) => format!("jump({})", h),
        }
    }
    pub fn json(&self) -> Value {
        match self {
            Action::Open => json!({"open": true}),
            Action::Batch { label, txs, .. } => json!({"batch": label, "txs": txs.iter().map(tx_json).collect::<Vec<_>>()}),
            Action::Seal(a) => json!({"seal": a.map(|a| json!({"delta": a.fee_multiplier_delta, "reward_dest": a.reward_dest.0.to_string()}))}),
            Action::Restart => json!({"restart": true}),
            Action::Jump(h) => json!({"jump": h}),
        }
    }
}

impl Node {
    pub fn view(&self) -> Sealed {
        match &self.real {
            Real::Sealed(s) => s.clone(),
            Real::Open(u) => u.verif_peek(),
        }
    }
    pub fn is_open(&self) -> bool {
        matches!(self.real, Real::Open(_))
    }
    pub fn tips(&self) -> u128 {
        match &self.real {
            Real::Sealed(_) => 0,
            Real::Open(u) => u.verif_tips().0,
        }
    }
    /// Canonical key: (kind, header hash, tips, proposer action).  The header commits to every other field (checked by C07).
    pub fn key(&self) -> [u8; 32] {
        let v = self.view();
        let mut h = blake3::Hasher::new();
        h.update(&[self.is_open() as u8, self.salt]);
        h.update(&v.header().hash().0);
        h.update(&self.tips().to_be_bytes());
        if let Real::Sealed(s) = &self.real {
            h.update(&stdcode::serialize(&s.proposer_action().cloned()).unwrap());
        }
        *h.finalize().as_bytes()
    }
    pub fn new_root(real: Real, model: RefState, label: String, root: Value, lineage: Vec<Header>) -> Node {
        let anchor = match &real {
            Real::Sealed(s) => Some(Arc::new(s.clone())),
            Real::Open(_) => None,
        };
        Node { real, model, link: Arc::new(Link { prev: None, label, action: None, root: Some(root), len: 1 }), lineage: Arc::new(lineage), salt: 0, anchor, since: Arc::new(vec![]) }
    }
    /// Labels of the path, oldest first.
    pub fn labels(&self) -> Vec<String> {
        let mut v = vec![];
        let mut cur = Some(&self.link);
        while let Some(l) = cur {
            v.push(l.label.clone());
            cur = l.prev.as_ref();
        }
        v.reverse();
        v
    }
    pub fn path_len(&self) -> usize {
        self.link.len
    }
    pub fn path_str(&self) -> String {
        self.labels().join(" ; ")
    }
    fn child(&self, real: Real, model: RefState, a: &Action) -> Node {
        let mut lineage = self.lineage.clone();
        match (a, &real) {
            (Action::Seal(_), Real::Sealed(s)) => {
                let mut l = (*lineage).clone();
                l.push(s.header());
                lineage = Arc::new(l);
            }
            (Action::Jump(_), Real::Sealed(s)) => lineage = Arc::new(vec![s.header()]),
            _ => {}
        }
        let salt = if matches!(a, Action::Restart) { 1 } else { self.salt };
        let link = Arc::new(Link { prev: Some(self.link.clone()), label: a.label(), action: Some(a.clone()), root: None, len: self.link.len + 1 });
        let (anchor, since) = match (&real, a) {
            (Real::Sealed(s), _) => (Some(Arc::new(s.clone())), Arc::new(vec![])),
            (Real::Open(_), Action::Open) => (self.anchor.clone(), Arc::new(vec![])),
            (Real::Open(_), _) => (self.anchor.clone(), self.since.clone()),
        };
        Node { real, model, link, lineage, salt, anchor, since }
    }
    /// The node after an accepted batch remembers the batch (for its fresh twin).
    fn with_batch(mut self, txs: &[Transaction]) -> Node {
        let mut v = (*self.since).clone();
        v.push(txs.to_vec());
        self.since = Arc::new(v);
        self
    }
    /// A fresh twin of an open node: the last sealed state read back from disk (block bytes, stake set rebuilt from its
    /// documents - every in-memory companion of the running node's values is built anew), opened, and given the batches this
    /// node accepted, in order.  None when the node has no sealed ancestor or the twin refuses one of those batches.
    pub fn fresh_twin(&self) -> Option<St> {
        let anchor = self.anchor.as_ref()?;
        let since = self.since.clone();
        guard(move || {
            let mut u = restart_from_disk(anchor).next_unsealed();
            for b in since.iter() {
                if u.apply_tx_batch(b).is_err() {
                    return None;
                }
            }
            Some(u)
        })
        .ok()
        .flatten()
    }
    pub fn replay_json(&self, next: Option<&Action>) -> Value {
        let mut t = vec![];
        let mut cur = Some(&self.link);
        while let Some(l) = cur {
            t.push(match (&l.action, &l.root) {
                (Some(a), _) => a.json(),
                (None, Some(r)) => r.clone(),
                _ => json!(null),
            });
            cur = l.prev.as_ref();
        }
        t.reverse();
        if let Some(a) = next {
            t.push(a.json());
        }
        json!({"path": t})
    }
}

/// Builds the model of a real sealed state reached outside the engine (genesis, set-up blocks).
pub fn model_of(s: &Sealed, universe: &[CoinID], pool_keys: &[PoolKey], block_txs: &[Transaction]) -> RefState {
    let h = s.header();
    let mut coins = BTreeMap::new();
    for id in universe {
        if let Some(c) = s.coin(*id) {
            coins.insert(*id, c);
        }
    }
    let mut pools = BTreeMap::new();
    for k in pool_keys {
        if let Some(p) = s.pool(*k) {
            pools.insert(*k, p);
        }
    }
    RefState {
        network: h.network,
        height: h.height.0,
        coins,
        pools,
        stakes: s.raw_stakes().iter().map(|(k, v)| (*k, *v)).collect(),
        fee_pool: h.fee_pool.0,
        fee_multiplier: h.fee_multiplier,
        tips: 0,
        dosc_speed: h.dosc_speed,
        block_txs: block_txs.iter().map(|t| (t.hash_nosigs(), t.clone())).collect(),
        seen_pool_keys: pool_keys.iter().cloned().collect(),
        stake_txs_seen: Default::default(),
        spent_recently: Default::default(),
        prev_dosc_speed: None,
    }
}

/// Canonical form of a possibly non-canonical key (None when both sides are equal).
pub fn canon(k: &PoolKey) -> Option<PoolKey> {
    if k.left().to_bytes() == k.right().to_bytes() {
        None
    } else {
        Some(PoolKey::new(k.left(), k.right()))
    }
}

pub fn builtin_pool_keys() -> Vec<PoolKey> {
    vec![PoolKey::new(Denom::Mel, Denom::Sym), PoolKey::new(Denom::Mel, Denom::Erg), PoolKey::new(Denom::Erg, Denom::Sym)]
}

// ---------------------------------------------------------------------------------------------
// observation of the real state

pub struct Observed {
    /// coin entries by raw key
    pub coins: BTreeMap<[u8; 32], CoinDataHeight>,
    pub counts: BTreeMap<[u8; 32], u64>,
    pub garbage: usize,
    pub pools: BTreeMap<[u8; 32], PoolState>,
    pub header: Header,
    pub tips: u128,
}

pub fn observe(n: &Node) -> Observed {
    let v = n.view();
    let mut coins = BTreeMap::new();
    let mut counts = BTreeMap::new();
    let mut garbage = 0;
    for (k, e) in raw_coin_entries(&v) {
        match e {
            CoinEntry::Coin(c) => {
                coins.insert(k, c);
            }
            CoinEntry::Count(c) => {
                counts.insert(k, c);
            }
            CoinEntry::Garbage(_) => garbage += 1,
        }
    }
    Observed { coins, counts, garbage, pools: raw_pools(&v), header: v.header(), tips: n.tips() }
}

/// Supply per denomination of the *real* state; pool reserves are attributed through the model's known pool keys.
pub fn real_supply(o: &Observed, model: &RefState) -> Result<BTreeMap<Denom, BigUint>, String> {
    let mut m: BTreeMap<Denom, BigUint> = BTreeMap::new();
    for c in o.coins.values() {
        *m.entry(c.coin_data.denom).or_default() += BigUint::from(c.coin_data.value.0);
    }
    let mut known: BTreeMap<[u8; 32], PoolKey> = BTreeMap::new();
    for k in model.seen_pool_keys.iter().chain(builtin_pool_keys().iter()) {
        // a non-canonical spelling addresses the same tree entry as the canonical key
        if let Some(c) = canon(k) {
            known.insert(pool_tree_key(c), c);
        }
    }
    for (rk, p) in &o.pools {
        match known.get(rk) {
            Some(k) => {
                *m.entry(k.left()).or_default() += BigUint::from(p.lefts);
                *m.entry(k.right()).or_default() += BigUint::from(p.rights);
            }
            None => return Err(format!("pool tree entry {} is not a pool any transaction named", hex::encode(&rk[..6]))),
        }
    }
    *m.entry(Denom::Mel).or_default() += BigUint::from(o.header.fee_pool.0) + BigUint::from(o.tips);
    Ok(m)
}

fn denom_name(d: &Denom, liq: &BTreeSet<Denom>) -> String {
    match d {
        Denom::Mel => "MEL".into(),
        Denom::Sym => "SYM".into(),
        Denom::Erg => "ERG".into(),
        Denom::NewCustom => "NEWCUSTOM".into(),
        Denom::Custom(_) => {
            if liq.contains(d) {
                "LIQ".into()
            } else {
                "CUSTOM".into()
            }
        }
    }
}

pub fn liq_denoms(model: &RefState) -> BTreeSet<Denom> {
    model.seen_pool_keys.iter().chain(builtin_pool_keys().iter()).filter_map(canon).map(|k| k.liq_token_denom()).collect()
}

/// C20 oracle on an observed state.
pub fn check_counts(run: &Run, o: &Observed, tip906: bool, n: &Node, next: Option<&Action>, ctx: &str) {
    let mut groups: BTreeMap<[u8; 32], u64> = BTreeMap::new();
    for c in o.coins.values() {
        *groups.entry(count_key(c.coin_data.covhash)).or_insert(0) += 1;
    }
    if o.garbage > 0 {
        run.violation("C20", format!("undecodable-entry-in-coin-tree/{}", ctx), format!("{} entries are neither coins nor counts after {}", o.garbage, n.path_str()), n.replay_json(next));
    }
    if !tip906 {
        if !o.counts.is_empty() {
            run.violation("C20", format!("counts-before-activation/{}", ctx), format!("{} count entries before TIP-906 after {}", o.counts.len(), n.path_str()), n.replay_json(next));
        }
        return;
    }
    for (k, n_coins) in &groups {
        let rec = o.counts.get(k).copied();
        if rec != Some(*n_coins) {
            let dir = match rec {
                None => "missing",
                Some(r) if r > *n_coins => "too-high",
                _ => "too-low",
            };
            run.violation(
                "C20",
                format!("count-mismatch/{}/{}", dir, ctx),
                format!("covenant hash with {} unspent coins has count {:?} after [{}]{}", n_coins, rec, n.path_str(), next.map(|a| format!(" ; {}", a.label())).unwrap_or_default()),
                n.replay_json(next),
            );
            return;
        }
    }
    for (k, c) in &o.counts {
        if !groups.contains_key(k) {
            run.violation(
                "C20",
                format!("stray-count/{}/{}", if *c == 0 { "zero" } else { "nonzero" }, ctx),
                format!("count entry {} for a covenant hash without coins after [{}]{}", c, n.path_str(), next.map(|a| format!(" ; {}", a.label())).unwrap_or_default()),
                n.replay_json(next),
            );
            return;
        }
    }
}

/// Model coins as raw tree entries.
pub fn model_coin_entries(m: &RefState) -> BTreeMap<[u8; 32], CoinDataHeight> {
    m.coins.iter().map(|(id, c)| (coin_key(*id), c.clone())).collect()
}

fn describe_coin_diff(real: &BTreeMap<[u8; 32], CoinDataHeight>, model: &RefState) -> (String, String) {
    let me = model_coin_entries(model);
    let ids: BTreeMap<[u8; 32], CoinID> = model.coins.keys().map(|id| (coin_key(*id), *id)).collect();
    for (k, c) in &me {
        match real.get(k) {
            None => return ("coin-lost".into(), format!("model coin {} ({} {:?}) is absent from the real tree", ids[k], c.coin_data.value.0, c.coin_data.denom)),
            Some(r) if r != c => {
                let f = if r.coin_data.value != c.coin_data.value {
                    "value"
                } else if r.coin_data.denom != c.coin_data.denom {
                    "denom"
                } else if r.coin_data.covhash != c.coin_data.covhash {
                    "covhash"
                } else if r.height != c.height {
                    "height"
                } else {
                    "additional_data"
                };
                return (format!("coin-differs/{}", f), format!("coin {}: real {} {:?} h{} vs model {} {:?} h{}", ids[k], r.coin_data.value.0, r.coin_data.denom, r.height.0, c.coin_data.value.0, c.coin_data.denom, c.height.0));
            }
            _ => {}
        }
    }
    for (k, r) in real {
        if !me.contains_key(k) {
            return ("coin-extra".into(), format!("the real tree holds a coin ({} {:?}, covhash {}) the model does not have", r.coin_data.value.0, r.coin_data.denom, hex::encode(&r.coin_data.covhash.0 .0[..4])));
        }
    }
    ("none".into(), String::new())
}

// ---------------------------------------------------------------------------------------------
// transitions

pub struct Engine<'a> {
    pub run: &'a Run,
    /// every engine-reported violation is also counted here per property (for evidence)
    pub check_conservation: bool,
    /// C16's "liquidity tokens in coins <= pool.liqs" oracle; switched off only in the scenario that starts from tokens the
    /// pools never issued (faucet-minted), which is outside the histories the property quantifies over
    pub check_backing: bool,
    /// keep exploring behind a state in which the real trees differ from the model (the difference is reported where it arises);
    /// the model stays authoritative, so that what the difference leads to is seen as well (C19: a lost faucet marker -> a replay)
    pub continue_after_mismatch: bool,
    /// a refused batch is followed: the search goes on from the state object the refused call was made on (the model is where it
    /// was), not from a pristine copy - whatever a refusal leaves behind in fields no header commits to is met by what follows
    pub follow_rejected: bool,
}

pub enum StepOut {
    /// successor node
    Next(Node),
    /// the action was rejected by the real code (state unchanged)
    Rejected,
    /// lock-step lost (violation recorded or real-only acceptance): branch is not explored further
    Pruned,
}

fn reason_props(reason: &str) -> Vec<&'static str> {
    let mut v = vec!["C02"];
    if reason.starts_with("covenant") {
        v.push("C04");
    }
    if reason.starts_with("coin-locked") || reason.starts_with("stake") {
        v.push("C13");
    }
    if reason.starts_with("doscmint") {
        v.push("C18");
    }
    if reason.starts_with("faucet") {
        v.push("C19");
    }
    if reason.starts_with("fee") {
        v.push("C05");
    }
    v
}

fn err_name(e: &StateError) -> &'static str {
    match e {
        StateError::MalformedTx => "MalformedTx",
        StateError::NonexistentCoin(_) => "NonexistentCoin",
        StateError::UnbalancedInOut => "UnbalancedInOut",
        StateError::InsufficientFees(_) => "InsufficientFees",
        StateError::NonexistentScript(_) => "NonexistentScript",
        StateError::ViolatesScript(_) => "ViolatesScript",
        StateError::InvalidMelPoW => "InvalidMelPoW",
        StateError::WrongHeader(_, _) => "WrongHeader",
        StateError::CoinLocked => "CoinLocked",
        StateError::DuplicateTx => "DuplicateTx",
    }
}

impl<'a> Engine<'a> {
    pub fn new(run: &'a Run) -> Self {
        Engine { run, check_conservation: true, check_backing: true, continue_after_mismatch: false, follow_rejected: false }
    }

    pub fn step(&self, n: &Node, a: &Action) -> StepOut {
        self.run.transition();
        match (a, &n.real) {
            (Action::Open, Real::Sealed(s)) => self.open(n, s, a),
            (Action::Batch { txs, expect_ok, label }, Real::Open(u)) => self.batch(n, u, txs, *expect_ok, label, a),
            (Action::Seal(act), Real::Open(u)) => self.seal(n, u, *act, a),
            (Action::Restart, Real::Sealed(s)) => {
                match guard(|| crate::world::restart_from_disk(s)) {
                    Err(p) => {
                        self.run.violation("C09", format!("from_block/{}", p.class()), format!("to_block/from_block panicked after [{}]: {}", n.path_str(), p.msg), n.replay_json(Some(a)));
                        StepOut::Pruned
                    }
                    Ok(r) => {
                        self.run.validated();
                        if r.header() != s.header() {
                            self.run.violation(
                                "C08",
                                format!("restart-header-differs/{}", header_diff(&s.header(), &r.header()).join(",")),
                                format!("from_block(to_block(S)) has a different header after [{}]", n.path_str()),
                                n.replay_json(Some(a)),
                            );
                        }
                        let child = n.child(Real::Sealed(r), n.model.clone(), a);
                        // C13: the rebuilt state registers exactly the stakes of the original
                        self.check_stakes(&child, None);
                        StepOut::Next(child)
                    }
                }
            }
            (Action::Jump(h), Real::Sealed(s)) => {
                let db = s.raw_coins_smt().database();
                let net = n.model.network;
                match guard(|| fabricate(s, &db, net, *h, &[])) {
                    Err(_) => StepOut::Pruned,
                    Ok(r) => {
                        let mut m = n.model.clone();
                        m.height = *h;
                        m.block_txs.clear();
                        StepOut::Next(n.child(Real::Sealed(r), m, a))
                    }
                }
            }
            _ => StepOut::Rejected,
        }
    }

    fn open(&self, n: &Node, s: &Sealed, a: &Action) -> StepOut {
        match guard(|| s.next_unsealed()) {
            Err(p) => {
                self.run.violation("C09", format!("next_unsealed/{}", p.class()), format!("next_unsealed panicked after [{}]: {}", n.path_str(), p.msg), n.replay_json(Some(a)));
                StepOut::Pruned
            }
            Ok(u) => {
                self.run.validated();
                let model = n.model.open_next();
                let child = n.child(Real::Open(u), model, a);
                // C13: the stake commitment follows the registered, unexpired stakes
                self.check_stakes(&child, None);
                // C20 at activation and in general
                let o = observe(&child);
                check_counts(self.run, &o, child.model.rules().tip_906, &child, None, "after-open");
                StepOut::Next(child)
            }
        }
    }

    pub fn check_stakes(&self, n: &Node, next: Option<&Action>) {
        let v = n.view();
        let real: BTreeMap<_, _> = v.raw_stakes().iter().map(|(k, d)| (*k, (d.pubkey, d.e_start, d.e_post_end, d.syms_staked))).collect();
        let model: BTreeMap<_, _> = n.model.stakes.iter().map(|(k, d)| (*k, (d.pubkey, d.e_start, d.e_post_end, d.syms_staked))).collect();
        if real != model {
            let kind = if real.len() > model.len() {
                "extra-stake"
            } else if real.len() < model.len() {
                "missing-stake"
            } else {
                "stake-differs"
            };
            self.run.violation(
                "C13",
                format!("stake-set/{}/{}", kind, if n.is_open() { "open" } else { "sealed" }),
                format!("registered stakes differ from the model after [{}]: real {} model {}", n.path_str(), real.len(), model.len()),
                n.replay_json(next),
            );
        }
    }

    fn batch(&self, n: &Node, u: &St, txs: &[Transaction], expect_ok: bool, label: &str, a: &Action) -> StepOut {
        let run = self.run;
        let before = observe(n);
        if label.contains("chain']") || label.starts_with("[chain'") {
            // non-vacuity: which denominations the "created in the batch and claimed twice" members cover
            let d = txs.iter().find(|t| !t.outputs.is_empty() && !label.starts_with("[chain'")).or(txs.get(1)).and_then(|t| t.outputs.first()).map(|o| match o.denom {
                Denom::Mel => "MEL",
                Denom::Sym => "SYM",
                Denom::Erg => "ERG",
                _ => "custom-or-liquidity-token",
            });
            run.outcome(&format!("pairs:batch-created-coin-claimed-twice:{}", d.unwrap_or("?")));
        }
        let mut next = u.clone();
        let res = guard(|| next.apply_tx_batch(txs));
        let peek = u.verif_peek();
        let last_header = if n.model.height == 0 {
            match guard(|| u.clone().seal(None).header()) {
                Ok(h) => h,
                Err(_) => before.header,
            }
        } else {
            peek.history(BlockHeight(n.model.height - 1)).unwrap_or(before.header)
        };
        let header_at = |h: u64| peek.history(BlockHeight(h));
        let ctx = BatchCtx { last_header, header_at: &header_at, per_input_covenants: true };
        let kinds: BTreeSet<String> = txs.iter().map(|t| format!("{}", t.kind)).collect();
        let kinds = kinds.into_iter().collect::<Vec<_>>().join("+");
        let res = match res {
            Err(p) => {
                run.outcome("batch:panic");
                run.violation("C09", format!("apply_tx_batch/{}/{}", kinds, p.class()), format!("apply_tx_batch panicked on [{}] after [{}]: {}", label, n.path_str(), p.msg), n.replay_json(Some(a)));
                return StepOut::Pruned;
            }
            Ok(r) => r,
        };
        run.validated();
        let model_res = n.model.apply_batch(txs, &ctx);
        match (res, model_res) {
            (Err(e), mres) => {
                run.outcome(&format!("batch:rejected:{}", err_name(&e)));
                // rejection is a no-op
                let after = observe(&Node { real: Real::Open(next.clone()), ..n.clone() });
                if after.header != before.header || after.tips != before.tips {
                    run.violation(
                        "C02",
                        format!("reject-not-noop/{}", header_diff(&before.header, &after.header).join(",")),
                        format!("rejected batch [{}] changed the state after [{}]", label, n.path_str()),
                        n.replay_json(Some(a)),
                    );
                    // what a refused batch leaves behind is issued by nothing (C01): no denomination may have grown
                    if self.check_conservation {
                        let child = n.child(Real::Open(next.clone()), n.model.clone(), a);
                        self.check_batch_conservation(n, &before, &after, &[], &child, a, &ctx);
                    }
                    if after.header.stakes_hash != before.header.stakes_hash {
                        run.violation(
                            "C13",
                            "stake-commitment-changed-by-a-refused-batch".into(),
                            format!("the refused batch [{}] changed the stake commitment after [{}]: the header commits to a stake that was never accepted", label, n.path_str()),
                            n.replay_json(Some(a)),
                        );
                    }
                }
                if self.follow_rejected && mres.is_err() {
                    // both sides refuse: go on from the very state object the refused call was made on
                    run.outcome("batch:refused-and-followed");
                    let mut c = n.child(Real::Open(next.clone()), n.model.clone(), a);
                    c.salt = 2 + (blake3::hash(err_name(&e).as_bytes()).as_bytes()[0] % 6);
                    return StepOut::Next(c);
                }
                if mres.is_ok() {
                    run.outcome(&format!("batch:stricter-than-model:{}", err_name(&e)));
                    // The statements allow the code to refuse more than the model - but not to refuse *here* what the same state
                    // accepts elsewhere.  A fresh twin of this node (its last block read back from disk, the same accepted batches)
                    // is given the batch: if it accepts, the refusal comes from something no header commits to - what refused
                    // batches, discarded copies or sibling states left behind (C02: a lost coin, rejection not a no-op; C03: the
                    // verdict is a function of state and batch; C08: the rebuilt state accepts and rejects the same inputs).
                    match n.fresh_twin() {
                        None => run.outcome("fresh-twin:not-available"),
                        Some(mut twin) => {
                            let txs2 = txs.to_vec();
                            match guard(move || twin.apply_tx_batch(&txs2)) {
                                Ok(Ok(())) => {
                                    run.outcome("fresh-twin:accepts-what-this-node-refuses");
                                    for p in ["C02", "C03", "C08"] {
                                        run.violation(
                                            p,
                                            format!("refused-here-accepted-by-a-fresh-twin/{}/{}", err_name(&e), kinds),
                                            format!(
                                                "[{}] is refused ({}) after [{}], but a node rebuilt from the last block on disk that accepted the same batches since accepts it: the refusal depends on something outside the committed state",
                                                label,
                                                err_name(&e),
                                                n.path_str()
                                            ),
                                            n.replay_json(Some(a)),
                                        );
                                    }
                                }
                                _ => run.outcome("fresh-twin:refuses-as-well"),
                            }
                        }
                    }
                    // C13: a coin is locked only by a registered, unexpired stake of its creating transaction
                    if matches!(e, StateError::CoinLocked) && n.model.rules().stake_lock {
                        let batch_stakes: BTreeSet<_> = txs.iter().filter(|t| t.kind == TxKind::Stake).map(|t| t.hash_nosigs()).collect();
                        let any_stake = txs.iter().flat_map(|t| t.inputs.iter()).any(|i| n.model.stakes.contains_key(&i.txhash) || batch_stakes.contains(&i.txhash));
                        if !any_stake {
                            run.violation(
                                "C13",
                                "locked-without-registered-stake".into(),
                                format!("[{}] after [{}] was rejected as locked although no registered, unexpired stake covers any of its inputs", label, n.path_str()),
                                n.replay_json(Some(a)),
                            );
                        }
                    }
                    if expect_ok {
                        // plain templates are expected to be accepted: non-vacuity signal, triaged by hand (C06 covers honest blocks)
                        run.outcome(&format!("batch:plain-template-rejected:{}:{}", label.split('(').next().unwrap_or(""), err_name(&e)));
                    }
                }
                StepOut::Rejected
            }
            (Ok(()), Err(rj)) => {
                run.outcome(&format!("batch:accepted-model-rejects:{}", rj.reason));
                // conservation and coin counts are evaluated on the real state whatever the model says
                {
                    let child = n.child(Real::Open(next.clone()), n.model.clone(), a);
                    let after = observe(&child);
                    if self.check_conservation {
                        self.check_batch_conservation(n, &before, &after, txs, &child, a, &ctx);
                    }
                    check_counts(run, &after, n.model.rules().tip_906, n, Some(a), "after-batch");
                    // ... and so is the backing of liquidity tokens (an accepted double spend of a token coin doubles the tokens)
                    if !matches!(n.real, Real::Open(_)) || n.model.height > 0 {
                        self.check_pools_backed(&child, &after, Some(a), n);
                    }
                }
                for p in reason_props(rj.reason) {
                    run.violation(
                        p,
                        format!("accepts-what-model-rejects/{}/{}", rj.reason, kinds),
                        format!("apply_tx_batch accepted [{}] after [{}] although: {} {}", label, n.path_str(), rj.reason, rj.detail),
                        n.replay_json(Some(a)),
                    );
                }
                if self.continue_after_mismatch {
                    // the search goes on behind the reported acceptance (what it leads to may be what another property forbids):
                    // the model takes over the real state's coins (by every candidate id), fee variables and block contents
                    let mut m = n.model.clone();
                    let view = next.verif_peek();
                    let mut ids: BTreeSet<CoinID> = m.coins.keys().cloned().collect();
                    for tx in txs {
                        for i in 0..tx.outputs.len().min(255) {
                            ids.insert(tx.output_coinid(i as u8));
                        }
                        if tx.kind == TxKind::Faucet {
                            ids.insert(crate::refstf::faucet_marker(tx.hash_nosigs()));
                        }
                    }
                    m.coins.clear();
                    for id in ids {
                        if let Some(c) = view.coin(id) {
                            m.coins.insert(id, c);
                        }
                    }
                    let h = view.header();
                    m.fee_pool = h.fee_pool.0;
                    m.dosc_speed = h.dosc_speed;
                    m.tips = next.verif_tips().0;
                    for tx in txs {
                        m.block_txs.insert(tx.hash_nosigs(), tx.clone());
                    }
                    let child = n.child(Real::Open(next), m, a).with_batch(txs);
                    let after = observe(&child);
                    if after.coins == model_coin_entries(&child.model) {
                        return StepOut::Next(child);
                    }
                    run.outcome("batch:resync-incomplete(branch not explored further)");
                }
                StepOut::Pruned
            }
            (Ok(()), Ok(model)) => {
                run.outcome("batch:accepted");
                let child = n.child(Real::Open(next), model, a).with_batch(txs);
                let after = observe(&child);
                let mut ok = true;
                // C02: exact coin set
                let me = model_coin_entries(&child.model);
                if after.coins != me {
                    let (kind, what) = describe_coin_diff(&after.coins, &child.model);
                    run.violation("C02", format!("coin-set/{}/{}", kind, kinds), format!("after [{}] ; [{}]: {}", n.path_str(), label, what), n.replay_json(Some(a)));
                    // the same defect is a conservation matter when a spent coin survives / a coin appears
                    ok = false;
                }
                // C05: fee accounting
                if after.header.fee_pool.0 != child.model.fee_pool || after.tips != child.model.tips {
                    run.violation(
                        "C05",
                        format!("fee-accounting/{}", if after.header.fee_pool.0 != child.model.fee_pool { "fee_pool" } else { "tips" }),
                        format!("after [{}] ; [{}]: fee pool {} (model {}), tips {} (model {})", n.path_str(), label, after.header.fee_pool.0, child.model.fee_pool, after.tips, child.model.tips),
                        n.replay_json(Some(a)),
                    );
                    ok = false;
                }
                // C18: DOSC speed is the maximum of its previous value and the speeds demonstrated
                if after.header.dosc_speed != child.model.dosc_speed {
                    run.violation("C18", "dosc-speed".into(), format!("after [{}] ; [{}]: dosc speed {} model {}", n.path_str(), label, after.header.dosc_speed, child.model.dosc_speed), n.replay_json(Some(a)));
                    ok = false;
                }
                // C13
                self.check_stakes(&child, None);
                // C20
                check_counts(run, &after, child.model.rules().tip_906, n, Some(a), "after-batch");
                // C01: conservation on the real state
                if self.check_conservation {
                    self.check_batch_conservation(n, &before, &after, txs, &child, a, &ctx);
                }
                // C02 "balanced": a denomination that the inputs carry and no output names disappears - accepted by the code (known
                // finding AK), applied by the model as well so that the search goes on behind it
                for (ti, d) in n.model.burns_by_omission(txs) {
                    run.violation(
                        "C02",
                        format!("accepts-unbalanced/input-denomination-without-output/{}", txs[ti].kind),
                        format!("after [{}] ; [{}]: transaction {} of the batch spends {:?} and names no output of it - the amount disappears, the transaction is accepted", n.path_str(), label, ti, d),
                        n.replay_json(Some(a)),
                    );
                }
                // pools and the other scalars must not move in a batch
                if after.header.pools_hash != before.header.pools_hash || after.header.fee_multiplier != before.header.fee_multiplier || after.header.height != before.header.height {
                    run.violation("C02", "batch-moves-pools-or-scalars".into(), format!("after [{}] ; [{}]", n.path_str(), label), n.replay_json(Some(a)));
                }
                if ok || self.continue_after_mismatch {
                    StepOut::Next(child)
                } else {
                    StepOut::Pruned
                }
            }
        }
    }

    fn check_batch_conservation(&self, n: &Node, before: &Observed, after: &Observed, txs: &[Transaction], child: &Node, a: &Action, ctx: &BatchCtx) {
        let run = self.run;
        let liq = liq_denoms(&child.model);
        let (sb, sa) = match (real_supply(before, &n.model), real_supply(after, &child.model)) {
            (Ok(b), Ok(a)) => (b, a),
            (Err(e), _) | (_, Err(e)) => {
                run.violation("C01", "unaccounted-pool".into(), e, n.replay_json(Some(a)));
                return;
            }
        };
        // allowance from the statement
        let mut allowed: BTreeMap<Denom, BigUint> = BTreeMap::new();
        for tx in txs {
            let h = tx.hash_nosigs();
            if tx.kind == TxKind::Faucet && (n.model.network != NetID::Mainnet || is_grandfathered(tx)) {
                for o in &tx.outputs {
                    let d = if o.denom == Denom::NewCustom { Denom::Custom(h) } else { o.denom };
                    *allowed.entry(d).or_default() += BigUint::from(o.value.0);
                }
                *allowed.entry(Denom::Mel).or_default() += BigUint::from(tx.fee.0);
            }
            // "a transaction's own newly created custom token": the token must not have existed before this batch
            // (a transaction that could be applied twice would otherwise issue its token twice)
            let existed = sb.get(&Denom::Custom(h)).map(|v| *v > BigUint::from(0u8)).unwrap_or(false);
            if tx.kind != TxKind::Faucet && !existed {
                for o in &tx.outputs {
                    if o.denom == Denom::NewCustom {
                        *allowed.entry(Denom::Custom(h)).or_default() += BigUint::from(o.value.0);
                    }
                }
            }
            if tx.kind == TxKind::DoscMint {
                // up to the reward computed by the reference transcription
                let lookup = |id: &CoinID| n.model.coins.get(id).cloned();
                if let Some(max) = dosc_allowance(&n.model, tx, &lookup, ctx) {
                    *allowed.entry(Denom::Erg).or_default() += BigUint::from(max);
                }
            }
        }
        for (d, v) in &sa {
            let b = sb.get(d).cloned().unwrap_or_default();
            let al = allowed.get(d).cloned().unwrap_or_default();
            if *v > &b + &al {
                let kinds: BTreeSet<String> = txs.iter().map(|t| format!("{}", t.kind)).collect();
                // ERG created by a mint whose "proof" is only refused for not being bound to its root is named as such (it is the
                // known defect of the proof verifier, DESIGN §7-AA; any other ERG out of nothing keeps the general class)
                let lookup = |id: &CoinID| n.model.coins.get(id).cloned();
                let unbound = *d == Denom::Erg && !txs.is_empty() && txs.iter().filter(|t| t.kind == TxKind::DoscMint).all(|t| n.model.dosc_reject_reason(t, &lookup, ctx) == Some("doscmint:proof-labels-not-bound-to-the-root")) && txs.iter().any(|t| t.kind == TxKind::DoscMint);
                run.violation(
                    "C01",
                    format!("batch-creates-value/{}/{}{}", denom_name(d, &liq), kinds.into_iter().collect::<Vec<_>>().join("+"), if unbound { "/proof-labels-not-bound-to-the-root" } else { "" }),
                    format!("after [{}] ; [{}]: supply of {:?} went {} -> {} (allowed issuance {})", n.path_str(), a.label(), d, b, v, al),
                    n.replay_json(Some(a)),
                );
            }
        }
    }

    fn seal(&self, n: &Node, u: &St, act: Option<ProposerAction>, a: &Action) -> StepOut {
        let run = self.run;
        let before = observe(n);
        let res = guard(|| u.clone().seal(act));
        let sealed = match res {
            Err(p) => {
                run.outcome("seal:panic");
                let kinds: BTreeSet<String> = n.model.block_txs.values().map(|t| format!("{}", t.kind)).collect();
                run.violation(
                    "C09",
                    format!("seal/{}/{}", kinds.into_iter().collect::<Vec<_>>().join("+"), p.class()),
                    format!("seal({}) panicked after [{}]: {}", a.label(), n.path_str(), p.msg),
                    n.replay_json(Some(a)),
                );
                // C16: a block that cannot be sealed because a built-in pool that has to exist from this height on stands at a zero
                // reserve in the open state (emptied before it became built-in: seed C16-r13-2) is "a built-in pool without
                // reserves" as well - there is no sealed block to look at, so the open state is
                let mut builtins = vec![PoolKey::new(Denom::Mel, Denom::Sym), PoolKey::new(Denom::Mel, Denom::Erg)];
                if n.model.rules().tip_902 {
                    builtins.push(PoolKey::new(Denom::Erg, Denom::Sym));
                }
                for k in builtins {
                    if let Some(ps) = n.model.pools.get(&k) {
                        if ps.lefts == 0 || ps.rights == 0 {
                            run.violation("C16", "builtin-pool-without-reserves-block-cannot-be-sealed".into(), format!("seal({}) panicked after [{}] and the built-in pool {:?} stands at {} : {} in the open state", a.label(), n.path_str(), k, ps.lefts, ps.rights), n.replay_json(Some(a)));
                        }
                    }
                }
                return StepOut::Pruned;
            }
            Ok(s) => s,
        };
        run.validated();
        run.outcome("seal:ok");
        let (model, rep) = n.model.seal(act);
        let child = n.child(Real::Sealed(sealed.clone()), model, a);
        let after = observe(&child);
        let mut ok = true;
        let block: Vec<Transaction> = n.model.block_txs.values().cloned().collect();
        let ambiguous = seal_ambiguity(&n.model);
        // ---- C15 part 1: outputs of transactions that are not genuine requests stay exactly as declared
        for tx in &block {
            let genuine = matches!(tx.kind, TxKind::Swap | TxKind::LiqDeposit | TxKind::LiqWithdraw) && PoolKey::from_bytes(&tx.data).is_some();
            if genuine {
                continue;
            }
            for i in 0..tx.outputs.len() {
                let id = tx.output_coinid(i as u8);
                let k = coin_key(id);
                if let Some(b) = before.coins.get(&k) {
                    if after.coins.get(&k) != Some(b) {
                        run.violation(
                            "C15",
                            format!("non-request-output-transformed/kind={}", tx.kind),
                            format!("output {} of a {} transaction (data {}) was {} {:?} before sealing and is {:?} after; path [{}]", i, tx.kind, hex::encode(&tx.data), b.coin_data.value.0, b.coin_data.denom, after.coins.get(&k).map(|c| (c.coin_data.value.0, c.coin_data.denom)), n.path_str()),
                            n.replay_json(Some(a)),
                        );
                        ok = false;
                    }
                }
            }
        }
        // ---- exact lock-step where the statement is exact and the block has no ambiguous request
        let me = model_coin_entries(&child.model);
        if ambiguous.is_empty() {
            if after.coins != me {
                let (kind, what) = describe_coin_diff(&after.coins, &child.model);
                let kinds: BTreeSet<String> = block.iter().map(|t| format!("{}", t.kind)).collect();
                let reqs = format!("swaps={},deposits={},withdrawals={}", rep.swaps.iter().map(|s| s.requests).sum::<usize>().min(2), rep.deposits.iter().map(|s| s.requests).max().unwrap_or(0).min(2), rep.withdrawals.iter().map(|s| s.requests).max().unwrap_or(0).min(2));
                run.violation(
                    "C15",
                    format!("seal-coins/{}/{}/{}", kind, kinds.into_iter().collect::<Vec<_>>().join("+"), reqs),
                    format!("after [{}] ; {}: {}", n.path_str(), a.label(), what),
                    n.replay_json(Some(a)),
                );
                ok = false;
            }
            // pools: custom pools and MEL/ERG exactly; MEL/SYM and ERG/SYM exactly as well (reference peg and subsidy), attributed to C15 when the pool had requests, to C01 otherwise
            for (k, mp) in &child.model.pools {
                let rp = after.pools.get(&pool_tree_key(*k));
                let same = matches!(rp, Some(r) if r.lefts == mp.lefts && r.rights == mp.rights && r.liqs == mp.liqs);
                if !same {
                    let had_requests = rep.swaps.iter().any(|s| s.pool == *k) || rep.deposits.iter().any(|s| s.pool == *k) || rep.withdrawals.iter().any(|s| s.pool == *k);
                    let builtin_ms = *k == PoolKey::new(Denom::Mel, Denom::Sym) || *k == PoolKey::new(Denom::Erg, Denom::Sym);
                    if had_requests || !builtin_ms {
                        let field = match rp {
                            None => "absent",
                            Some(r) if r.liqs != mp.liqs => "liqs",
                            Some(r) if r.lefts != mp.lefts => "lefts",
                            _ => "rights",
                        };
                        run.violation(
                            "C15",
                            format!("seal-pool/{}/requests={}", field, had_requests),
                            format!("after [{}] ; {}: pool {} real {:?} model {}", n.path_str(), a.label(), k, rp.map(pool_json), pool_json(mp)),
                            n.replay_json(Some(a)),
                        );
                        ok = false;
                    }
                }
            }
            if after.pools.len() != child.model.pools.len() {
                run.violation("C15", "seal-pool/count".into(), format!("after [{}] ; {}: {} pools in the tree, {} in the model", n.path_str(), a.label(), after.pools.len(), child.model.pools.len()), n.replay_json(Some(a)));
                ok = false;
            }
        }
        // ---- C15 part 2: settlement invariants on the real numbers (independent of exact equality)
        self.check_settlement_invariants(n, &before, &after, &rep, &ambiguous, a);
        // ---- C16
        self.check_pools_backed(&child, &after, Some(a), n);
        // ---- C01
        if self.check_conservation {
            self.check_seal_conservation(n, &before, &after, &child, &rep, a);
        }
        // ---- C05 / C17: proposer action accounting, observed as the statement says: seal(None) vs seal(Some)
        if let Some(pa) = act {
            if let Ok(base) = guard(|| u.clone().seal(None)) {
                let bh = base.header();
                let expect_reward = (bh.fee_pool.0 >> 16) + before.tips;
                let rc = sealed.coin(CoinID::proposer_reward(BlockHeight(n.model.height)));
                let good = matches!(&rc, Some(c) if c.coin_data.value.0 == expect_reward && c.coin_data.denom == Denom::Mel && c.coin_data.covhash == pa.reward_dest && c.height.0 == n.model.height);
                if !good {
                    run.violation(
                        "C05",
                        "proposer-reward-coin".into(),
                        format!("after [{}] ; {}: reward coin {:?}, expected {} MEL to the action's destination", n.path_str(), a.label(), rc.map(|c| (c.coin_data.value.0, c.coin_data.denom)), expect_reward),
                        n.replay_json(Some(a)),
                    );
                    ok = false;
                }
                if after.header.fee_pool.0 != bh.fee_pool.0 - (bh.fee_pool.0 >> 16) {
                    run.violation(
                        "C05",
                        "fee-pool-after-reward".into(),
                        format!("after [{}] ; {}: fee pool {} expected {}", n.path_str(), a.label(), after.header.fee_pool.0, bh.fee_pool.0 - (bh.fee_pool.0 >> 16)),
                        n.replay_json(Some(a)),
                    );
                    ok = false;
                }
                if bh.fee_multiplier != before.header.fee_multiplier {
                    run.violation("C17", "none-changes-multiplier".into(), format!("seal(None) moved the fee multiplier after [{}]", n.path_str()), n.replay_json(Some(a)));
                }
            }
            if after.header.fee_multiplier != child.model.fee_multiplier {
                run.violation(
                    "C17",
                    format!("wrong-step/in-history/sign={}", pa.fee_multiplier_delta.signum()),
                    format!("after [{}] ; {}: fee multiplier {} -> {} (specified {})", n.path_str(), a.label(), before.header.fee_multiplier, after.header.fee_multiplier, child.model.fee_multiplier),
                    n.replay_json(Some(a)),
                );
                ok = false;
            }
        } else {
            if sealed.coin(CoinID::proposer_reward(BlockHeight(n.model.height))).is_some() {
                run.violation("C05", "reward-coin-without-action".into(), format!("after [{}] ; seal(None)", n.path_str()), n.replay_json(Some(a)));
            }
            if after.header.fee_multiplier != before.header.fee_multiplier {
                run.violation("C17", "none-changes-multiplier".into(), format!("seal(None) moved the fee multiplier after [{}]", n.path_str()), n.replay_json(Some(a)));
            }
        }
        if ambiguous.is_empty() && after.header.fee_pool.0 != child.model.fee_pool {
            run.violation(
                "C05",
                "fee-pool-after-seal".into(),
                format!("after [{}] ; {}: fee pool {} model {}", n.path_str(), a.label(), after.header.fee_pool.0, child.model.fee_pool),
                n.replay_json(Some(a)),
            );
            ok = false;
        }
        // ---- C20
        check_counts(run, &after, child.model.rules().tip_906, n, Some(a), "after-seal");
        // ---- C13 (sealing never touches stakes)
        self.check_stakes(&child, Some(a));
        if !ambiguous.is_empty() {
            // no exact comparison was made for this block: the model is re-synchronised from the real state (coins by every
            // candidate id, pools by every known key, scalars from the header) and the search goes on from there
            run.outcome("seal:ambiguous-request-present(invariants only; model re-synchronised)");
            let mut m = child.model.clone();
            let mut ids: BTreeSet<CoinID> = n.model.coins.keys().cloned().collect();
            ids.extend(m.coins.keys().cloned());
            for tx in &block {
                for i in 0..=tx.outputs.len().min(255) {
                    ids.insert(tx.output_coinid(i as u8));
                }
            }
            ids.insert(CoinID::proposer_reward(BlockHeight(n.model.height)));
            m.coins.clear();
            for id in ids {
                if let Some(c) = sealed.coin(id) {
                    m.coins.insert(id, c);
                }
            }
            let keys: Vec<PoolKey> = m.seen_pool_keys.iter().chain(builtin_pool_keys().iter()).filter_map(canon).collect();
            m.pools.clear();
            for k in keys {
                if let Some(p) = sealed.pool(k) {
                    m.pools.insert(k, p);
                }
            }
            m.fee_pool = after.header.fee_pool.0;
            m.fee_multiplier = after.header.fee_multiplier;
            m.dosc_speed = after.header.dosc_speed;
            if after.coins.len() != m.coins.len() || after.pools.len() != m.pools.len() {
                // something in the real trees cannot be attributed: stop here rather than continue with a partial model
                run.outcome("seal:resync-incomplete(branch not explored further)");
                return StepOut::Pruned;
            }
            let mut c2 = child.clone();
            c2.model = m;
            return StepOut::Next(c2);
        }
        if ok || self.continue_after_mismatch {
            StepOut::Next(child)
        } else {
            StepOut::Pruned
        }
    }

    /// C16: built-in pools exist with non-zero reserves; liquidity tokens in coins never exceed the pool's recorded liquidity.
    pub fn check_pools_backed(&self, child: &Node, after: &Observed, a: Option<&Action>, parent: &Node) {
        let run = self.run;
        let rules = child.model.rules();
        let mut need = vec![PoolKey::new(Denom::Mel, Denom::Sym), PoolKey::new(Denom::Mel, Denom::Erg)];
        if rules.tip_902 {
            need.push(PoolKey::new(Denom::Erg, Denom::Sym));
        }
        for k in need {
            match after.pools.get(&pool_tree_key(k)) {
                Some(p) if p.lefts > 0 && p.rights > 0 => {}
                other => run.violation(
                    "C16",
                    format!("builtin-pool-{}", if other.is_none() { "missing" } else { "drained" }),
                    format!("after [{}]{}: pool {} is {:?}", parent.path_str(), a.map(|x| format!(" ; {}", x.label())).unwrap_or_default(), k, other.map(pool_json)),
                    parent.replay_json(a),
                ),
            }
        }
        if !self.check_backing {
            return;
        }
        let mut held: BTreeMap<Denom, BigUint> = BTreeMap::new();
        for c in after.coins.values() {
            if let Denom::Custom(_) = c.coin_data.denom {
                *held.entry(c.coin_data.denom).or_default() += BigUint::from(c.coin_data.value.0);
            }
        }
        for k in child.model.seen_pool_keys.iter().chain(builtin_pool_keys().iter()) {
            let k = match canon(k) {
                Some(k) => k,
                None => continue,
            };
            let liqs = after.pools.get(&pool_tree_key(k)).map(|p| p.liqs).unwrap_or(0);
            if let Some(h) = held.get(&k.liq_token_denom()) {
                if *h > BigUint::from(liqs) {
                    let deposits_in_block = parent.model.block_txs.values().filter(|t| t.kind == TxKind::LiqDeposit && PoolKey::from_bytes(&t.data).and_then(|x| canon(&x)) == Some(k)).count();
                    run.violation(
                        "C16",
                        format!("liquidity-tokens-exceed-pool-liquidity/deposits-in-block={}", deposits_in_block.min(3)),
                        format!("after [{}]{}: coins hold {} liquidity tokens of pool {} which records liqs = {}", parent.path_str(), a.map(|x| format!(" ; {}", x.label())).unwrap_or_default(), h, k, liqs),
                        parent.replay_json(a),
                    );
                }
            }
        }
    }

    fn check_settlement_invariants(&self, n: &Node, before: &Observed, after: &Observed, rep: &SealReport, ambiguous: &BTreeSet<String>, a: &Action) {
        let run = self.run;
        // swap: the reserve product never decreases (real pool before vs after, for pools untouched by peg/subsidy)
        for s in &rep.swaps {
            let builtin_ms = s.pool == PoolKey::new(Denom::Mel, Denom::Sym) || s.pool == PoolKey::new(Denom::Erg, Denom::Sym);
            if builtin_ms || !rep.deposits.iter().all(|d| d.pool != s.pool) || !rep.withdrawals.iter().all(|d| d.pool != s.pool) {
                continue;
            }
            let key = pool_tree_key(s.pool);
            if let (Some(b), Some(af)) = (before.pools.get(&key), after.pools.get(&key)) {
                if BigUint::from(af.lefts) * BigUint::from(af.rights) < BigUint::from(b.lefts) * BigUint::from(b.rights) {
                    run.violation("C15", "reserve-product-decreased".into(), format!("pool {} after [{}] ; {}: {:?} -> {:?}", s.pool, n.path_str(), a.label(), pool_json(b), pool_json(af)), n.replay_json(Some(a)));
                }
            }
        }
        // deposits: the liquidity tokens handed out for a pool never exceed the liquidity the pool recorded for these deposits
        for d in &rep.deposits {
            let key = pool_tree_key(d.pool);
            let burnt: u128 = rep.withdrawals.iter().filter(|w| w.pool == d.pool).map(|w| w.liqs_burnt).sum();
            let grown = after.pools.get(&key).map(|p| p.liqs).unwrap_or(0).saturating_add(burnt).saturating_sub(before.pools.get(&key).map(|p| p.liqs).unwrap_or(0));
            let mut handed = BigUint::from(0u8);
            let mut reqs = 0;
            for tx in n.model.block_txs.values() {
                if tx.kind == TxKind::LiqDeposit && PoolKey::from_bytes(&tx.data) == Some(d.pool) && tx.outputs.len() >= 2 {
                    if let Some(c) = after.coins.get(&coin_key(tx.output_coinid(0))) {
                        if c.coin_data.denom == d.pool.liq_token_denom() {
                            handed += BigUint::from(c.coin_data.value.0);
                            reqs += 1;
                        }
                    }
                }
            }
            if handed > BigUint::from(grown) {
                run.violation(
                    "C15",
                    format!("deposit-shares-exceed-liquidity-minted/deposits-in-block={}", reqs.min(3)),
                    format!("pool {} after [{}] ; {}: {} deposits received {} liquidity tokens in total but the pool's liquidity grew by {}", d.pool, n.path_str(), a.label(), reqs, handed, grown),
                    n.replay_json(Some(a)),
                );
            }
        }
        // every coin that changed at sealing belongs to a genuine request (or is the proposer reward)
        let reward_key = coin_key(CoinID::proposer_reward(BlockHeight(n.model.height)));
        let transformed: BTreeSet<[u8; 32]> = rep.transformed.iter().map(|c| coin_key(*c)).collect();
        if ambiguous.is_empty() {
            for (k, c) in &after.coins {
                if before.coins.get(k) != Some(c) && !transformed.contains(k) && *k != reward_key {
                    run.violation(
                        "C15",
                        "sealing-changed-unrelated-coin".into(),
                        format!("after [{}] ; {}: a coin ({} {:?}) that is no request output changed or appeared", n.path_str(), a.label(), c.coin_data.value.0, c.coin_data.denom),
                        n.replay_json(Some(a)),
                    );
                    break;
                }
            }
            for k in before.coins.keys() {
                if !after.coins.contains_key(k) && !transformed.contains(k) {
                    run.violation("C15", "sealing-removed-unrelated-coin".into(), format!("after [{}] ; {}", n.path_str(), a.label()), n.replay_json(Some(a)));
                    break;
                }
            }
        }
    }

    fn check_seal_conservation(&self, n: &Node, before: &Observed, after: &Observed, child: &Node, rep: &SealReport, a: &Action) {
        let run = self.run;
        let liq = liq_denoms(&child.model);
        let (sb, sa) = match (real_supply(before, &child.model), real_supply(after, &child.model)) {
            (Ok(b), Ok(a)) => (b, a),
            (Err(e), _) | (_, Err(e)) => {
                run.violation("C01", "unaccounted-pool".into(), format!("{} after [{}] ; {}", e, n.path_str(), a.label()), n.replay_json(Some(a)));
                return;
            }
        };
        // the pools created at the first seal bring their initial reserves with them (protocol constant, not a transaction effect)
        let mut allowed: BTreeMap<Denom, BigUint> = BTreeMap::new();
        for k in builtin_pool_keys() {
            let key = pool_tree_key(k);
            if !before.pools.contains_key(&key) && after.pools.contains_key(&key) {
                *allowed.entry(k.left()).or_default() += BigUint::from(1_000_000_000u64);
                *allowed.entry(k.right()).or_default() += BigUint::from(1_000_000_000u64);
            }
        }
        *allowed.entry(Denom::Mel).or_default() += BigUint::from(rep.peg_mel_issued);
        *allowed.entry(Denom::Sym).or_default() += BigUint::from(rep.peg_sym_issued) + BigUint::from(rep.subsidy_sym);
        // grandfathered window (mainnet/testnet below 978392): the code keeps the historical rule under which a deposit's right-hand
        // coin survives; that duplication is deliberate and excluded here (DESIGN.md §5)
        for (d, v) in &rep.legacy_deposit_right_kept {
            *allowed.entry(*d).or_default() += BigUint::from(*v);
            run.outcome("seal:legacy-deposit-window-allowance");
        }
        // liquidity tokens: issued only against a deposit (how many is C15's and C16's subject, not conservation's)
        let mut liq_issuable: BTreeSet<Denom> = BTreeSet::new();
        for d in &rep.deposits {
            liq_issuable.insert(d.pool.liq_token_denom());
        }
        for (d, v) in &sa {
            let b = sb.get(d).cloned().unwrap_or_default();
            let al = allowed.get(d).cloned().unwrap_or_default();
            if liq_issuable.contains(d) {
                continue;
            }
            if *v > &b + &al {
                let kinds: BTreeSet<String> = n.model.block_txs.values().map(|t| format!("{}", t.kind)).collect();
                run.violation(
                    "C01",
                    format!("seal-creates-value/{}/{}", denom_name(d, &liq), kinds.into_iter().collect::<Vec<_>>().join("+")),
                    format!("after [{}] ; {}: supply of {:?} went {} -> {} (allowed issuance {})", n.path_str(), a.label(), d, b, v, al),
                    n.replay_json(Some(a)),
                );
            }
        }
    }
}

/// What a DoscMint may create according to the reference transcription (None if the model would reject it).
fn dosc_allowance(m: &RefState, tx: &Transaction, lookup: &dyn Fn(&CoinID) -> Option<CoinDataHeight>, ctx: &BatchCtx) -> Option<u128> {
    // re-use the model's verdict through a one-transaction batch is expensive; replicate the few lines
    let first = *tx.inputs.first()?;
    let cdh = lookup(&first)?;
    let age = m.height.checked_sub(cdh.height.0)?;
    if age == 0 {
        return None;
    }
    let (difficulty, proof_bytes): (u32, Vec<u8>) = stdcode::deserialize(&tx.data).ok()?;
    if difficulty >= 100 {
        return None;
    }
    let seed = (ctx.header_at)(cdh.height.0)?;
    let puzzle = tmelcrypt::hash_keyed(seed.hash(), stdcode::serialize(&first).unwrap());
    use crate::refpow::{hash_legacy, hash_tip910, ref_pow_verify, PowVerdict};
    let legacy = ref_pow_verify(&proof_bytes, &puzzle.0, difficulty as usize, &hash_legacy) == PowVerdict::Valid;
    let tip910 = !legacy && ref_pow_verify(&proof_bytes, &puzzle.0, difficulty as usize, &hash_tip910) == PowVerdict::Valid;
    if !legacy && !tip910 {
        return None;
    }
    let speed = (if tip910 { 100u128 } else { 1 }) * (1u128 << difficulty) / age as u128;
    let prev = match m.prev_dosc_speed {
        Some(s) => s,
        None => (ctx.header_at)(m.height.checked_sub(1)?)?.dosc_speed,
    };
    ref_dosc_to_erg(m.height, ref_reward(speed, prev, difficulty, tip910))
}

/// Requests whose treatment the statement leaves open (non-canonical pool spelling, zero-valued
/// requests, withdrawals the pool cannot honour): exact comparison is skipped for such blocks,
/// the invariants (denominations, conservation, backing, totality) still apply.
pub fn seal_ambiguity(m: &RefState) -> BTreeSet<String> {
    let mut s = BTreeSet::new();
    for tx in m.block_txs.values() {
        if let Some(k) = PoolKey::from_bytes(&tx.data) {
            let canonical = k.left().to_bytes() < k.right().to_bytes() && k.to_bytes() == tx.data;
            // (a name with two equal sides names no pool under any reading: such a transaction is simply not a request)
            if !canonical && canon(&k).is_some() {
                s.insert("non-canonical-pool-name".to_string());
            }
            if matches!(tx.kind, TxKind::Swap) && tx.outputs.first().map(|o| o.value.0 == 0).unwrap_or(false) {
                s.insert("zero-valued-swap".to_string());
            }
            if matches!(tx.kind, TxKind::LiqDeposit) && tx.outputs.len() >= 2 && (tx.outputs[0].value.0 == 0 || tx.outputs[1].value.0 == 0) {
                s.insert("zero-valued-deposit".to_string());
            }
            // (only a transaction that has the shape of a withdrawal request - one output, in the pool's liquidity token - can make the
            //  block's withdrawals ambiguous; a withdrawal-like transaction with further outputs is simply not a request)
            let is_request_shaped = tx.outputs.len() == 1 && canon(&k).map(|c| tx.outputs[0].denom == c.liq_token_denom()).unwrap_or(false);
            if matches!(tx.kind, TxKind::LiqWithdraw) && canon(&k).is_some() && is_request_shaped {
                let canon = canon(&k).unwrap();
                let total: u128 = m
                    .block_txs
                    .values()
                    .filter(|t| t.kind == TxKind::LiqWithdraw && t.outputs.len() == 1 && PoolKey::from_bytes(&t.data) == Some(k) && t.outputs[0].denom == canon.liq_token_denom())
                    .map(|t| t.outputs[0].value.0)
                    .fold(0u128, |a, b| a.saturating_add(b));
                let liqs = m.pools.get(&canon).map(|p| p.liqs).unwrap_or(0);
                let builtin = builtin_pool_keys().contains(&canon);
                // more than the pool's liquidity, or all of a built-in pool's: the statement has no rule.  All of an ordinary pool's
                // liquidity is an ordinary settlement (the pool pays out everything, pro rata, rounded down).
                if total == 0 || total > liqs || (builtin && total == liqs) {
                    // (withdrawing exactly everything is honoured for ordinary pools and refused for built-in ones; either way the
                    //  settlement is compared by invariants only)
                    s.insert("unhonourable-or-total-withdrawal".to_string());
                }
            }
        }
    }
    s
}

// ---------------------------------------------------------------------------------------------
// breadth-first search

#[derive(Default)]
pub struct SearchStats {
    pub states: u64,
    pub transitions: u64,
    pub depth_completed: usize,
    pub frontier_sizes: Vec<usize>,
}

/// Level-synchronous BFS with de-duplication on the canonical key.  `actions` yields the finite
/// alphabet of a node; `visit` is called once per unique node.
pub fn bfs(
    eng: &Engine,
    roots: Vec<Node>,
    max_depth: usize,
    max_states: usize,
    actions: &(dyn Fn(&Node) -> Vec<Action> + Sync),
    visit: &(dyn Fn(&Node) + Sync),
) -> SearchStats {
    bfs_with(eng, roots, max_depth, max_states, actions, visit, &|_p: &Node, _a: &Action, _c: &Node| {})
}

/// Like `bfs`, with a callback on every generated successor (before de-duplication).
pub fn bfs_with(
    eng: &Engine,
    roots: Vec<Node>,
    max_depth: usize,
    max_states: usize,
    actions: &(dyn Fn(&Node) -> Vec<Action> + Sync),
    visit: &(dyn Fn(&Node) + Sync),
    on_successor: &(dyn Fn(&Node, &Action, &Node) + Sync),
) -> SearchStats {
    // give memory freed by earlier scenarios back to the system, so that the resident-set cap measures this search
    unsafe {
        libc::malloc_trim(0);
    }
    let mut seen: HashSet<[u8; 32]> = HashSet::new();
    let mut frontier: Vec<Node> = vec![];
    for r in roots {
        if seen.insert(r.key()) {
            visit(&r);
            eng.run.state();
            frontier.push(r);
        }
    }
    let mut stats = SearchStats { states: frontier.len() as u64, transitions: 0, depth_completed: 0, frontier_sizes: vec![frontier.len()] };
    for depth in 1..=max_depth {
        if frontier.is_empty() {
            stats.depth_completed = max_depth;
            break;
        }
        // the frontier is expanded in chunks so that the state and memory caps can stop a level part-way (small chunks: all
        // successors of a chunk are alive at once, and a node of a pool scenario has a hundred of them)
        let mut next = vec![];
        let mut capped_mid_level = false;
        for chunk in frontier.chunks(2_000) {
            let results: Vec<(u64, Vec<(Node, [u8; 32])>)> = chunk
                .par_iter()
                .map(|n| {
                    let acts = actions(n);
                    let mut out = vec![];
                    let mut t = 0u64;
                    for a in &acts {
                        t += 1;
                        if let StepOut::Next(c) = eng.step(n, a) {
                            on_successor(n, a, &c);
                            let k = c.key();
                            out.push((c, k));
                        }
                    }
                    (t, out)
                })
                .collect();
            let first_new = next.len();
            for (t, succ) in results {
                stats.transitions += t;
                for (c, k) in succ {
                    if seen.insert(k) {
                        eng.run.state();
                        next.push(c);
                    }
                }
            }
            // state oracles of the new unique nodes, in parallel
            next[first_new..].par_iter().for_each(|c| visit(c));
            let rss_gb = rss_bytes() as f64 / (1u64 << 30) as f64;
            if seen.len() > max_states || rss_gb > 20.0 {
                capped_mid_level = true;
                eng.run.cap_hit(&format!("cap reached while expanding depth {} ({} states, {:.1} GiB resident): depth {} is complete, depth {} only partly", depth, seen.len(), rss_gb, depth - 1, depth));
                break;
            }
        }
        if capped_mid_level {
            stats.states += next.len() as u64;
            stats.frontier_sizes.push(next.len());
            stats.depth_completed = depth - 1;
            return stats;
        }
        stats.states += next.len() as u64;
        stats.frontier_sizes.push(next.len());
        stats.depth_completed = depth;
        frontier = next;
        // resident-set cap: a capped run reports the bound it completed, it never produces a verdict
        let rss_gb = rss_bytes() as f64 / (1u64 << 30) as f64;
        if rss_gb > 20.0 {
            eng.run.cap_hit(&format!("resident set {:.1} GiB above the 20 GiB cap after completing depth {}", rss_gb, depth));
            break;
        }
        if seen.len() > max_states {
            eng.run.cap_hit(&format!("state cap {} reached after completing depth {}", max_states, depth));
            break;
        }
    }
    stats
}

pub fn rss_bytes() -> u64 {
    std::fs::read_to_string("/proc/self/statm").ok().and_then(|s| s.split_whitespace().nth(1).and_then(|p| p.parse::<u64>().ok())).map(|pages| pages * 4096).unwrap_or(0)
}

// ---------------------------------------------------------------------------------------------
// replay of a recorded path without the explorer

/// Re-executes the action path of a replay file (as written by `Node::replay_json`) from the standard root it names, through the
/// same transition function and oracles, one action at a time.  Returns false when the path does not start at a standard root.
pub fn replay_path(run: &Run, replay: &Value) -> bool {
    let path = match replay.get("path").and_then(|p| p.as_array()) {
        Some(p) => p,
        None => match replay.get("base").or_else(|| replay.get("base_path")).or_else(|| replay.get("restart_point")).and_then(|b| b.get("path")).and_then(|p| p.as_array()) {
            Some(p) => p,
            None => return false,
        },
    };
    let first = match path.first() {
        Some(f) => f,
        None => return false,
    };
    let net = match first.get("root").and_then(|r| r.as_str()) {
        Some("Custom02") => NetID::Custom02,
        Some("Custom08") => NetID::Custom08,
        Some("Testnet") => NetID::Testnet,
        Some("Mainnet") => NetID::Mainnet,
        Some("Custom03") => NetID::Custom03,
        Some("Custom04") => NetID::Custom04,
        Some("Custom05") => NetID::Custom05,
        Some("Custom06") => NetID::Custom06,
        Some("Custom07") => NetID::Custom07,
        _ => return false,
    };
    let fm: u128 = first.get("fee_multiplier").and_then(|f| f.as_str()).and_then(|s| s.parse().ok()).unwrap_or(0);
    let wallet = first.get("wallet").and_then(|w| w.as_bool()).unwrap_or(true);
    let variant = first.get("genesis_variant").and_then(|v| v.as_u64()).unwrap_or(0) as u8;
    let (_w, mut node) = crate::props::e1::root_variant(net, fm, wallet, variant);
    let eng = Engine::new(run);
    println!("replay: root genesis[{:?}] fee_multiplier={} wallet={} genesis configuration {}", net, fm, wallet, variant);
    for step in path.iter().skip(1) {
        let action = if step.get("open").is_some() {
            Action::Open
        } else if step.get("restart").is_some() {
            Action::Restart
        } else if let Some(h) = step.get("jump").and_then(|h| h.as_u64()) {
            Action::Jump(h)
        } else if let Some(s) = step.get("seal") {
            if s.is_null() {
                Action::Seal(None)
            } else {
                let delta = s.get("delta").and_then(|d| d.as_i64()).unwrap_or(0) as i8;
                let dest = s.get("reward_dest").and_then(|d| d.as_str()).and_then(|d| d.parse::<tmelcrypt::HashVal>().ok()).map(melstructs::Address).unwrap_or_else(addr_true);
                Action::Seal(Some(ProposerAction { fee_multiplier_delta: delta, reward_dest: dest }))
            }
        } else if let Some(txs) = step.get("txs").and_then(|t| t.as_array()) {
            let mut v = vec![];
            for t in txs {
                match t.get("stdcode_hex").and_then(|h| h.as_str()).and_then(|h| hex::decode(h).ok()).and_then(|b| stdcode::deserialize::<Transaction>(&b).ok()) {
                    Some(tx) => v.push(tx),
                    None => return false,
                }
            }
            Action::Batch { label: step.get("batch").and_then(|b| b.as_str()).unwrap_or("batch").to_string(), txs: v, expect_ok: false }
        } else {
            return false;
        };
        let out = eng.step(&node, &action);
        match out {
            StepOut::Next(n) => {
                println!("replay: {} -> ok", action.label());
                node = n;
            }
            StepOut::Rejected => println!("replay: {} -> rejected (state unchanged)", action.label()),
            StepOut::Pruned => {
                println!("replay: {} -> an oracle reported or lock-step was lost; stopping", action.label());
                break;
            }
        }
    }
    true
}

/// Nodes collected by a (parallel) visitor, in a canonical order: shortest path first, then by path labels.
pub fn canonical_order(mut v: Vec<Node>) -> Vec<Node> {
    v.sort_by_cached_key(|n| (n.path_len(), n.path_str()));
    v
}
