//! Driver of the loom lab (`/verif/loomlab`): exhaustive exploration, by loom's DPOR, of every interleaving of a few threads
//! that ask melstf's process-wide DOSC inflator table for neighbouring heights.  The lab compiles the *text* of the
//! repository's `microergs_per_dosc` against loom-backed `Lazy` / `RwLock` / `Mutex` / atomics (parking_lot and once_cell
//! cannot be intercepted in the linked crate), so the lab is rebuilt whenever that function changes.  Each scenario is a child
//! process: a loom failure aborts its process.
use crate::report::{verif_dir, Run};
use serde_json::json;
use std::process::Command;

/// Runs every scenario of the tier; violations are recorded under `property`.
pub fn inflator_interleavings(run: &Run, property: &str) {
    let root = verif_dir();
    let bin = format!("{}/target/loomlab/release/loomlab", root);
    let marker = format!("{}/target/loomlab.unavailable", root);
    if std::path::Path::new(&marker).exists() || !std::path::Path::new(&bin).exists() {
        let why = std::fs::read_to_string(&marker).unwrap_or_default();
        println!("NOTE check={} loom lab unavailable for this tree (the extracted inflator code does not compile against the lab's shims); the interleaving part is skipped, the sampling supplement still runs", run.id);
        run.set("loom_inflator_table", json!({"available": false, "reason": why.lines().take(12).collect::<Vec<_>>() }));
        run.cap_hit("loom lab unavailable: inflator interleavings not explored");
        return;
    }
    let info = Command::new(&bin).arg("info").output().map(|o| String::from_utf8_lossy(&o.stdout).trim().to_string()).unwrap_or_default();
    let list = match Command::new(&bin).arg("list").output() {
        Ok(o) if o.status.success() => String::from_utf8_lossy(&o.stdout).to_string(),
        _ => run.machinery_failure("loom lab: cannot list scenarios"),
    };
    let thorough = run.thorough();
    let mut rows = Vec::new();
    let mut total: u64 = 0;
    for line in list.lines() {
        let f: Vec<&str> = line.splitn(5, ' ').collect();
        if f.len() < 5 {
            continue;
        }
        let (name, qb, tb, tier, threads) = (f[0], f[1], f[2], f[3], f[4]);
        if tier == "thorough" && !thorough {
            continue;
        }
        let bound = if thorough { tb } else { qb };
        let out = match Command::new(&bin).args(["run", name, bound]).output() {
            Ok(o) => o,
            Err(e) => run.machinery_failure(&format!("loom lab: cannot run {}: {}", name, e)),
        };
        let stdout = String::from_utf8_lossy(&out.stdout).to_string();
        let stderr = String::from_utf8_lossy(&out.stderr).to_string();
        if let Some(l) = stdout.lines().find(|l| l.starts_with("LOOMLAB-MISMATCH")) {
            run.outcome("loom:inflator:wrong-answer-under-some-interleaving");
            run.violation(
                property,
                "inflator-table/interleaving/wrong-answer".into(),
                format!("loom found an interleaving of {} (heights asked per thread, preemption bound {}) in which the inflator table gives a wrong answer: {}", threads, bound, l),
                json!({"loomlab": ["run", name, bound], "heights_per_thread": threads, "extracted": info}),
            );
            rows.push(json!({"scenario": name, "heights_per_thread": threads, "preemption_bound": bound, "result": l}));
            continue;
        }
        if out.status.success() {
            let ok = stdout.lines().find(|l| l.starts_with("LOOMLAB scenario=")).unwrap_or("");
            let n: u64 = ok.split_whitespace().find_map(|w| w.strip_prefix("schedules=")).and_then(|x| x.parse().ok()).unwrap_or(0);
            if n == 0 {
                run.machinery_failure(&format!("loom lab: scenario {} reported no schedules: {}", name, stdout));
            }
            total += n;
            run.transitions_add(n);
            run.validated_add(n);
            run.outcome_n("loom:inflator:schedule-ok", n);
            rows.push(json!({"scenario": name, "heights_per_thread": threads, "preemption_bound": bound, "schedules": n, "result": "every answer equals the recurrence"}));
            continue;
        }
        let all = format!("{}\n{}", stdout, stderr);
        if all.contains("deadlock") {
            run.outcome("loom:inflator:deadlock");
            run.violation(
                property,
                "inflator-table/interleaving/deadlock".into(),
                format!("loom found an interleaving of {} (preemption bound {}) in which the inflator lookups deadlock", threads, bound),
                json!({"loomlab": ["run", name, bound], "heights_per_thread": threads, "extracted": info}),
            );
            continue;
        }
        let tail: Vec<&str> = all.lines().rev().take(8).collect();
        run.machinery_failure(&format!("loom lab: scenario {} ended without a verdict: {:?}", name, tail));
    }
    run.set(
        "loom_inflator_table",
        json!({
            "available": true,
            "kind": "exhaustive: loom (DPOR over its C11 memory model) explores every interleaving of the listed threads at lock / lazy-initialisation granularity; preemption bound as listed (none = unbounded)",
            "subject": "text of microergs_per_dosc extracted from the working tree at build time, compiled against loom-backed Lazy / RwLock / Mutex / atomics",
            "extracted": info,
            "oracle": "every answer, and a final read of every entry, equals the sequential recurrence",
            "schedules_total": total,
            "scenarios": rows,
        }),
    );
}
