//! Driver of the loom lab (`/verif/loomlab`): exhaustive exploration, by loom's DPOR, of every interleaving of a few threads
//! that ask melstf's process-wide DOSC inflator table for neighbouring heights.  The lab compiles the *text* of the
//! repository's `microergs_per_dosc` against loom-backed `Lazy` / `RwLock` / `Mutex` / atomics (parking_lot and once_cell
//! cannot be intercepted in the linked crate), so the lab is rebuilt whenever that function changes.  Each scenario is a child
//! process: a loom failure aborts its process.
use crate::report::{verif_dir, Run};
use serde_json::json;
use std::process::Command;

/// Runs every scenario of the tier; violations are recorded under `property`.
pub fn inflator_interleavings(run: &Run, property: &str) {
    let root = verif_dir();
    let bin = format!("{}/target/loomlab/release/loomlab", root);
    let marker = format!("{}/target/loomlab.unavailable", root);
    if std::path::Path::new(&marker).exists() || !std::path::Path::new(&bin).exists() {
        let why = std::fs::read_to_string(&marker).unwrap_or_default();
        println!("NOTE check={} loom lab unavailable for this tree (the extracted inflator code does not compile against the lab's shims); the interleaving part is skipped, the sampling supplement still runs", run.id);
        run.set("loom_inflator_table", json!({"available": false, "reason": why.lines().take(12).collect::<Vec<_>>() }));
        run.cap_hit("loom lab unavailable: inflator interleavings not explored");
        return;
    }
    let info = Command::new(&bin).arg("info").output().map(|o| String::from_utf8_lossy(&o.stdout).trim().to_string()).unwrap_or_default();
    let list = match Command::new(&bin).arg("list").output() {
        Ok(o) if o.status.success() => String::from_utf8_lossy(&o.stdout).to_string(),
        _ => run.machinery_failure("loom lab: cannot list scenarios"),
    };
    let thorough = run.thorough();
    let mut rows = Vec::new();
    let mut total: u64 = 0;
    for line in list.lines() {
        let f: Vec<&str> = line.splitn(5, ' ').collect();
        if f.len() < 5 {
            continue;
        }
        let (name, qb, tb, tier, threads) = (f[0], f[1], f[2], f[3], f[4]);
        if tier == "thorough" && !thorough {
            continue;
        }
        let bound = if thorough { tb } else { qb };
        let secs: u64 = std::env::var("MCHECK_LOOMLAB_DEADLINE").ok().and_then(|x| x.parse().ok()).unwrap_or(if thorough { 1800 } else { 300 });
        let out = match output_within(&bin, &["run", name, bound], secs) {
            Ok(Some(o)) => o,
            Ok(None) => {
                run.cap_hit(&format!("loom lab scenario {} (bound {}): not finished within {} s; not explored", name, bound, secs));
                run.outcome("loom:inflator:deadline-reached");
                continue;
            }
            Err(e) => run.machinery_failure(&format!("loom lab: cannot run {}: {}", name, e)),
        };
        let stdout = String::from_utf8_lossy(&out.stdout).to_string();
        let stderr = String::from_utf8_lossy(&out.stderr).to_string();
        if let Some(l) = stdout.lines().find(|l| l.starts_with("LOOMLAB-MISMATCH")) {
            run.outcome("loom:inflator:wrong-answer-under-some-interleaving");
            run.violation(
                property,
                "inflator-table/interleaving/wrong-answer".into(),
                format!("loom found an interleaving of {} (heights asked per thread, preemption bound {}) in which the inflator table gives a wrong answer: {}", threads, bound, l),
                json!({"loomlab": ["run", name, bound], "heights_per_thread": threads, "extracted": info}),
            );
            rows.push(json!({"scenario": name, "heights_per_thread": threads, "preemption_bound": bound, "result": l}));
            continue;
        }
        if let Some(l) = stdout.lines().find(|l| l.starts_with("LOOMLAB-PANIC")) {
            run.outcome("loom:inflator:panic-under-some-interleaving");
            run.violation(
                property,
                "inflator-table/interleaving/panic".into(),
                format!("loom found an interleaving of {} (heights asked per thread, preemption bound {}) in which the inflator lookup panics: {}", threads, bound, l),
                json!({"loomlab": ["run", name, bound], "heights_per_thread": threads, "extracted": info}),
            );
            rows.push(json!({"scenario": name, "heights_per_thread": threads, "preemption_bound": bound, "result": l}));
            continue;
        }
        if out.status.success() {
            let ok = stdout.lines().find(|l| l.starts_with("LOOMLAB scenario=")).unwrap_or("");
            let n: u64 = ok.split_whitespace().find_map(|w| w.strip_prefix("schedules=")).and_then(|x| x.parse().ok()).unwrap_or(0);
            if n == 0 {
                run.machinery_failure(&format!("loom lab: scenario {} reported no schedules: {}", name, stdout));
            }
            total += n;
            run.transitions_add(n);
            run.validated_add(n);
            run.outcome_n("loom:inflator:schedule-ok", n);
            rows.push(json!({"scenario": name, "heights_per_thread": threads, "preemption_bound": bound, "schedules": n, "result": "every answer equals the recurrence"}));
            continue;
        }
        let all = format!("{}\n{}", stdout, stderr);
        if all.contains("deadlock") {
            run.outcome("loom:inflator:deadlock");
            run.violation(
                property,
                "inflator-table/interleaving/deadlock".into(),
                format!("loom found an interleaving of {} (preemption bound {}) in which the inflator lookups deadlock", threads, bound),
                json!({"loomlab": ["run", name, bound], "heights_per_thread": threads, "extracted": info}),
            );
            continue;
        }
        let tail: Vec<&str> = all.lines().rev().take(8).collect();
        run.machinery_failure(&format!("loom lab: scenario {} ended without a verdict: {:?}", name, tail));
    }
    run.set(
        "loom_inflator_table",
        json!({
            "available": true,
            "kind": "exhaustive: loom (DPOR over its C11 memory model) explores every interleaving of the listed threads at lock / lazy-initialisation granularity; preemption bound as listed (none = unbounded)",
            "subject": "text of microergs_per_dosc extracted from the working tree at build time, compiled against loom-backed Lazy / RwLock / Mutex / atomics",
            "extracted": info,
            "oracle": "every answer, and a final read of every entry, equals the sequential recurrence",
            "schedules_total": total,
            "scenarios": rows,
        }),
    );
}

/// Runs a lab binary under a wall-clock deadline (the explorer of a tree that shares more between its threads than the unchanged
/// one may need hours: that is a cap, reported as such, never a verdict and never a check that does not come back).
fn output_within(bin: &str, args: &[&str], secs: u64) -> Result<Option<std::process::Output>, std::io::Error> {
    use std::io::Read;
    let mut child = Command::new(bin).args(args).stdout(std::process::Stdio::piped()).stderr(std::process::Stdio::piped()).spawn()?;
    let (mut so, mut se) = (child.stdout.take().unwrap(), child.stderr.take().unwrap());
    let t1 = std::thread::spawn(move || {
        let mut v = Vec::new();
        let _ = so.read_to_end(&mut v);
        v
    });
    let t2 = std::thread::spawn(move || {
        let mut v = Vec::new();
        let _ = se.read_to_end(&mut v);
        v
    });
    let start = std::time::Instant::now();
    let status = loop {
        match child.try_wait()? {
            Some(st) => break Some(st),
            None if start.elapsed().as_secs() >= secs => {
                let _ = child.kill();
                let _ = child.wait();
                break None;
            }
            None => std::thread::sleep(std::time::Duration::from_millis(20)),
        }
    };
    let (stdout, stderr) = (t1.join().unwrap_or_default(), t2.join().unwrap_or_default());
    Ok(status.map(|status| std::process::Output { status, stdout, stderr }))
}


/// Driver of the second loom lab (`/verif/stfloom`): melstf's own source - the library target is the repository's `src/lib.rs` -
/// compiled against loom-backed stand-ins for rayon, parking_lot, once_cell and dashmap.  Every rayon terminal operation in
/// `apply_tx_batch` is a parallel site; for each scenario (a batch of two or three transactions), each site in turn runs its
/// pieces on loom threads, under every way of cutting the batch into consecutive pieces, and loom explores every interleaving of
/// what the pieces share.  Oracle: verdict, sealed header and recorded DOSC speed equal those of the sequential run.
pub fn stf_interleavings(run: &Run, property: &str, scenarios: &[&str]) {
    let root = verif_dir();
    let bin = format!("{}/target/stfloom/release/stfloom", root);
    let marker = format!("{}/target/stfloom.unavailable", root);
    if std::path::Path::new(&marker).exists() || !std::path::Path::new(&bin).exists() {
        let why = std::fs::read_to_string(&marker).unwrap_or_default();
        println!("NOTE check={} stfloom unavailable for this tree (melstf's source does not compile against the loom-backed stand-ins); apply_tx_batch is not explored under loom in this run", run.id);
        run.set("loom_apply_tx_batch", json!({"available": false, "reason": why.lines().take(12).collect::<Vec<_>>() }));
        run.cap_hit("stfloom unavailable: interleavings of apply_tx_batch not explored");
        return;
    }
    let bound = if run.thorough() { "none" } else { "none" };
    let mut rows = Vec::new();
    let (mut total, mut models) = (0u64, 0u64);
    for name in scenarios {
        let secs: u64 = std::env::var("MCHECK_STFLOOM_DEADLINE").ok().and_then(|x| x.parse().ok()).unwrap_or(if run.thorough() { 900 } else { 150 });
        // one budget for all lab scenarios of a check: a tree on which every scenario runs into its deadline must not turn a quick
        // check into an hour (on the unchanged tree all scenarios together take seconds)
        static LAB_TIME: std::sync::Mutex<Option<std::time::Instant>> = std::sync::Mutex::new(None);
        let started = *LAB_TIME.lock().unwrap().get_or_insert_with(std::time::Instant::now);
        let budget: u64 = std::env::var("MCHECK_STFLOOM_BUDGET").ok().and_then(|x| x.parse().ok()).unwrap_or(if run.thorough() { 5400 } else { 420 });
        if started.elapsed().as_secs() > budget {
            run.cap_hit(&format!("stfloom scenario {}: not run, the check's budget of {} s for lab scenarios is used up (earlier scenarios ran into their deadlines)", name, budget));
            run.outcome("loom:apply_tx_batch:budget-used-up");
            rows.push(json!({"scenario": name, "result": "not run: lab budget used up"}));
            continue;
        }
        let mut bound = bound;
        let mut out = None;
        for b in [bound, "2"] {
            match output_within(&bin, &["run", name, b], secs) {
                Ok(Some(o)) => {
                    bound = b;
                    out = Some(o);
                    break;
                }
                Ok(None) => {
                    run.cap_hit(&format!("stfloom scenario {} (preemption bound {}): not finished within {} s - on the unchanged tree it takes seconds; this tree shares more between the explored threads", name, b, secs));
                    run.outcome("loom:apply_tx_batch:deadline-reached");
                }
                Err(e) => run.machinery_failure(&format!("stfloom: cannot run {}: {}", name, e)),
            }
        }
        let out = match out {
            Some(o) => o,
            None => {
                rows.push(json!({"scenario": name, "result": "deadline reached with unbounded preemptions and with preemption bound 2: not explored"}));
                continue;
            }
        };
        let stdout = String::from_utf8_lossy(&out.stdout).to_string();
        let stderr = String::from_utf8_lossy(&out.stderr).to_string();
        if let Some(l) = stdout.lines().find(|l| l.starts_with("STFLOOM-MISMATCH")) {
            let detail = stdout.lines().find(|l| l.starts_with("STFLOOM-DETAIL")).unwrap_or("");
            let field = |k: &str| l.split_whitespace().find_map(|w| w.strip_prefix(k)).unwrap_or("?").to_string();
            let (got, want) = (field("got="), field("want="));
            let kind = if got != want { format!("sequential-{}-some-interleaving-{}", want, got) } else { "same-verdict-other-state".to_string() };
            run.outcome("loom:apply_tx_batch:result-differs-under-some-interleaving");
            run.violation(
                property,
                format!("apply_tx_batch/interleaving/{}", kind),
                format!("loom found an interleaving (or a way of cutting the batch) of apply_tx_batch on the batch '{}' whose result differs from the sequential one: {} {}", name, l, detail),
                json!({"stfloom": ["run", name, bound], "mismatch": l, "detail": detail}),
            );
            rows.push(json!({"scenario": name, "result": l}));
            continue;
        }
        if let Some(l) = stdout.lines().find(|l| l.starts_with("STFLOOM-PANIC")) {
            run.outcome("loom:apply_tx_batch:panic-under-some-interleaving");
            run.violation(property, "apply_tx_batch/interleaving/panic".into(), format!("loom found an interleaving of apply_tx_batch on '{}' in which it panics: {}", name, l), json!({"stfloom": ["run", name, bound], "panic": l}));
            rows.push(json!({"scenario": name, "result": l}));
            continue;
        }
        if out.status.success() {
            let ok = stdout.lines().find(|l| l.starts_with("STFLOOM scenario=")).unwrap_or("");
            let num = |k: &str| ok.split_whitespace().find_map(|w| w.strip_prefix(k)).and_then(|x| x.parse::<u64>().ok()).unwrap_or(0);
            let (n, m) = (num("executions="), num("models="));
            if n == 0 {
                run.machinery_failure(&format!("stfloom: scenario {} reported no executions: {} {}", name, stdout, stderr));
            }
            total += n;
            models += m;
            run.transitions_add(n);
            run.validated_add(n);
            run.outcome_n("loom:apply_tx_batch:execution-equals-the-sequential-result", n);
            rows.push(json!({"scenario": name, "parallel_sites": num("sites="), "cut_patterns": num("cut_patterns="), "models": m, "models_with_a_parallel_site": num("models_with_a_parallel_site="), "executions": n, "sequential_verdict": ok.split_whitespace().find_map(|w| w.strip_prefix("reference=")).unwrap_or("")}));
            continue;
        }
        let all = format!("{}\n{}", stdout, stderr);
        if all.contains("deadlock") {
            run.outcome("loom:apply_tx_batch:deadlock");
            run.violation(property, "apply_tx_batch/interleaving/deadlock".into(), format!("loom found an interleaving of apply_tx_batch on the batch '{}' that deadlocks", name), json!({"stfloom": ["run", name, bound]}));
            continue;
        }
        let tail: Vec<&str> = all.lines().rev().take(8).collect();
        run.machinery_failure(&format!("stfloom: scenario {} ended without a verdict: {:?}", name, tail));
    }
    run.set(
        "loom_apply_tx_batch",
        json!({
            "available": true,
            "kind": "exhaustive: melstf's own source compiled against loom-backed rayon / parking_lot / once_cell / dashmap; per scenario, every parallel site of apply_tx_batch in turn runs its pieces on loom threads under every way of cutting the batch into consecutive pieces; loom (DPOR, unbounded preemptions) explores every interleaving of what the pieces share through locks, lazies, once-cells and concurrent maps",
            "oracle": "verdict, header after seal(None) and recorded DOSC speed equal those of the sequential run",
            "models": models,
            "executions": total,
            "scenarios": rows,
        }),
    );
}
