//! Panic capture: every call into the code under test goes through `guard`, which turns a panic
//! (possibly raised on a rayon worker and propagated) into a value carrying the message and the
//! innermost repository frame.
use parking_lot::Mutex;
use std::collections::HashMap;
use std::panic::{catch_unwind, AssertUnwindSafe};
use std::sync::Once;

#[derive(Clone, Debug, PartialEq, Eq, Hash, PartialOrd, Ord)]
pub struct PanicInfo {
    pub msg: String,
    pub frame: String,
}

impl PanicInfo {
    /// Feature-based class: normalised message + innermost frame of the code under test.
    pub fn class(&self) -> String {
        format!("panic/{}/{}", normalise(&self.msg), self.frame)
    }
}

pub fn normalise(msg: &str) -> String {
    // digits are collapsed so that the same arithmetic failure with different operands is one class
    let mut out = String::new();
    let mut in_digits = false;
    for c in msg.chars() {
        if c.is_ascii_digit() {
            if !in_digits {
                out.push('#');
            }
            in_digits = true;
        } else {
            in_digits = false;
            out.push(c);
        }
    }
    out.chars().take(100).collect()
}

static HOOK: Once = Once::new();
// message -> frame (last seen); location -> frame cache
static LAST: Mutex<Option<HashMap<String, String>>> = Mutex::new(None);
static FRAME_CACHE: Mutex<Option<HashMap<String, String>>> = Mutex::new(None);

const SUBJECT_CRATES: &[&str] = &["melstf::", "melvm::", "melstructs::", "tip911_stakeset::", "novasmt::", "melpow::", "catvec::"];

fn innermost_subject_frame() -> String {
    let bt = std::backtrace::Backtrace::force_capture().to_string();
    if std::env::var("MCHECK_SHOW_BT").is_ok() { eprintln!("{}", bt); }
    for line in bt.lines() {
        let l = line.trim();
        // lines look like "12: melstf::state::melmint::process_swaps_for_single_pool"
        if let Some(pos) = l.find(": ") {
            let name = &l[pos + 2..];
            if name.contains("mcheck::") {
                continue;
            }
            if SUBJECT_CRATES.iter().any(|c| name.starts_with(c) || name.contains(&format!("<{}", c)) || name.contains(&format!(" {}", c))) {
                // strip generic hash suffix and closures
                let mut n = name.to_string();
                if let Some(i) = n.find("::{{closure}}") {
                    n.truncate(i);
                }
                if let Some(i) = n.rfind("::h") {
                    if n.len() - i == 19 {
                        n.truncate(i);
                    }
                }
                // drop generic arguments so the class does not depend on the store type
                let mut depth = 0;
                let mut clean = String::new();
                for c in n.chars() {
                    match c {
                        '<' => depth += 1,
                        '>' => depth -= 1,
                        _ if depth == 0 => clean.push(c),
                        _ => {}
                    }
                }
                return clean.replace("::::", "::");
            }
        }
    }
    "unknown-frame".to_string()
}

pub fn install() {
    HOOK.call_once(|| {
        std::panic::set_hook(Box::new(|info| {
            let msg = payload_msg(info.payload());
            let loc = info.location().map(|l| format!("{}:{}:{}", l.file(), l.line(), l.column())).unwrap_or_default();
            let frame = {
                let cached = FRAME_CACHE.lock().get_or_insert_with(Default::default).get(&loc).cloned();
                match cached {
                    Some(f) => f,
                    None => {
                        let f = innermost_subject_frame();
                        FRAME_CACHE.lock().get_or_insert_with(Default::default).insert(loc.clone(), f.clone());
                        f
                    }
                }
            };
            if std::env::var("MCHECK_SHOW_PANICS").is_ok() {
                eprintln!("[panic] {} @ {} in {}", msg, loc, frame);
            }
            LAST.lock().get_or_insert_with(Default::default).insert(msg, frame);
        }));
    });
}

fn payload_msg(p: &(dyn std::any::Any + Send)) -> String {
    if let Some(s) = p.downcast_ref::<&str>() {
        s.to_string()
    } else if let Some(s) = p.downcast_ref::<String>() {
        s.clone()
    } else {
        "non-string panic payload".to_string()
    }
}

/// Runs `f`, converting a panic into `Err(PanicInfo)`.
pub fn guard<T>(f: impl FnOnce() -> T) -> Result<T, PanicInfo> {
    install();
    match catch_unwind(AssertUnwindSafe(f)) {
        Ok(v) => Ok(v),
        Err(p) => {
            let msg = payload_msg(&*p);
            let frame = LAST.lock().get_or_insert_with(Default::default).get(&msg).cloned().unwrap_or_else(|| "unknown-frame".into());
            Err(PanicInfo { msg, frame })
        }
    }
}
