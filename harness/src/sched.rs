//! Controlled scheduling of validation threads at the store seam.
//!
//! The content-addressed store under every state of the harness is ours (`world::DedupCas`), so every tree lookup that the
//! code under test performs - from whatever rayon worker - passes through `DedupCas::get`.  While a `Ctl` is installed, a
//! read of one of the *scheduling keys* (the roots of the base state's coin, history, pool trees: the first node of
//! every lookup) by a worker of the scheduled pool is a scheduling point: the worker parks there until the driver grants it.
//! The driver decides when every worker is parked, or when nothing has arrived for `tau` (a worker that finished its closure
//! goes idle inside rayon, which cannot be observed).  One worker runs at a time between points, so an execution is
//! described by its sequence of choices, and the executions of a small batch are enumerated CHESS-style: all schedules
//! with 0 preemptions, then 1, then 2 ... (a preemption = granting another worker although the one that ran last is parked
//! and could continue).  What is *not* a scheduling point: anything a closure does between two lookups (locks, atomics,
//! covenant execution) - races whose window holds no tree lookup are outside this explorer (DESIGN.md §5).
use parking_lot::{Condvar, Mutex, RwLock};
use std::collections::HashMap;
use std::sync::atomic::{AtomicBool, Ordering};
use std::sync::Arc;
use std::time::{Duration, Instant};

pub static ACTIVE: AtomicBool = AtomicBool::new(false);
static CTL: RwLock<Option<Arc<Ctl>>> = parking_lot::const_rwlock(None);

struct Pend {
    ticket: u64,
    tid: usize,
    key_idx: usize,
}

struct Inner {
    pending: Vec<Pend>,
    next_ticket: u64,
    granted: Option<u64>,
    arrivals: u64,
    open: bool,
    done: bool,
}

pub struct Ctl {
    keys: HashMap<Vec<u8>, usize>,
    m: Mutex<Inner>,
    cv: Condvar,
}

/// Called by `DedupCas::get` while `ACTIVE` is set.
pub fn point(key: &[u8]) {
    let ctl = match CTL.read().clone() {
        Some(c) => c,
        None => return,
    };
    let key_idx = match ctl.keys.get(key) {
        Some(i) => *i,
        None => return,
    };
    let tid = match std::thread::current().name().and_then(|n| n.strip_prefix("sched-w").and_then(|x| x.parse::<usize>().ok())) {
        Some(t) => t,
        None => return,
    };
    let mut g = ctl.m.lock();
    if !g.open {
        return;
    }
    let ticket = g.next_ticket;
    g.next_ticket += 1;
    g.pending.push(Pend { ticket, tid, key_idx });
    g.arrivals += 1;
    ctl.cv.notify_all();
    loop {
        if !g.open {
            break;
        }
        if g.granted == Some(ticket) {
            g.granted = None;
            ctl.cv.notify_all();
            break;
        }
        ctl.cv.wait(&mut g);
    }
}

#[derive(Clone, Debug)]
pub struct Choice {
    pub n: usize,
    pub chosen: usize,
    pub preemption: bool,
    /// could another worker have been chosen although the one that ran last was parked? (alternatives cost a preemption)
    pub last_parked: bool,
    pub key_idx: usize,
    pub tid: usize,
}

pub struct Execution<R> {
    pub result: Option<R>,
    pub trace: Vec<Choice>,
    /// the prefix asked for a choice that was not there (the arrival pattern differed from the execution the prefix came from)
    pub diverged: bool,
    pub timed_out: bool,
}

/// Runs `job` on a fresh rayon pool of `threads` workers with the scheduling keys installed, following `prefix` and then the
/// default (non-preemptive) policy.
pub fn run_scheduled<R: Send + 'static>(threads: usize, keys: &[Vec<u8>], prefix: &[usize], tau: Duration, job: impl FnOnce() -> R + Send + 'static) -> Execution<R> {
    let pool = rayon::ThreadPoolBuilder::new().num_threads(threads).thread_name(|i| format!("sched-w{}", i)).build().expect("pool");
    let ctl = Arc::new(Ctl {
        keys: keys.iter().enumerate().map(|(i, k)| (k.clone(), i)).collect(),
        m: Mutex::new(Inner { pending: vec![], next_ticket: 0, granted: None, arrivals: 0, open: true, done: false }),
        cv: Condvar::new(),
    });
    *CTL.write() = Some(ctl.clone());
    ACTIVE.store(true, Ordering::Release);
    let result: Arc<Mutex<Option<R>>> = Arc::new(Mutex::new(None));
    let (r2, c2) = (result.clone(), ctl.clone());
    let runner = std::thread::spawn(move || {
        let r = pool.install(job);
        *r2.lock() = Some(r);
        let mut g = c2.m.lock();
        g.done = true;
        c2.cv.notify_all();
        drop(g);
        drop(pool);
    });
    let mut trace: Vec<Choice> = vec![];
    let mut diverged = false;
    let mut timed_out = false;
    let start = Instant::now();
    let mut last_tid: Option<usize> = None;
    {
        let mut g = ctl.m.lock();
        let mut quiet_since = Instant::now();
        loop {
            if g.done {
                break;
            }
            if start.elapsed() > Duration::from_secs(20) {
                timed_out = true;
                break;
            }
            let before = g.arrivals;
            let all_parked = g.granted.is_none() && g.pending.len() >= threads;
            if !all_parked {
                ctl.cv.wait_for(&mut g, tau / 4);
                if g.done {
                    break;
                }
                if g.arrivals != before || g.granted.is_some() {
                    quiet_since = Instant::now();
                    continue;
                }
                if g.pending.is_empty() || quiet_since.elapsed() < tau {
                    continue;
                }
            }
            // decision
            g.pending.sort_by_key(|p| (p.key_idx, p.tid, p.ticket));
            let n = g.pending.len();
            let last_pos = last_tid.and_then(|t| g.pending.iter().position(|p| p.tid == t));
            let default = last_pos.unwrap_or(0);
            let i = trace.len();
            let chosen = if i < prefix.len() {
                if prefix[i] >= n {
                    diverged = true;
                    break;
                }
                prefix[i]
            } else {
                default
            };
            let p = g.pending.remove(chosen);
            trace.push(Choice { n, chosen, preemption: last_pos.is_some() && last_pos != Some(chosen), last_parked: last_pos.is_some(), key_idx: p.key_idx, tid: p.tid });
            last_tid = Some(p.tid);
            g.granted = Some(p.ticket);
            ctl.cv.notify_all();
            quiet_since = Instant::now();
        }
        // release everybody, whatever happened
        g.open = false;
        ctl.cv.notify_all();
    }
    ACTIVE.store(false, Ordering::Release);
    runner.join().ok();
    *CTL.write() = None;
    let r = result.lock().take();
    Execution { result: r, trace, diverged, timed_out }
}

pub struct Exploration<R> {
    pub executions: u64,
    pub diverged: u64,
    pub timed_out: u64,
    pub max_points: usize,
    pub preemption_bound_completed: Option<usize>,
    pub capped: bool,
    /// results that differ from the reference, with the schedule (choice indices) that produced them
    pub deviating: Vec<(R, Vec<Choice>)>,
    pub distinct_results: usize,
}

/// Enumerates every schedule of `job` with at most `bound` preemptions (iteratively: 0, 1, ..., bound), up to `max_execs` executions.
pub fn explore<R: Send + Clone + PartialEq + 'static>(threads: usize, keys: &[Vec<u8>], bound: usize, max_execs: u64, tau: Duration, reference: &R, mk_job: &dyn Fn() -> Box<dyn FnOnce() -> R + Send + 'static>) -> Exploration<R> {
    let mut ex = Exploration { executions: 0, diverged: 0, timed_out: 0, max_points: 0, preemption_bound_completed: None, capped: false, deviating: vec![], distinct_results: 0 };
    let mut distinct: Vec<R> = vec![];
    // iterative context bounding: b = 0, 1, ..., bound; schedules with exactly fewer preemptions are re-run (cheap at these sizes)
    for b in 0..=bound {
        let mut stack: Vec<Vec<usize>> = vec![vec![]];
        while let Some(prefix) = stack.pop() {
            if ex.executions >= max_execs {
                ex.capped = true;
                break;
            }
            let x = run_scheduled(threads, keys, &prefix, tau, mk_job());
            ex.executions += 1;
            if x.timed_out {
                ex.timed_out += 1;
                continue;
            }
            if x.diverged {
                ex.diverged += 1;
                continue;
            }
            ex.max_points = ex.max_points.max(x.trace.len());
            if let Some(r) = &x.result {
                if !distinct.contains(r) {
                    distinct.push(r.clone());
                }
                if r != reference && ex.deviating.len() < 4 {
                    ex.deviating.push((r.clone(), x.trace.clone()));
                }
            }
            // children: deviate from the default at one later point
            let mut cost = x.trace.iter().take(prefix.len()).filter(|c| c.preemption).count();
            for i in prefix.len()..x.trace.len() {
                let c = &x.trace[i];
                for alt in 0..c.n {
                    if alt == c.chosen {
                        continue;
                    }
                    let extra = if c.last_parked { 1 } else { 0 };
                    if cost + extra > b {
                        continue;
                    }
                    let mut p: Vec<usize> = x.trace.iter().take(i).map(|c| c.chosen).collect();
                    p.push(alt);
                    stack.push(p);
                }
                if c.preemption {
                    cost += 1;
                }
            }
        }
        if ex.capped {
            break;
        }
        ex.preemption_bound_completed = Some(b);
        if !ex.deviating.is_empty() {
            break;
        }
    }
    ex.distinct_results = distinct.len();
    ex
}
