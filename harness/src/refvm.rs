//! Reference MelVM: interpreter, codec and weight written from DESIGN.md appendix C, deliberately
//! boring: BigUint arithmetic reduced mod 2^256, Vec-backed values, an explicit loop stack.
//! `melvm::opcode::OpCode` is used as the (pure data) instruction type only.
use melstructs::{CoinData, CoinDataHeight, CoinID, Denom, Header, Transaction};
use melvm::opcode::OpCode;
use num::{BigUint, One, Zero};
use std::collections::BTreeMap;

#[derive(Clone, PartialEq, Eq, Debug)]
pub enum RV {
    Int(BigUint),
    Bytes(Vec<u8>),
    Vector(Vec<RV>),
}

fn modulus() -> BigUint {
    BigUint::one() << 256usize
}

pub fn u256_to_big(x: ethnum::U256) -> BigUint {
    BigUint::from_bytes_be(&x.to_be_bytes())
}

impl RV {
    pub fn int(n: u128) -> RV {
        RV::Int(BigUint::from(n))
    }
    pub fn truthy(&self) -> bool {
        match self {
            RV::Int(i) => !i.is_zero(),
            _ => true,
        }
    }
    fn as_int(self) -> Option<BigUint> {
        match self {
            RV::Int(i) => Some(i),
            _ => None,
        }
    }
    fn as_u16(self) -> Option<usize> {
        let i = self.as_int()?;
        if i > BigUint::from(65535u32) {
            None
        } else {
            Some(i.iter_u32_digits().next().unwrap_or(0) as usize)
        }
    }
    fn as_bytes(self) -> Option<Vec<u8>> {
        match self {
            RV::Bytes(b) => Some(b),
            _ => None,
        }
    }
    fn as_vec(self) -> Option<Vec<RV>> {
        match self {
            RV::Vector(v) => Some(v),
            _ => None,
        }
    }
    fn low_byte(self) -> Option<u8> {
        let i = self.as_int()?;
        Some(i.to_bytes_le()[0])
    }
    pub fn from_real(v: &melvm::Value) -> RV {
        match v {
            melvm::Value::Int(i) => RV::Int(u256_to_big(*i)),
            melvm::Value::Bytes(b) => RV::Bytes(b.clone().into()),
            melvm::Value::Vector(v) => {
                let items: Vec<melvm::Value> = v.clone().into();
                RV::Vector(items.iter().map(RV::from_real).collect())
            }
        }
    }
    pub fn to_real(&self) -> melvm::Value {
        match self {
            RV::Int(i) => {
                let mut b = [0u8; 32];
                let be = i.to_bytes_be();
                b[32 - be.len()..].copy_from_slice(&be);
                melvm::Value::Int(ethnum::U256::from_be_bytes(b))
            }
            RV::Bytes(b) => melvm::Value::Bytes(b.as_slice().into()),
            RV::Vector(v) => melvm::Value::Vector(v.iter().map(|x| x.to_real()).collect::<Vec<_>>().into()),
        }
    }
    /// Short printable form.
    pub fn show(&self) -> String {
        match self {
            RV::Int(i) => format!("{}", i),
            RV::Bytes(b) => {
                if b.len() > 40 {
                    format!("b[{}]:{}..", b.len(), hex::encode(&b[..8]))
                } else {
                    format!("b:{}", hex::encode(b))
                }
            }
            RV::Vector(v) => {
                if v.len() > 12 {
                    format!("v[{}]", v.len())
                } else {
                    format!("[{}]", v.iter().map(|x| x.show()).collect::<Vec<_>>().join(","))
                }
            }
        }
    }
}

#[derive(Clone, Debug, PartialEq, Eq)]
pub struct LoopFrame {
    pub begin: usize,
    /// index of the last body instruction; may be begin-1 for an empty body
    pub end_plus_one: usize,
    pub left: u32,
}

#[derive(Clone, Debug)]
pub struct RefVm {
    pub prog: Vec<OpCode>,
    pub pc: usize,
    pub stack: Vec<RV>,
    pub heap: BTreeMap<u16, RV>,
    pub loops: Vec<LoopFrame>,
    pub steps: u64,
}

fn b2i(b: bool) -> RV {
    RV::int(if b { 1 } else { 0 })
}

impl RefVm {
    pub fn new(prog: Vec<OpCode>, heap: BTreeMap<u16, RV>) -> Self {
        RefVm {
            prog,
            pc: 0,
            stack: vec![],
            heap,
            loops: vec![],
            steps: 0,
        }
    }

    pub fn done(&self) -> bool {
        self.pc >= self.prog.len()
    }

    /// Runs to the end; `None` on failure.  `max_steps` guards the harness only.
    pub fn run(&mut self, max_steps: u64) -> Result<Option<RV>, &'static str> {
        while !self.done() {
            if self.steps >= max_steps {
                return Err("step cap");
            }
            if self.step().is_none() {
                return Ok(None);
            }
        }
        Ok(self.stack.pop())
    }

    fn pop(&mut self) -> Option<RV> {
        self.stack.pop()
    }

    fn bin_int(&mut self, f: impl Fn(BigUint, BigUint) -> Option<BigUint>) -> Option<()> {
        let x = self.pop()?;
        let y = self.pop()?;
        let r = f(x.as_int()?, y.as_int()?)?;
        self.stack.push(RV::Int(r % modulus()));
        Some(())
    }

    /// Executes one instruction.  Returns None on failure (loop bookkeeping still runs, as the
    /// failure ends execution anyway).
    pub fn step(&mut self) -> Option<()> {
        self.steps += 1;
        let r = self.exec();
        self.after_instruction();
        r
    }

    fn after_instruction(&mut self) {
        // while the innermost active loop's body has been left
        while let Some(top) = self.loops.last().cloned() {
            if self.pc >= top.end_plus_one {
                if self.pc == top.end_plus_one && top.left > 0 {
                    let l = self.loops.last_mut().unwrap();
                    l.left -= 1;
                    self.pc = top.begin;
                    break;
                } else {
                    self.loops.pop();
                }
            } else {
                break;
            }
        }
    }

    fn exec(&mut self) -> Option<()> {
        let op = self.prog.get(self.pc)?.clone();
        self.pc += 1;
        let m = modulus();
        match op {
            OpCode::Noop => {}
            OpCode::Add => self.bin_int(|x, y| Some(x + y))?,
            OpCode::Sub => self.bin_int(|x, y| Some(modulus() + x - y))?,
            OpCode::Mul => self.bin_int(|x, y| Some(x * y))?,
            OpCode::Div => self.bin_int(|x, y| if y.is_zero() { None } else { Some(x / y) })?,
            OpCode::Rem => self.bin_int(|x, y| if y.is_zero() { None } else { Some(x % y) })?,
            OpCode::Exp(k) => {
                let x = self.pop()?.as_int()?;
                let y = self.pop()?.as_int()?;
                // fails when the exponent has more than k+1 significant bits
                if y.bits() > k as u64 + 1 {
                    return None;
                }
                self.stack.push(RV::Int(x.modpow(&y, &m)));
            }
            OpCode::And => self.bin_int(|x, y| Some(x & y))?,
            OpCode::Or => self.bin_int(|x, y| Some(x | y))?,
            OpCode::Xor => self.bin_int(|x, y| Some(x ^ y))?,
            OpCode::Not => {
                let x = self.pop()?.as_int()?;
                self.stack.push(RV::Int((modulus() - BigUint::one()) - x));
            }
            OpCode::Eql => {
                let x = self.pop()?;
                let y = self.pop()?;
                let (x, y) = (x.as_int()?, y.as_int()?);
                self.stack.push(b2i(x == y));
            }
            OpCode::Lt => {
                let x = self.pop()?;
                let y = self.pop()?;
                let (x, y) = (x.as_int()?, y.as_int()?);
                self.stack.push(b2i(x < y));
            }
            OpCode::Gt => {
                let x = self.pop()?;
                let y = self.pop()?;
                let (x, y) = (x.as_int()?, y.as_int()?);
                self.stack.push(b2i(x > y));
            }
            OpCode::Shl => {
                let x = self.pop()?;
                let y = self.pop()?;
                let (x, y) = (x.as_int()?, y.as_int()?);
                // implementation-defined point: the shift amount is reduced mod 256
                let sh = (y % BigUint::from(256u32)).iter_u32_digits().next().unwrap_or(0) as usize;
                self.stack.push(RV::Int((x << sh) % m));
            }
            OpCode::Shr => {
                let x = self.pop()?;
                let y = self.pop()?;
                let (x, y) = (x.as_int()?, y.as_int()?);
                let sh = (y % BigUint::from(256u32)).iter_u32_digits().next().unwrap_or(0) as usize;
                self.stack.push(RV::Int(x >> sh));
            }
            OpCode::Hash(n) => {
                let b = self.pop()?.as_bytes()?;
                if b.len() > n as usize {
                    return None;
                }
                self.stack.push(RV::Bytes(blake3::hash(&b).as_bytes().to_vec()));
            }
            OpCode::SigEOk(n) => {
                let msg = self.pop()?;
                let pk = self.pop()?;
                let sig = self.pop()?;
                // types and the length bound first ("any ... type error ... makes execution fail", "length-bounded ... signature
                // checking"): whatever the key looks like, an operand of the wrong type or a message over the bound is a failure.
                // (Until session 4 the reference followed the executor, which answered 0 for an over-long key before it had
                // looked at the other two operands: DESIGN §7-AJ.)
                let pk = pk.as_bytes()?;
                let msg = msg.as_bytes()?;
                let sig = sig.as_bytes()?;
                if msg.len() > n as usize {
                    return None;
                }
                if pk.len() > 32 {
                    self.stack.push(b2i(false));
                    return Some(());
                }
                if pk.len() != 32 {
                    return None;
                }
                if sig.len() > 64 {
                    self.stack.push(b2i(false));
                    return Some(());
                }
                let ok = if sig.len() != 64 {
                    false
                } else {
                    let mut s = [0u8; 64];
                    s.copy_from_slice(&sig);
                    let mut p = [0u8; 32];
                    p.copy_from_slice(&pk);
                    match ed25519_consensus::VerificationKey::try_from(p) {
                        Ok(vk) => vk.verify(&ed25519_consensus::Signature::from(s), &msg).is_ok(),
                        Err(_) => false,
                    }
                };
                self.stack.push(b2i(ok));
            }
            OpCode::Store => {
                let a = self.pop()?.as_u16()?;
                let v = self.pop()?;
                self.heap.insert(a as u16, v);
            }
            OpCode::Load => {
                let a = self.pop()?.as_u16()?;
                let v = self.heap.get(&(a as u16))?.clone();
                self.stack.push(v);
            }
            OpCode::StoreImm(a) => {
                let v = self.pop()?;
                self.heap.insert(a, v);
            }
            OpCode::LoadImm(a) => {
                let v = self.heap.get(&a)?.clone();
                self.stack.push(v);
            }
            OpCode::VRef => {
                let v = self.pop()?;
                let i = self.pop()?;
                let i = i.as_u16()?;
                let v = v.as_vec()?;
                self.stack.push(v.get(i)?.clone());
            }
            OpCode::VSet => {
                let v = self.pop()?;
                let i = self.pop()?;
                let x = self.pop()?;
                let i = i.as_u16()?;
                let mut v = v.as_vec()?;
                *v.get_mut(i)? = x;
                self.stack.push(RV::Vector(v));
            }
            OpCode::VAppend => {
                let a = self.pop()?;
                let b = self.pop()?;
                let mut a = a.as_vec()?;
                a.extend(b.as_vec()?);
                self.stack.push(RV::Vector(a));
            }
            OpCode::VSlice => {
                let v = self.pop()?;
                let b = self.pop()?;
                let e = self.pop()?;
                let b = b.as_u16()?;
                let e = e.as_u16()?;
                let v = v.as_vec()?;
                if e > v.len() || e < b {
                    self.stack.push(RV::Vector(vec![]));
                } else {
                    self.stack.push(RV::Vector(v[b..e].to_vec()));
                }
            }
            OpCode::VLength => {
                let v = self.pop()?.as_vec()?;
                self.stack.push(RV::int(v.len() as u128));
            }
            OpCode::VEmpty => self.stack.push(RV::Vector(vec![])),
            OpCode::VPush => {
                let v = self.pop()?;
                let x = self.pop()?;
                let mut v = v.as_vec()?;
                v.push(x);
                self.stack.push(RV::Vector(v));
            }
            OpCode::VCons => {
                let x = self.pop()?;
                let v = self.pop()?;
                let mut v = v.as_vec()?;
                v.insert(0, x);
                self.stack.push(RV::Vector(v));
            }
            OpCode::BEmpty => self.stack.push(RV::Bytes(vec![])),
            OpCode::BPush => {
                let v = self.pop()?;
                let x = self.pop()?;
                let mut v = v.as_bytes()?;
                v.push(x.low_byte()?);
                self.stack.push(RV::Bytes(v));
            }
            OpCode::BCons => {
                let x = self.pop()?;
                let v = self.pop()?;
                let mut v = v.as_bytes()?;
                v.insert(0, x.low_byte()?);
                self.stack.push(RV::Bytes(v));
            }
            OpCode::BRef => {
                let v = self.pop()?;
                let i = self.pop()?;
                let i = i.as_u16()?;
                let v = v.as_bytes()?;
                self.stack.push(RV::int(*v.get(i)? as u128));
            }
            OpCode::BSet => {
                let v = self.pop()?;
                let i = self.pop()?;
                let x = self.pop()?;
                let i = i.as_u16()?;
                let mut v = v.as_bytes()?;
                let slot = v.get_mut(i)?;
                *slot = x.low_byte()?;
                self.stack.push(RV::Bytes(v));
            }
            OpCode::BAppend => {
                let a = self.pop()?;
                let b = self.pop()?;
                let mut a = a.as_bytes()?;
                a.extend(b.as_bytes()?);
                self.stack.push(RV::Bytes(a));
            }
            OpCode::BSlice => {
                let v = self.pop()?;
                let b = self.pop()?;
                let e = self.pop()?;
                let b = b.as_u16()?;
                let e = e.as_u16()?;
                let v = v.as_bytes()?;
                if e > v.len() || e < b {
                    self.stack.push(RV::Bytes(vec![]));
                } else {
                    self.stack.push(RV::Bytes(v[b..e].to_vec()));
                }
            }
            OpCode::BLength => {
                let v = self.pop()?.as_bytes()?;
                self.stack.push(RV::int(v.len() as u128));
            }
            OpCode::Bez(g) => {
                let x = self.pop()?;
                if x == RV::Int(BigUint::zero()) {
                    self.pc += g as usize;
                }
            }
            OpCode::Bnz(g) => {
                let x = self.pop()?;
                if x != RV::Int(BigUint::zero()) {
                    self.pc += g as usize;
                }
            }
            OpCode::Jmp(g) => self.pc += g as usize,
            OpCode::Loop(i, n) => {
                if i == 0 {
                    self.pc += n as usize;
                } else if n == 0 {
                    // a loop whose body is empty: running nothing i times is nothing, and no loop is open afterwards.  (Until
                    // session 4 the reference followed the executor here, which left a stale loop frame behind: DESIGN §7-AH.)
                } else {
                    let end_plus_one = self.pc + n as usize;
                    if let Some(outer) = self.loops.last() {
                        // the body's last index must not exceed the enclosing loop's last index
                        if end_plus_one > outer.end_plus_one {
                            return None;
                        }
                    }
                    self.loops.push(LoopFrame {
                        begin: self.pc,
                        end_plus_one,
                        left: i as u32 - 1,
                    });
                }
            }
            OpCode::ItoB => {
                let x = self.pop()?.as_int()?;
                let be = x.to_bytes_be();
                let mut b = vec![0u8; 32];
                b[32 - be.len()..].copy_from_slice(&be);
                self.stack.push(RV::Bytes(b));
            }
            OpCode::BtoI => {
                let b = self.pop()?.as_bytes()?;
                if b.len() != 32 {
                    return None;
                }
                self.stack.push(RV::Int(BigUint::from_bytes_be(&b)));
            }
            OpCode::TypeQ => {
                let x = self.pop()?;
                self.stack.push(RV::int(match x {
                    RV::Int(_) => 0,
                    RV::Bytes(_) => 1,
                    RV::Vector(_) => 2,
                }));
            }
            OpCode::PushB(b) => self.stack.push(RV::Bytes(b)),
            OpCode::PushI(i) | OpCode::PushIC(i) => self.stack.push(RV::Int(u256_to_big(i))),
            OpCode::Dup => {
                let x = self.pop()?;
                self.stack.push(x.clone());
                self.stack.push(x);
            }
        }
        Some(())
    }
}

// ---------------------------------------------------------------------------------------------
// environment heap (appendix C)

fn rv_bytes(b: &[u8]) -> RV {
    RV::Bytes(b.to_vec())
}

fn denom_bytes(d: Denom) -> Vec<u8> {
    match d {
        Denom::Mel => b"m".to_vec(),
        Denom::Sym => b"s".to_vec(),
        Denom::Erg => b"d".to_vec(),
        Denom::NewCustom => vec![],
        Denom::Custom(h) => h.0 .0.to_vec(),
    }
}

fn rv_coindata(cd: &CoinData) -> RV {
    RV::Vector(vec![rv_bytes(&cd.covhash.0 .0), RV::int(cd.value.0), RV::Bytes(denom_bytes(cd.denom)), rv_bytes(&cd.additional_data)])
}

pub fn rv_header(h: &Header) -> RV {
    RV::Vector(vec![
        RV::int(h.network as u8 as u128),
        rv_bytes(&h.previous.0),
        RV::int(h.height.0 as u128),
        rv_bytes(&h.history_hash.0),
        rv_bytes(&h.coins_hash.0),
        rv_bytes(&h.transactions_hash.0),
        RV::int(h.fee_pool.0),
        RV::int(h.fee_multiplier),
        RV::int(h.dosc_speed),
        rv_bytes(&h.pools_hash.0),
        rv_bytes(&h.stakes_hash.0),
    ])
}

pub fn rv_tx(tx: &Transaction) -> RV {
    RV::Vector(vec![
        RV::int(tx.kind as u8 as u128),
        RV::Vector(tx.inputs.iter().map(|c| RV::Vector(vec![rv_bytes(&c.txhash.0 .0), RV::int(c.index as u128)])).collect()),
        RV::Vector(tx.outputs.iter().map(rv_coindata).collect()),
        RV::int(tx.fee.0),
        RV::Vector(tx.covenants.iter().map(|c| rv_bytes(c)).collect()),
        rv_bytes(&tx.data),
        RV::Vector(tx.sigs.iter().map(|c| rv_bytes(c)).collect()),
    ])
}

pub struct RefEnv {
    pub parent_coinid: CoinID,
    pub parent_cdh: CoinDataHeight,
    /// the position among the inputs as it is (not cut to the 8 bits melvm's CovenantEnv holds)
    pub spender_index: u64,
    pub last_header: Header,
}

pub fn env_heap(tx: &Transaction, env: Option<&RefEnv>) -> BTreeMap<u16, RV> {
    let mut h = BTreeMap::new();
    h.insert(0, rv_tx(tx));
    h.insert(1, rv_bytes(&tx.hash_nosigs().0 .0));
    if let Some(e) = env {
        h.insert(2, rv_bytes(&e.parent_coinid.txhash.0 .0));
        h.insert(3, RV::int(e.parent_coinid.index as u128));
        h.insert(4, rv_bytes(&e.parent_cdh.coin_data.covhash.0 .0));
        h.insert(5, RV::int(e.parent_cdh.coin_data.value.0));
        h.insert(6, RV::Bytes(denom_bytes(e.parent_cdh.coin_data.denom)));
        h.insert(7, rv_bytes(&e.parent_cdh.coin_data.additional_data));
        h.insert(8, RV::int(e.parent_cdh.height.0 as u128));
        h.insert(9, RV::int(e.spender_index as u128));
        h.insert(10, rv_header(&e.last_header));
    }
    h
}

/// Reference evaluation of a covenant on (tx, env): Some(truthy) or None if it fails / is cut off.
pub fn eval_covenant(prog: &[OpCode], tx: &Transaction, env: Option<&RefEnv>, max_steps: u64) -> Option<bool> {
    let mut vm = RefVm::new(prog.to_vec(), env_heap(tx, env));
    match vm.run(max_steps) {
        Ok(Some(v)) => Some(v.truthy()),
        _ => None,
    }
}

// ---------------------------------------------------------------------------------------------
// reference codec

/// (opcode byte, operand bytes) table; None = not an instruction.
fn fixed_operand_len(b: u8) -> Option<usize> {
    Some(match b {
        0x09 => 0,
        0x10..=0x14 => 0,
        0x15 => 1,
        0x20..=0x28 => 0,
        0x30 | 0x32 => 2,
        0x40 | 0x41 => 0,
        0x42 | 0x43 => 2,
        0x50..=0x57 => 0,
        0x70..=0x77 => 0,
        0xa0..=0xa2 => 2,
        0xb0 => 4,
        0xc0..=0xc2 => 0,
        0xf1 => 32,
        0xff => 0,
        _ => return None,
    })
}

fn simple(b: u8) -> OpCode {
    use OpCode::*;
    match b {
        0x09 => Noop,
        0x10 => Add,
        0x11 => Sub,
        0x12 => Mul,
        0x13 => Div,
        0x14 => Rem,
        0x20 => And,
        0x21 => Or,
        0x22 => Xor,
        0x23 => Not,
        0x24 => Eql,
        0x25 => Lt,
        0x26 => Gt,
        0x27 => Shl,
        0x28 => Shr,
        0x40 => Load,
        0x41 => Store,
        0x50 => VRef,
        0x51 => VAppend,
        0x52 => VEmpty,
        0x53 => VLength,
        0x54 => VSlice,
        0x55 => VSet,
        0x56 => VPush,
        0x57 => VCons,
        0x70 => BRef,
        0x71 => BAppend,
        0x72 => BEmpty,
        0x73 => BLength,
        0x74 => BSlice,
        0x75 => BSet,
        0x76 => BPush,
        0x77 => BCons,
        0xc0 => ItoB,
        0xc1 => BtoI,
        0xc2 => TypeQ,
        0xff => Dup,
        _ => unreachable!(),
    }
}

/// Reference decoder: None = not a valid encoding.
pub fn ref_decode(mut b: &[u8]) -> Option<Vec<OpCode>> {
    let mut out = vec![];
    while let Some((&op, rest)) = b.split_first() {
        b = rest;
        match op {
            0xf0 => {
                let (&n, rest) = b.split_first()?;
                if rest.len() < n as usize {
                    return None;
                }
                out.push(OpCode::PushB(rest[..n as usize].to_vec()));
                b = &rest[n as usize..];
            }
            0xf2 => {
                let (&n, rest) = b.split_first()?;
                if n > 32 || rest.len() < n as usize {
                    return None;
                }
                let digits = &rest[..n as usize];
                // canonical: no leading zero byte
                if n > 0 && digits[0] == 0 {
                    return None;
                }
                let mut buf = [0u8; 32];
                buf[32 - n as usize..].copy_from_slice(digits);
                out.push(OpCode::PushIC(ethnum::U256::from_be_bytes(buf)));
                b = &rest[n as usize..];
            }
            _ => {
                let n = fixed_operand_len(op)?;
                if b.len() < n {
                    return None;
                }
                let arg = &b[..n];
                b = &b[n..];
                let u16at = |i: usize| u16::from_be_bytes([arg[i], arg[i + 1]]);
                out.push(match op {
                    0x15 => OpCode::Exp(arg[0]),
                    0x30 => OpCode::Hash(u16at(0)),
                    0x32 => OpCode::SigEOk(u16at(0)),
                    0x42 => OpCode::LoadImm(u16at(0)),
                    0x43 => OpCode::StoreImm(u16at(0)),
                    0xa0 => OpCode::Jmp(u16at(0)),
                    0xa1 => OpCode::Bez(u16at(0)),
                    0xa2 => OpCode::Bnz(u16at(0)),
                    0xb0 => OpCode::Loop(u16at(0), u16at(2)),
                    0xf1 => {
                        let mut buf = [0u8; 32];
                        buf.copy_from_slice(arg);
                        OpCode::PushI(ethnum::U256::from_be_bytes(buf))
                    }
                    _ => simple(op),
                });
            }
        }
    }
    Some(out)
}

/// Reference encoder: None = not representable.
pub fn ref_encode(ops: &[OpCode]) -> Option<Vec<u8>> {
    let mut out = vec![];
    for op in ops {
        use OpCode::*;
        match op {
            Exp(k) => out.extend([0x15, *k]),
            Hash(n) => {
                out.push(0x30);
                out.extend(n.to_be_bytes())
            }
            SigEOk(n) => {
                out.push(0x32);
                out.extend(n.to_be_bytes())
            }
            LoadImm(n) => {
                out.push(0x42);
                out.extend(n.to_be_bytes())
            }
            StoreImm(n) => {
                out.push(0x43);
                out.extend(n.to_be_bytes())
            }
            Jmp(n) => {
                out.push(0xa0);
                out.extend(n.to_be_bytes())
            }
            Bez(n) => {
                out.push(0xa1);
                out.extend(n.to_be_bytes())
            }
            Bnz(n) => {
                out.push(0xa2);
                out.extend(n.to_be_bytes())
            }
            Loop(i, n) => {
                out.push(0xb0);
                out.extend(i.to_be_bytes());
                out.extend(n.to_be_bytes())
            }
            PushB(b) => {
                if b.len() > 255 {
                    return None;
                }
                out.push(0xf0);
                out.push(b.len() as u8);
                out.extend(b)
            }
            PushI(i) => {
                out.push(0xf1);
                out.extend(i.to_be_bytes())
            }
            PushIC(i) => {
                out.push(0xf2);
                let be = i.to_be_bytes();
                let lz = be.iter().take_while(|x| **x == 0).count();
                out.push((32 - lz) as u8);
                out.extend(&be[lz..]);
            }
            other => {
                let b = (0u16..=255).map(|b| b as u8).find(|b| fixed_operand_len(*b) == Some(0) && &simple(*b) == other)?;
                out.push(b)
            }
        }
    }
    Some(out)
}

// ---------------------------------------------------------------------------------------------
// reference weight (appendix C), memoised per suffix so that it is polynomial

fn base_weight(op: &OpCode) -> u128 {
    use OpCode::*;
    match op {
        Noop => 1,
        Add | Sub | And | Or | Xor | Not | Eql | Lt | Gt | Shl | Shr | Dup | TypeQ | VLength | BLength | VEmpty | BEmpty | StoreImm(_)
        | LoadImm(_) => 4,
        Mul | Div | Rem => 6,
        Exp(k) => 6 + 10 * (*k as u128 + 1),
        Hash(n) => 50 + *n as u128,
        SigEOk(n) => 100 + *n as u128,
        Store | Load | VRef | BRef | VPush | BPush | VCons | BCons | BAppend => 10,
        VSet | BSet => 20,
        VAppend | VSlice | BSlice | ItoB | BtoI => 50,
        Bez(_) | Bnz(_) | Jmp(_) | PushB(_) | PushI(_) | PushIC(_) => 1,
        Loop(_, _) => unreachable!(),
    }
}

/// W(ops[lo..hi]) where a loop header weighs 1 + iters × W(body truncated at hi), and the body's
/// instructions are weighed again as ordinary successors.  All sums saturate.
pub fn ref_weight(ops: &[OpCode]) -> u128 {
    let mut memo: std::collections::HashMap<(usize, usize), u128> = Default::default();
    fn w(ops: &[OpCode], lo: usize, hi: usize, memo: &mut std::collections::HashMap<(usize, usize), u128>) -> u128 {
        if lo >= hi {
            return 0;
        }
        if let Some(v) = memo.get(&(lo, hi)) {
            return *v;
        }
        let mut sum = 0u128;
        for i in lo..hi {
            let d = match &ops[i] {
                OpCode::Loop(it, n) => {
                    let body_hi = (i + 1 + *n as usize).min(hi);
                    w(ops, i + 1, body_hi, memo).saturating_mul(*it as u128).saturating_add(1)
                }
                o => base_weight(o),
            };
            sum = sum.saturating_add(d);
        }
        memo.insert((lo, hi), sum);
        sum
    }
    w(ops, 0, ops.len(), &mut memo)
}
