mod child;
mod findings;
mod alphabet;
mod guard;
mod props;
mod refpow;
mod refstf;
mod refvm;
mod report;
mod loomrun;
mod sched;
mod stf;
mod vmrun;
mod world;

#[global_allocator]
static ALLOC: child::CountingAlloc = child::CountingAlloc;

use report::Run;

fn usage() -> ! {
    eprintln!("usage: mcheck <C01..C20> [--tier quick|thorough] [--replay <file>]");
    std::process::exit(2);
}

fn main() {
    let args: Vec<String> = std::env::args().collect();
    if args.len() < 2 {
        usage();
    }
    if args[1] == "__child" {
        child::apply_limits();
        child::enable_counting();
        match args.get(2).map(|s| s.as_str()) {
            Some("vm") => props::c11::child_main(&args[3..]),
            Some("stf") => props::c09::child_main(&args[3..]),
            Some("c03") => props::c03::child_main(&args[3..]),
            Some("c10exec") => props::c10::child_main(&args[3..]),
            _ => std::process::exit(2),
        }
        return;
    }
    let id = args[1].clone();
    let mut tier = std::env::var("VERIF_TIER").unwrap_or_else(|_| "quick".into());
    let mut replay: Option<String> = None;
    let mut i = 2;
    while i < args.len() {
        match args[i].as_str() {
            "--tier" => {
                tier = args.get(i + 1).cloned().unwrap_or_else(|| usage());
                i += 2;
            }
            "--replay" => {
                replay = Some(args.get(i + 1).cloned().unwrap_or_else(|| usage()));
                i += 2;
            }
            _ => usage(),
        }
    }
    if tier != "quick" && tier != "thorough" {
        usage();
    }
    guard::install();
    let threads: usize = std::env::var("MCHECK_THREADS").ok().and_then(|s| s.parse().ok()).unwrap_or(16);
    rayon::ThreadPoolBuilder::new().num_threads(threads).stack_size(16 << 20).build_global().ok();
    let run: &'static Run = Box::leak(Box::new(Run::new(&id, &tier)));
    if let Some(path) = replay {
        let body: serde_json::Value = match std::fs::read_to_string(&path).ok().and_then(|s| serde_json::from_str(&s).ok()) {
            Some(v) => v,
            None => {
                eprintln!("cannot read replay file {}", path);
                std::process::exit(2);
            }
        };
        let case = &body["replay"];
        match id.as_str() {
            "C10" => props::c10::replay(&run, case),
            "C11" => props::c11::replay(&run, case),
            "C12" => props::c12::replay(&run, case),
            "C17" => props::c17::replay(&run, case),
            _ => {
                // state-graph checks: re-execute the recorded action path through the engine and its oracles
                if !stf::replay_path(run, case) {
                    eprintln!("no single-case replay for this artefact of {}: re-run the check (enumeration is deterministic)", id);
                    std::process::exit(2);
                }
            }
        }
        let n = run.violation_count();
        for c in run.violation_classes() {
            println!("replayed violation class: {}", c);
        }
        if n == 0 {
            println!("replay: no oracle reported anything on this path");
        }
        std::process::exit(if n > 0 { 1 } else { 0 });
    }
    let body = std::panic::catch_unwind(std::panic::AssertUnwindSafe(|| match id.as_str() {
        "C01" => props::c01::run(run),
        "C02" => props::c02::run(run),
        "C15" => props::c15::run(run),
        "C16" => props::c16::run(run),
        "C20" => props::c20::run(run),
        "C03" => props::c03::run(run),
        "C06" => props::c06::run(run),
        "C07" => props::c07::run(run),
        "C08" => props::c08::run(run),
        "C19" => props::c19::run(run),
        "C04" => props::c04::run(run),
        "C05" => props::c05::run(run),
        "C13" => props::c13::run(run),
        "C18" => props::c18::run(run),
        "C09" => props::c09::run(run),
        "C10" => props::c10::run(run),
        "C11" => props::c11::run(run),
        "C12" => props::c12::run(run),
        "C14" => props::c14::run(run),
        "C17" => props::c17::run(run),
        _ => {
            eprintln!("unknown or unimplemented property {}", id);
            std::process::exit(2);
        }
    }));
    if let Err(p) = body {
        let msg = p.downcast_ref::<String>().cloned().or_else(|| p.downcast_ref::<&str>().map(|s| s.to_string())).unwrap_or_default();
        eprintln!("MACHINERY-FAILURE check={} the harness itself panicked: {}", id, msg);
        std::process::exit(2);
    }
    std::process::exit(run.finish());
}
