//! C03 — batch and block application is order-independent and deterministic.
//! For every base state and every set S of alphabet transactions with |S| <= 3 (thorough 4):
//! all |S|! orderings as one batch, every topological one-at-a-time order, rayon pools of size
//! 1/2/4/16, and apply_block over HashSets rebuilt with fresh hashers.
use crate::alphabet::*;
use crate::guard::guard;
use crate::props::e1::*;
use crate::report::Run;
use crate::stf::*;
use crate::world::*;
use melstructs::{Block, Denom, Header, NetID, ProposerAction, Transaction, TxKind};
use melvm::{opcode::OpCode, Covenant};
use rayon::prelude::*;
use serde_json::json;
use std::collections::{BTreeSet, HashSet};

#[derive(Clone, PartialEq, Eq, Debug)]
enum Outcome {
    Rejected,
    Panicked(String),
    Accepted { none: Header, some: Header },
}

fn action() -> ProposerAction {
    ProposerAction { fee_multiplier_delta: 3, reward_dest: cov_true_n(9).hash() }
}

fn apply_as_batch(u: &St, txs: &[Transaction]) -> Outcome {
    let mut c = u.clone();
    match guard(|| c.apply_tx_batch(txs)) {
        Err(p) => Outcome::Panicked(p.class()),
        Ok(Err(_)) => Outcome::Rejected,
        Ok(Ok(())) => match guard(|| (c.clone().seal(None).header(), c.clone().seal(Some(action())).header())) {
            Ok((none, some)) => Outcome::Accepted { none, some },
            Err(p) => Outcome::Panicked(p.class()),
        },
    }
}

fn apply_one_by_one(u: &St, txs: &[Transaction]) -> Outcome {
    let mut c = u.clone();
    for t in txs {
        match guard(|| c.apply_tx(t)) {
            Err(p) => return Outcome::Panicked(p.class()),
            Ok(Err(_)) => return Outcome::Rejected,
            Ok(Ok(())) => {}
        }
    }
    match guard(|| (c.clone().seal(None).header(), c.clone().seal(Some(action())).header())) {
        Ok((none, some)) => Outcome::Accepted { none, some },
        Err(p) => Outcome::Panicked(p.class()),
    }
}

fn permutations(n: usize) -> Vec<Vec<usize>> {
    fn rec(cur: &mut Vec<usize>, used: &mut Vec<bool>, n: usize, out: &mut Vec<Vec<usize>>) {
        if cur.len() == n {
            out.push(cur.clone());
            return;
        }
        for i in 0..n {
            if !used[i] {
                used[i] = true;
                cur.push(i);
                rec(cur, used, n, out);
                cur.pop();
                used[i] = false;
            }
        }
    }
    let mut out = vec![];
    rec(&mut vec![], &mut vec![false; n], n, &mut out);
    out
}

/// Is `order` a topological order of S (every transaction after the members of S whose outputs it spends)?
fn topological(s: &[Transaction], order: &[usize]) -> bool {
    for (pos, &i) in order.iter().enumerate() {
        for inp in &s[i].inputs {
            for (later_pos, &j) in order.iter().enumerate() {
                if later_pos > pos && s[j].hash_nosigs() == inp.txhash {
                    return false;
                }
            }
        }
    }
    true
}

fn diff_fields(a: &Outcome, b: &Outcome) -> String {
    match (a, b) {
        (Outcome::Accepted { none: n1, some: s1 }, Outcome::Accepted { none: n2, some: s2 }) => {
            let mut d: BTreeSet<&str> = header_diff(n1, n2).into_iter().collect();
            d.extend(header_diff(s1, s2));
            d.into_iter().collect::<Vec<_>>().join(",")
        }
        (Outcome::Accepted { .. }, _) | (_, Outcome::Accepted { .. }) => "acceptance".into(),
        _ => "panic-vs-reject".into(),
    }
}

fn kinds_of(s: &[Transaction]) -> String {
    let k: BTreeSet<String> = s.iter().map(|t| format!("{}", t.kind)).collect();
    k.into_iter().collect::<Vec<_>>().join("+")
}

/// Transaction pool for the subsets of one base state: a thinned alphabet plus chained spends.
fn subset_alphabet(n: &Node, cfg: &AlphaCfg, limit: usize) -> Vec<(String, Transaction)> {
    let alpha = tx_alphabet(n, cfg);
    let mut v: Vec<(String, Transaction)> = vec![];
    // one member per template name (simplest first); template number i takes its (i mod k)-th instance so that
    // different templates spend different coins (independent members) while some still collide
    let mut groups: Vec<(String, Vec<(String, Transaction)>)> = vec![];
    for (l, t, _) in &alpha {
        let pre = l.split(|c| c == '(' || c == '[').next().unwrap_or("").to_string();
        match groups.iter_mut().find(|g| g.0 == pre) {
            Some(g) => g.1.push((l.clone(), t.clone())),
            None => groups.push((pre, vec![(l.clone(), t.clone())])),
        }
    }
    // at most three invalid members (a set containing one is rejected whatever else it holds), placed last
    let invalid = ["unbal+1", "unbal+1+newtoken", "nocov", "dbl", "missing-input", "value-above-max", "wrongcov", "underpaid-zero-outs", "256-outputs"];
    let mut bad = vec![];
    for (i, (pre, members)) in groups.iter().enumerate() {
        if invalid.contains(&pre.as_str()) {
            if bad.len() < 3 {
                bad.push(members[i % members.len()].clone());
            }
        } else {
            v.push(members[i % members.len()].clone());
            // a second instance on another coin for the most common templates
            if members.len() > 1 && ["xfer", "split", "swap"].contains(&pre.as_str()) {
                v.push(members[(i + 1) % members.len()].clone());
            }
        }
    }
    let keep = limit.saturating_sub(bad.len() + 4);
    v.truncate(keep);
    // dependent members: b spends a's first output, c spends b's
    let mut chains = vec![];
    for (l, a) in v.iter().take(6) {
        if let Some(o0) = a.outputs.first() {
            if o0.covhash == addr_true() && o0.denom == Denom::Mel && a.kind != TxKind::Faucet || (a.kind == TxKind::Faucet && o0.denom == Denom::Mel) {
                let b = tx_t(TxKind::Normal, vec![a.output_coinid(0)], vec![out_t(o0.value.0, Denom::Mel)], 0, vec![0xc4]);
                let c = tx_t(TxKind::Normal, vec![b.output_coinid(0)], vec![out_t(o0.value.0, Denom::Mel)], 0, vec![0xc5]);
                chains.push((format!("chain({})", l), b));
                chains.push((format!("chain2({})", l), c));
            }
        }
    }
    // the MEL change output (index 1) of a stake transaction, spent in the same block
    for (l, a) in v.iter() {
        if a.kind == TxKind::Stake && a.outputs.len() >= 2 && a.outputs[1].denom == Denom::Mel {
            let b = tx_t(TxKind::Normal, vec![a.output_coinid(1)], vec![out_t(a.outputs[1].value.0, Denom::Mel)], 0, vec![0xc8]);
            chains.push((format!("spend-change-of({})", l), b));
        }
    }
    // put the chains right after their bases so that small subsets contain them
    let mut out = vec![];
    for (i, x) in v.into_iter().enumerate() {
        out.push(x);
        if i == 0 {
            out.extend(chains.iter().take(2).cloned());
        }
        if i == 1 {
            out.extend(chains.iter().skip(2).take(2).cloned());
        }
    }
    // the stake and the spend of its change output always belong to the alphabet, right after the first transfer
    if let Some((sl, st)) = alpha.iter().find(|x| x.1.kind == TxKind::Stake).map(|x| (x.0.clone(), x.1.clone())) {
        out.retain(|x| x.1.kind != TxKind::Stake && !x.0.starts_with("spend-change-of"));
        if st.outputs.len() >= 2 {
            let b = tx_t(TxKind::Normal, vec![st.output_coinid(1)], vec![out_t(st.outputs[1].value.0, Denom::Mel)], 0, vec![0xc8]);
            out.insert(1.min(out.len()), (format!("spend-change-of({})", sl), b));
        }
        out.insert(1.min(out.len()), (sl, st));
    }
    // the invalid members close the alphabet (all of them: the chains and the stake inserted above must not push them out)
    out.truncate(limit.saturating_sub(bad.len()));
    out.extend(bad);
    out
}

fn check_set(run: &Run, base: &Node, u: &St, parent: &Sealed, names: &[String], s: &[Transaction], pools: &[rayon::ThreadPool]) {
    let perms = permutations(s.len());
    let replay = json!({"base_path": base.replay_json(None), "set": names, "txs": s.iter().map(tx_json).collect::<Vec<_>>()});
    let outcomes: Vec<Outcome> = perms
        .iter()
        .map(|p| {
            let txs: Vec<Transaction> = p.iter().map(|i| s[*i].clone()).collect();
            run.transition();
            apply_as_batch(u, &txs)
        })
        .collect();
    run.validated_add(perms.len() as u64);
    let first = &outcomes[0];
    for (k, o) in outcomes.iter().enumerate() {
        if o != first {
            run.violation(
                "C03",
                format!("order-dependent/{}/{}", diff_fields(first, o), kinds_of(s)),
                format!("set {{{}}} after [{}]: order {:?} gives a different result than order {:?}", names.join(", "), base.path_str(), perms[k], perms[0]),
                replay.clone(),
            );
            break;
        }
    }
    match first {
        Outcome::Accepted { .. } => run.outcome(&format!("set{}:accepted", s.len())),
        Outcome::Rejected => run.outcome(&format!("set{}:rejected", s.len())),
        Outcome::Panicked(_) => run.outcome(&format!("set{}:panicked(reported under C09)", s.len())),
    }
    if matches!(first, Outcome::Rejected) && s.len() >= 2 {
        // the other direction: a set that every batch order rejects must not be acceptable one transaction at a time either
        for p in perms.iter().filter(|p| topological(s, p)) {
            let txs: Vec<Transaction> = p.iter().map(|i| s[*i].clone()).collect();
            run.transition();
            let o = apply_one_by_one(u, &txs);
            run.validated();
            if matches!(o, Outcome::Accepted { .. }) {
                run.violation(
                    "C03",
                    format!("batch-rejects-what-one-at-a-time-accepts/{}/height0={}", kinds_of(s), base.model.height == 0),
                    format!("set {{{}}} after [{}]: rejected as a batch in every order, but accepted one at a time in topological order {:?}", names.join(", "), base.path_str(), p),
                    replay.clone(),
                );
                break;
            }
        }
    }
    if let Outcome::Accepted { none, .. } = first {
        // one transaction at a time, in every topological order
        for p in perms.iter().filter(|p| topological(s, p)) {
            let txs: Vec<Transaction> = p.iter().map(|i| s[*i].clone()).collect();
            run.transition();
            let o = apply_one_by_one(u, &txs);
            run.validated();
            if &o != first {
                run.violation(
                    "C03",
                    format!("batch-vs-one-at-a-time/{}/{}/height0={}", diff_fields(first, &o), kinds_of(s), base.model.height == 0),
                    format!("set {{{}}} after [{}]: applying one at a time in topological order {:?} differs from the batch", names.join(", "), base.path_str(), p),
                    replay.clone(),
                );
                break;
            }
        }
        // thread-pool sizes: every order under every pool size (how rayon splits a batch into sequential chunks depends on both)
        for pool in pools {
            for p in perms.iter() {
                let txs: Vec<Transaction> = p.iter().map(|i| s[*i].clone()).collect();
                run.transition();
                let o = pool.install(|| apply_as_batch(u, &txs));
                run.validated();
                if &o != first {
                    run.violation(
                        "C03",
                        format!("pool-size-dependent/{}/{}", diff_fields(first, &o), kinds_of(s)),
                        format!("set {{{}}} after [{}]: order {:?} on a rayon pool of {} threads gives a different result", names.join(", "), base.path_str(), p, pool.current_num_threads()),
                        replay.clone(),
                    );
                    break;
                }
            }
        }
        // the block built from this set is accepted identically whatever iteration order its HashSet has
        if let Ok(blk) = guard(|| {
            let mut c = u.clone();
            c.apply_tx_batch(s).ok()?;
            Some(c.seal(None).to_block())
        }) {
            if let Some(blk) = blk {
                if &blk.header != none {
                    // the same batch applied to the same state and sealed the same way, twice in this process
                    run.violation(
                        "C03",
                        format!("same-batch-sealed-twice-gives-different-headers/{}/{}", header_diff(none, &blk.header).join(","), kinds_of(s)),
                        format!("set {{{}}} after [{}]: applying the batch and sealing it a second time gives another header", names.join(", "), base.path_str()),
                        replay.clone(),
                    );
                }
                for round in 0..3 {
                    let mut hs: HashSet<Transaction> = HashSet::new();
                    // insertion order varies as well
                    let order = &perms[(round * 5 + 1) % perms.len()];
                    for i in order {
                        hs.insert(s[*i].clone());
                    }
                    let b2 = Block { header: blk.header, transactions: hs, proposer_action: None };
                    run.transition();
                    let r = guard(|| parent.apply_block(&b2).map(|x| x.header()));
                    run.validated();
                    match r {
                        Ok(Ok(h)) if h == blk.header => {}
                        other => {
                            run.violation(
                                "C03",
                                format!("apply_block-rejects-honest-set/{}", kinds_of(s)),
                                format!("block of {{{}}} after [{}] built by sealing is not accepted by apply_block over a rebuilt HashSet (round {}): {:?}", names.join(", "), base.path_str(), round, other.map(|r| r.map(|h| h.hash().to_string()).map_err(|e| e.to_string()))),
                                replay.clone(),
                            );
                            break;
                        }
                    }
                }
            }
        }
    }
}

/// Base states: (sealed parent, open child with an empty block).
fn base_states(run: &Run, thorough: bool) -> Vec<(Node, Node)> {
    let mut bases: Vec<(Node, Node)> = vec![];
    let scratch = Run::new("scratch", "quick");
    let eng = Engine::new(&scratch);
    for net in [NetID::Custom02, NetID::Custom08] {
        let (_w, root) = root(net, 0, true);
        // depth-limited exploration collecting sealed states, then their opened children
        let mut cfg = AlphaCfg::base();
        cfg.adversarial = false;
        cfg.pairs = false;
        cfg.per_denom = 1;
        cfg.max_txs_per_block = 1;
        cfg.swaps = true;
        cfg.deposits = true;
        cfg.seal_actions = vec![None];
        let collected = parking_lot::Mutex::new(vec![]);
        let c2 = cfg.clone();
        let acts = move |n: &Node| actions(n, &c2);
        let visit = |n: &Node| {
            if !n.is_open() {
                collected.lock().push(n.clone());
            }
        };
        bfs(&eng, vec![root], if thorough { 6 } else { 3 }, 100_000, &acts, &visit);
        let sealed = canonical_order(collected.into_inner());
        for s in sealed.into_iter().take(if thorough { 40 } else { 8 }) {
            if let StepOut::Next(o) = eng.step(&s, &Action::Open) {
                bases.push((s, o));
            }
        }
        if !thorough && net == NetID::Custom02 {
            continue;
        }
    }
    run.set("base_states", json!(bases.len()));
    bases
}

/// Height-0 corner: covenants that read the previous header inside the genesis block.
fn genesis_block_corner(run: &Run, pools: &[rayon::ThreadPool]) {
    // a covenant that is satisfied iff last_header.coins_hash differs from the all-zero hash (reads the synthesised header)
    // satisfied iff last_header.transactions_hash is the root of the empty transaction tree, i.e. iff the header the covenant is
    // shown was synthesised from a state whose block is still empty
    let reads_header = Covenant::from_ops(&[OpCode::PushI(5u8.into()), OpCode::LoadImm(10), OpCode::VRef, OpCode::BtoI, OpCode::PushI(0u8.into()), OpCode::Eql]);
    let w = world(NetID::Custom02, out(reads_header.hash(), 1_000_000, Denom::Mel), 0, 0, Default::default());
    let u = w.genesis.clone();
    let zz = melstructs::CoinID::zero_zero();
    let a = mktx(TxKind::Normal, vec![zz], vec![out(reads_header.hash(), 500_000, Denom::Mel), out_t(500_000, Denom::Mel)], 0, vec![reads_header.to_bytes()], vec![]);
    let b = mktx(TxKind::Normal, vec![a.output_coinid(0)], vec![out_t(500_000, Denom::Mel)], 0, vec![reads_header.to_bytes()], vec![1]);
    let c = tx_t(TxKind::Normal, vec![a.output_coinid(1)], vec![out_t(500_000, Denom::Mel)], 0, vec![2]);
    let f = tx_t(TxKind::Faucet, vec![], vec![out_t(77, Denom::Mel)], 0, vec![3]);
    let sealed_dummy = w.genesis.clone().seal(None);
    let model = model_of(&sealed_dummy, &[zz], &[], &[]);
    let base = Node::new_root(Real::Open(u.clone()), crate::refstf::RefState { height: 0, ..model }, "genesis-block(height 0, header-reading covenant)".to_string(), json!({"root": "height-0 genesis with a header-reading covenant"}), vec![]);
    let all = vec![("a".to_string(), a), ("b=spend(a.0)".to_string(), b), ("c=spend(a.1)".to_string(), c), ("faucet".to_string(), f)];
    for mask in 1u32..(1 << all.len()) {
        let names: Vec<String> = (0..all.len()).filter(|i| mask & (1 << i) != 0).map(|i| all[i].0.clone()).collect();
        let s: Vec<Transaction> = (0..all.len()).filter(|i| mask & (1 << i) != 0).map(|i| all[i].1.clone()).collect();
        // apply_block needs a sealed parent; at height 0 there is none, so that part is skipped by passing the dummy (headers will not match and the
        // block test is not meaningful) -> use check without block: replicate by calling with parent = sealed_dummy is wrong; so only batch/sequence here.
        check_set_no_block(run, &base, &u, &names, &s, pools);
    }
}

fn check_set_no_block(run: &Run, base: &Node, u: &St, names: &[String], s: &[Transaction], _pools: &[rayon::ThreadPool]) {
    let perms = permutations(s.len());
    let replay = json!({"base": "height-0 genesis with header-reading covenant", "set": names, "txs": s.iter().map(tx_json).collect::<Vec<_>>()});
    let outcomes: Vec<Outcome> = perms
        .iter()
        .map(|p| {
            run.transition();
            apply_as_batch(u, &p.iter().map(|i| s[*i].clone()).collect::<Vec<_>>())
        })
        .collect();
    run.validated_add(perms.len() as u64);
    for (k, o) in outcomes.iter().enumerate() {
        if o != &outcomes[0] {
            run.violation("C03", format!("order-dependent/{}/{}/height0", diff_fields(&outcomes[0], o), kinds_of(s)), format!("set {{{}}} in the genesis block: order {:?} differs from {:?}", names.join(", "), perms[k], perms[0]), replay.clone());
            break;
        }
    }
    if let Outcome::Accepted { .. } = &outcomes[0] {
        for p in perms.iter().filter(|p| topological(s, p)) {
            run.transition();
            let o = apply_one_by_one(u, &p.iter().map(|i| s[*i].clone()).collect::<Vec<_>>());
            run.validated();
            if o != outcomes[0] {
                run.violation(
                    "C03",
                    format!("batch-vs-one-at-a-time/{}/{}/height0=true", diff_fields(&outcomes[0], &o), kinds_of(s)),
                    format!("set {{{}}} after [{}]: applying one at a time in topological order {:?} differs from the batch", names.join(", "), base.path_str(), p),
                    replay.clone(),
                );
                break;
            }
        }
    }
}

/// DoscMint corner: two mints of different speed (each claiming its full reward under the previous block's record) and a
/// normal transfer in one block - every subset, every order, as a batch, one at a time and through apply_block.
fn doscmint_corner(run: &Run, pools: &[rayon::ThreadPool]) {
    use crate::refstf::{ref_dosc_to_erg, ref_reward, Tip910Hash};
    let scratch = Run::new("scratch", "quick");
    let eng = Engine::new(&scratch);
    let (_w, rootn) = root(NetID::Custom02, 0, false);
    let open1 = match eng.step(&rootn, &Action::Open) {
        StepOut::Next(x) => x,
        _ => return,
    };
    let split = tx_t(
        TxKind::Normal,
        vec![melstructs::CoinID::zero_zero()],
        vec![out_t(400_000_000, Denom::Mel), out_t(300_000_000, Denom::Mel), out_t(100_000_000, Denom::Mel), out_t(100_000_000, Denom::Mel), out_t(100_000_000, Denom::Mel)],
        0,
        vec![],
    );
    let n1 = match eng.step(&open1, &Action::Batch { label: "split".into(), txs: vec![split.clone()], expect_ok: true }) {
        StepOut::Next(x) => x,
        _ => return,
    };
    let sealed1 = match eng.step(&n1, &Action::Seal(None)) {
        StepOut::Next(x) => x,
        _ => return,
    };
    let open2 = match eng.step(&sealed1, &Action::Open) {
        StepOut::Next(x) => x,
        _ => return,
    };
    let (u, p) = match (&open2.real, &sealed1.real) {
        (Real::Open(u), Real::Sealed(p)) => (u.clone(), p.clone()),
        _ => return,
    };
    let hdr1 = p.header();
    let height = open2.model.height;
    let mint = |i: u8, d: u32| -> Transaction {
        let coin = split.output_coinid(i);
        let pz = tmelcrypt::hash_keyed(hdr1.hash(), stdcode::serialize(&coin).unwrap());
        let proof = melpow::Proof::generate(&pz, d as usize, Tip910Hash).to_bytes();
        let speed = 100u128 * (1u128 << d); // age 1
        let max = ref_dosc_to_erg(height, ref_reward(speed, hdr1.dosc_speed, d, true)).unwrap_or(0);
        tx_t(TxKind::DoscMint, vec![coin], vec![out_t(split.outputs[i as usize].value.0, Denom::Mel), out_t(max, Denom::Erg)], 0, stdcode::serialize(&(d, proof)).unwrap())
    };
    // both mints demonstrate a speed above the recorded one (10^6): 100 * 2^15 and 100 * 2^14
    let fast = mint(0, 15);
    let slow = mint(1, 14);
    // two ordinary payments pad the batch: a parallel fold splits a batch into chunks, and both mints have to be able to land in
    // one chunk (in either order) as well as in different ones
    let normal = |i: u8| tx_t(TxKind::Normal, vec![split.output_coinid(i)], vec![out_t(100_000_000, Denom::Mel)], 0, vec![7, i]);
    let all = vec![
        ("mint-fast(d=15,full reward)".to_string(), fast),
        ("mint-slow(d=14,full reward)".to_string(), slow),
        ("xfer-a".to_string(), normal(2)),
        ("xfer-b".to_string(), normal(3)),
    ];
    (1u32..16).into_par_iter().for_each(|mask| {
        // sets of up to three members, and the full set of four
        if mask.count_ones() > 3 && mask != 15 {
            return;
        }
        let names: Vec<String> = (0..4).filter(|i| mask & (1 << i) != 0).map(|i| all[i].0.clone()).collect();
        let s: Vec<Transaction> = (0..4).filter(|i| mask & (1 << i) != 0).map(|i| all[i].1.clone()).collect();
        run.state();
        // the full set goes through the 1-thread pool only (pools[0]): that is where both mints can share a chunk of the fold
        check_set(run, &open2, &u, &p, &names, &s, if mask == 15 { &pools[..1] } else { pools });
    });
}

/// Large batches: a payment chain of L transactions (each spends its predecessor's output) presented in a stated family of orders.
/// Not all L! orders can be enumerated; the family (forward, reverse, evens-then-odds, rotations by every k in a boundary-dense set)
/// contains, for every cut position, an order that puts a spender before its creator across that cut.
fn large_batch_family(run: &Run, thorough: bool) {
    let (_w, rootn) = root(NetID::Custom02, 0, false);
    let scratch = Run::new("scratch", "quick");
    let eng = Engine::new(&scratch);
    let open = match eng.step(&rootn, &Action::Open) {
        StepOut::Next(x) => x,
        _ => return,
    };
    let (u, parent) = match (&open.real, &rootn.real) {
        (Real::Open(u), Real::Sealed(p)) => (u.clone(), p.clone()),
        _ => return,
    };
    for len in if thorough { vec![300usize, 1100, 2100] } else { vec![300usize, 1100] } {
        let mut chain: Vec<Transaction> = vec![];
        let mut prev = melstructs::CoinID::zero_zero();
        for i in 0..len {
            let t = tx_t(TxKind::Normal, vec![prev], vec![out_t(1_000_000_000, Denom::Mel)], 0, (i as u32).to_be_bytes().to_vec());
            prev = t.output_coinid(0);
            chain.push(t);
        }
        run.transition();
        let reference = apply_as_batch(&u, &chain);
        run.validated();
        if !matches!(reference, Outcome::Accepted { .. }) {
            run.violation("C03", "large-batch/forward-order-rejected".into(), format!("a payment chain of {} transactions in dependency order is not accepted as one batch", len), json!({"chain_length": len}));
            continue;
        }
        let mut orders: Vec<(String, Vec<usize>)> = vec![("reverse".into(), (0..len).rev().collect()), ("evens-then-odds".into(), (0..len).filter(|i| i % 2 == 0).chain((0..len).filter(|i| i % 2 == 1)).collect())];
        let mut ks: Vec<usize> = (1..=17).collect();
        for b in [32usize, 64, 100, 128, 200, 250, 256, 500, 512, 1000, 1024, 2000, 2048] {
            ks.extend([b - 1, b, b + 1]);
        }
        for k in ks {
            if k < len {
                orders.push((format!("rotate-{}", k), (k..len).chain(0..k).collect()));
                orders.push((format!("reverse-rotate-{}", k), (0..len).rev().map(|i| (i + k) % len).collect()));
            }
        }
        run.states_add(orders.len() as u64);
        orders.par_iter().for_each(|(name, o)| {
            let txs: Vec<Transaction> = o.iter().map(|i| chain[*i].clone()).collect();
            run.transition();
            let r = apply_as_batch(&u, &txs);
            run.validated();
            if r != reference {
                let kind = if name.starts_with("reverse-rotate") { "reverse-rotate" } else if name.starts_with("rotate") { "rotate" } else { name.as_str() };
                run.violation(
                    "C03",
                    format!("large-batch/order-dependent/{}/{}", diff_fields(&reference, &r), kind),
                    format!("a payment chain of {} transactions presented in order '{}' gives a different result than in dependency order", len, name),
                    json!({"chain_length": len, "order": name}),
                );
            } else {
                run.outcome("large-batch:same");
            }
        });
        // one conflict inside the large batch: a rival of chain member k (it spends the same coin) placed at position j.  How a large
        // batch is cut into pieces depends on its length and on the pool; whatever the cut, the batch consumes a coin twice
        if len <= if thorough { 1100 } else { 300 } {
            let sizes = [1usize, 2, 4, 16];
            let lpools: Vec<rayon::ThreadPool> = sizes.iter().map(|n| rayon::ThreadPoolBuilder::new().num_threads(*n).build().unwrap()).collect();
            for k in [3usize, len / 2, len - 2] {
                let rival = tx_t(TxKind::Normal, chain[k].inputs.clone(), vec![out_t(1_000_000_000, Denom::Mel)], 0, vec![0xba, 0xd0]);
                for j in [0usize, k + 1, len / 2 + 22, len / 4, len] {
                    let mut txs = chain.clone();
                    txs.insert(j.min(len), rival.clone());
                    let verdicts: Vec<Outcome> = lpools
                        .iter()
                        .map(|pl| {
                            run.transition();
                            let o = pl.install(|| apply_as_batch(&u, &txs));
                            run.validated();
                            o
                        })
                        .collect();
                    for (o, n) in verdicts.iter().zip(sizes.iter()) {
                        if o != &verdicts[0] {
                            run.violation(
                                "C03",
                                format!("large-batch/pool-size-dependent/conflict/{}", diff_fields(&verdicts[0], o)),
                                format!("a payment chain of {} transactions with a rival spender of member {}'s coin at position {}: the verdict on a pool of {} workers differs from the 1-worker verdict", len, k, j, n),
                                json!({"chain_length": len, "rival_of": k, "rival_position": j, "workers": n}),
                            );
                        }
                    }
                    run.outcome(match &verdicts[0] {
                        Outcome::Rejected => "large-batch-with-conflict:rejected",
                        Outcome::Accepted { .. } => "large-batch-with-conflict:accepted(reported under C02)",
                        Outcome::Panicked(_) => "large-batch-with-conflict:panicked(reported under C09)",
                    });
                }
            }
        }
        // the block holding the chain is accepted whatever order its HashSet iterates in
        if let Outcome::Accepted { none, .. } = &reference {
            for round in 0..3 {
                let hs: HashSet<Transaction> = chain.iter().cloned().collect();
                let blk = Block { header: *none, transactions: hs, proposer_action: None };
                run.transition();
                let r = guard(|| parent.apply_block(&blk).map(|s| s.header()));
                run.validated();
                if !matches!(&r, Ok(Ok(h)) if h == none) {
                    run.violation("C03", "large-batch/apply_block-rejects-honest-block".into(), format!("a block of a {}-transaction payment chain was not accepted (round {}): {:?}", len, round, r.map(|x| x.map(|_| ()).map_err(|e| e.to_string()))), json!({"chain_length": len}));
                    break;
                }
            }
        }
    }
}

/// Free-running repetitions (SAMPLING of thread schedules, labelled so in the evidence): transactions whose inputs share an
/// index-sensitive covenant are validated 40 times on pools of 2, 4, 8 and 16 threads; every run must give the 1-thread verdict.
/// Interleavings inside one transaction's validation cannot be enumerated with the tools available (DESIGN.md §5).
fn repeatability_sampling(run: &Run, thorough: bool) {
    let w = world_mel(NetID::Custom02, 10_000_000, 0);
    let g = w.genesis.clone().seal(None);
    let mut u = g.next_unsealed();
    let newsig = cov_new(1);
    let idx0 = Covenant::from_ops(&[OpCode::LoadImm(9), OpCode::PushI(0u8.into()), OpCode::Eql]);
    let n = 16usize;
    let mut outs: Vec<melstructs::CoinData> = (0..n).map(|i| out(newsig.hash(), 1000 + i as u128, Denom::Mel)).collect();
    outs.extend((0..n).map(|i| out(idx0.hash(), 2000 + i as u128, Denom::Mel)));
    let total: u128 = outs.iter().map(|o| o.value.0).sum();
    outs.push(out_t(10_000_000 - total, Denom::Mel));
    let fund = tx_t(TxKind::Normal, vec![melstructs::CoinID::zero_zero()], outs, 0, vec![]);
    if u.apply_tx(&fund).is_err() {
        run.outcome("sampling:funding-rejected");
        return;
    }
    let s1 = u.seal(None);
    let st = s1.next_unsealed();
    // (a) 16 inputs under the new-style signature covenant, one signature in slot 0; (b) 16 inputs under `spender index == 0`
    let sum_a: u128 = (0..n).map(|i| 1000 + i as u128).sum();
    let mut a = mktx(TxKind::Normal, (0..n).map(|i| fund.output_coinid(i as u8)).collect(), vec![out_t(sum_a, Denom::Mel)], 0, vec![newsig.to_bytes()], vec![]);
    a.sigs = vec![key(1).1.sign(&a.hash_nosigs().0).into()];
    let sum_b: u128 = (0..n).map(|i| 2000 + i as u128).sum();
    let b = mktx(TxKind::Normal, (0..n).map(|i| fund.output_coinid((n + i) as u8)).collect(), vec![out_t(sum_b, Denom::Mel)], 0, vec![idx0.to_bytes()], vec![]);
    let reps = if thorough { 200 } else { 40 };
    for (name, tx) in [("16 inputs, new-style signature covenant, one signature", a), ("16 inputs, covenant `spender index == 0`", b)] {
        let one = rayon::ThreadPoolBuilder::new().num_threads(1).build().unwrap();
        let reference = one.install(|| apply_as_batch(&st, std::slice::from_ref(&tx)));
        for threads in [2usize, 4, 8, 16] {
            let pool = rayon::ThreadPoolBuilder::new().num_threads(threads).build().unwrap();
            let mut deviating = 0;
            for _ in 0..reps {
                run.transition();
                let o = pool.install(|| apply_as_batch(&st, std::slice::from_ref(&tx)));
                run.validated();
                if o != reference {
                    deviating += 1;
                }
            }
            run.outcome(&format!("sampling:{}-threads:{}", threads, if deviating == 0 { "all-equal" } else { "deviating" }));
            if deviating > 0 {
                run.violation(
                    "C03",
                    format!("verdict-depends-on-schedule/{}", diff_fields(&reference, &Outcome::Rejected).split(',').next().unwrap_or("acceptance")),
                    format!("{}: {} of {} runs on a {}-thread pool differ from the 1-thread result", name, deviating, reps, threads),
                    json!({"tx": tx_json(&tx), "threads": threads, "repetitions": reps}),
                );
                break;
            }
        }
    }
    run.set("schedule_sampling", json!({"what": "free-running repetitions of multi-input validations on 2/4/8/16-thread pools", "repetitions_per_pool": reps, "label": "sampling, not exhaustive"}));
}

// ---------------------------------------------------------------------------------------------
// schedules of the validation threads, enumerated at the store seam (sched.rs)

/// Verdict and both sealed headers of a batch application, as one string (computed after the scheduled section).
fn sched_digest(r: &Option<St>) -> String {
    match r {
        None => "rejected".into(),
        Some(c) => match guard(|| (c.clone().seal(None).header(), c.clone().seal(Some(action())).header())) {
            Ok((none, some)) => format!("accepted:{}:{}", none.hash(), some.hash()),
            Err(p) => format!("panicked:{}", p.class()),
        },
    }
}

/// Small batches whose members contend for something (the same coin, the same faucet marker, an output of another member), each
/// validated on a rayon pool with one worker per transaction under *every* schedule of the workers' tree lookups with at most
/// `bound` preemptions.  Oracle: the verdict and the resulting headers are those of the 1-thread pool.
fn contended_sets_under_every_schedule(run: &Run, thorough: bool) {
    use std::time::Duration;
    let w = world_mel(NetID::Custom02, 10_000_000, 0);
    let g = w.genesis.clone().seal(None);
    let mut u = g.next_unsealed();
    let mut outs: Vec<melstructs::CoinData> = (0..8).map(|i| out_t(1000 + i as u128, Denom::Mel)).collect();
    outs.push(out_t(10_000_000 - outs.iter().map(|o| o.value.0).sum::<u128>(), Denom::Mel));
    let fund = tx_t(TxKind::Normal, vec![melstructs::CoinID::zero_zero()], outs, 0, vec![]);
    if u.apply_tx(&fund).is_err() {
        run.outcome("schedules:funding-rejected");
        return;
    }
    let parent = u.seal(None);
    let st = parent.next_unsealed();
    let c = |i: u8| fund.output_coinid(i);
    let spend = |ins: Vec<melstructs::CoinID>, v: u128, tag: u8| tx_t(TxKind::Normal, ins, vec![out_t(v, Denom::Mel)], 0, vec![0xe0, tag]);
    let r1 = spend(vec![c(0)], 1000, 1);
    let r2 = spend(vec![c(0)], 1000, 2);
    let a = spend(vec![c(1)], 1001, 3);
    let b = spend(vec![a.output_coinid(0)], 1001, 4);
    let t1 = spend(vec![c(2), c(3)], 2005, 5);
    let t2 = spend(vec![c(4), c(3)], 2007, 6);
    let by = spend(vec![c(5)], 1005, 7);
    let f = tx_t(TxKind::Faucet, vec![], vec![out_t(5, Denom::Mel)], 0, b"sched".to_vec());
    let mut f2 = f.clone();
    f2.sigs = vec![bytes::Bytes::from(vec![9u8; 64])];
    let fs = tx_t(TxKind::Faucet, vec![c(6)], vec![out_t(1006, Denom::Mel), out_t(7, Denom::Mel)], 0, b"sched-spends".to_vec());
    let rs = spend(vec![c(6)], 1006, 8);
    let mut sets: Vec<(&str, Vec<Transaction>)> = vec![
        ("two spenders of one coin", vec![r1.clone(), r2.clone()]),
        ("one faucet twice (second copy carries a stray signature)", vec![f.clone(), f2.clone()]),
        ("a payment and the spend of its output", vec![a.clone(), b.clone()]),
        ("the spend first, then the payment it depends on", vec![b.clone(), a.clone()]),
        ("two two-input payments sharing their second input", vec![t1.clone(), t2.clone()]),
        ("a faucet that spends a coin and a rival spender of that coin", vec![fs.clone(), rs.clone()]),
        ("two independent payments", vec![a.clone(), by.clone()]),
    ];
    if thorough {
        sets.push(("two spenders of one coin around a bystander", vec![r1.clone(), by.clone(), r2.clone()]));
        sets.push(("one faucet twice around a bystander", vec![f.clone(), by.clone(), f2.clone()]));
        sets.push(("payment, bystander, spend of the payment's output", vec![a.clone(), by.clone(), b.clone()]));
        sets.push(("two two-input payments sharing an input, and a bystander", vec![t1.clone(), t2.clone(), by.clone()]));
    } else {
        sets.push(("two spenders of one coin around a bystander", vec![r1.clone(), by.clone(), r2.clone()]));
    }
    // scheduling keys: the first node of every lookup in the trees the validation phases read
    let mut keys: Vec<Vec<u8>> = vec![];
    for s in [&parent, &st.verif_peek()] {
        for k in [s.raw_coins_smt().root_hash(), s.raw_history_smt().root_hash(), s.raw_pools_smt().root_hash()] {
            if k != [0u8; 32] && !keys.contains(&k.to_vec()) {
                keys.push(k.to_vec());
            }
        }
    }
    let one = rayon::ThreadPoolBuilder::new().num_threads(1).build().unwrap();
    let tau = Duration::from_micros(1500);
    let mut rows = vec![];
    let mut total_execs = 0u64;
    for (name, txs) in sets {
        let reference = one.install(|| apply_as_batch(&st, &txs));
        let threads = txs.len();
        let bound = if txs.len() == 2 { if thorough { 3 } else { 2 } } else if thorough { 2 } else { 1 };
        let (st2, txs2) = (st.clone(), txs.clone());
        let mk = move || -> Box<dyn FnOnce() -> Option<St> + Send + 'static> {
            let (s, t) = (st2.clone(), txs2.clone());
            Box::new(move || {
                let mut c = s;
                match guard(|| c.apply_tx_batch(&t)) {
                    Ok(Ok(())) => Some(c),
                    _ => None,
                }
            })
        };
        let ref_digest = match &reference {
            Outcome::Rejected => "rejected".to_string(),
            Outcome::Panicked(c) => format!("panicked:{}", c),
            Outcome::Accepted { none, some } => format!("accepted:{}:{}", none.hash(), some.hash()),
        };
        let mk_digest = || -> Box<dyn FnOnce() -> String + Send + 'static> {
            let job = mk();
            Box::new(move || {
                // only the batch application runs under the scheduler; the seals behind the digest run after the scheduled
                // section is over for this worker's purposes (no other worker is active any more)
                let r = job();
                crate::sched::ACTIVE.store(false, std::sync::atomic::Ordering::Release);
                sched_digest(&r)
            })
        };
        let ex = crate::sched::explore(threads, &keys, bound, if thorough { 6000 } else { 700 }, tau, &ref_digest, &mk_digest);
        total_execs += ex.executions;
        run.transitions_add(ex.executions);
        run.validated_add(ex.executions - ex.diverged - ex.timed_out);
        run.outcome_n(&format!("schedules:{}", if ref_digest.starts_with("accepted") { "accepted-set" } else { "rejected-set" }), ex.executions);
        if ex.capped {
            run.cap_hit(&format!("store-seam schedules of [{}]: execution cap reached at preemption bound {:?}", name, ex.preemption_bound_completed));
        }
        rows.push(json!({"set": name, "transactions": txs.len(), "workers": threads, "reference": ref_digest.split(':').next().unwrap_or(""), "preemption_bound_completed": ex.preemption_bound_completed, "schedules": ex.executions, "scheduling_points_max": ex.max_points, "distinct_results": ex.distinct_results, "replays_that_diverged": ex.diverged, "timed_out": ex.timed_out}));
        if let Some((got, trace)) = ex.deviating.first() {
            run.violation(
                "C03",
                format!("verdict-depends-on-schedule/store-seam/{}", if ref_digest.starts_with("accepted") { "1-thread-accepts" } else if got.starts_with("accepted") { "1-thread-rejects-some-schedule-accepts" } else { "other" }),
                format!("batch [{}] after [genesis[Custom02] ; funding block ; open]: under the schedule {:?} of its {} validation workers (choices at successive tree lookups; {} preemption(s)) the result is {} - on a 1-thread pool it is {}", name, trace.iter().map(|c| c.chosen).collect::<Vec<_>>(), threads, trace.iter().filter(|c| c.preemption).count(), got.split(':').next().unwrap_or(""), ref_digest.split(':').next().unwrap_or("")),
                json!({"set": name, "txs": txs.iter().map(tx_json).collect::<Vec<_>>(), "workers": threads, "schedule": trace.iter().map(|c| json!({"choices": c.n, "chosen": c.chosen, "worker": c.tid, "key": c.key_idx, "preemption": c.preemption})).collect::<Vec<_>>(), "result": got, "one_thread_result": ref_digest}),
            );
        }
        if ex.timed_out > 0 {
            run.outcome_n("schedules:execution-timed-out", ex.timed_out);
        }
    }
    run.set(
        "store_seam_schedules",
        json!({
            "kind": "controlled scheduler over the real apply_tx_batch: workers of a rayon pool (one per transaction) park at the first node of every tree lookup (roots of the coin / history / pool trees, read through the harness's own store); every schedule with at most the listed number of preemptions is executed (iterative context bounding); a decision is taken when all workers are parked or nothing has arrived for 1.5 ms (a worker that went idle inside rayon cannot be observed)",
            "not_scheduling_points": "what a closure does between two lookups (locks, atomics, covenant execution)",
            "oracle": "verdict and sealed headers equal those of the 1-thread pool",
            "executions": total_execs,
            "sets": rows,
        }),
    );
}

// ---------------------------------------------------------------------------------------------
// "... or on the process that runs it": verdicts of a process that has already validated other things

/// One evaluation of the process-history corner: a single transaction applied as a batch to the corner's open state, or a block
/// holding a single transaction applied to the corner's parent under a given header.
#[derive(Clone)]
enum HistMember {
    Batch(Transaction),
    Block(Header, Transaction),
}

/// The corner: block 1 of a Custom02 chain funds coins under the new-style and the legacy signature covenant of key 1 and under the
/// always-true covenant; the members are evaluated against block 2.  Every family holds a valid transaction and twins of it that
/// differ only in their signatures (same `hash_nosigs`) - what a memo keyed by the signature-free hash cannot tell apart.
fn history_corner() -> Option<(St, Sealed, Vec<(String, HistMember)>)> {
    let w = world_mel(NetID::Custom02, 10_000_000, 0);
    let g = w.genesis.clone().seal(None);
    let mut u = g.next_unsealed();
    let (newsig, legacy) = (cov_new(1), cov_legacy(1));
    let outs = vec![out(newsig.hash(), 1000, Denom::Mel), out(legacy.hash(), 2000, Denom::Mel), out_t(3000, Denom::Mel), out_t(4000, Denom::Mel), out(newsig.hash(), 1500, Denom::Mel), out_t(10_000_000 - 11_500, Denom::Mel)];
    let fund = tx_t(TxKind::Normal, vec![melstructs::CoinID::zero_zero()], outs, 0, vec![]);
    u.apply_tx(&fund).ok()?;
    let parent = u.seal(None);
    let st = parent.next_unsealed();
    let mut members: Vec<(String, HistMember)> = vec![];
    let flip = |sig: &bytes::Bytes| {
        let mut v = sig.to_vec();
        v[7] ^= 0x20;
        bytes::Bytes::from(v)
    };
    let mut families: Vec<(&str, Transaction)> = vec![];
    for (name, idx, cov) in [("new-sig", 0u8, Some(&newsig)), ("legacy-sig", 1, Some(&legacy)), ("always-true", 2, None)] {
        let value = [1000u128, 2000, 3000][idx as usize];
        let covs = match cov {
            Some(c) => vec![c.to_bytes()],
            None => vec![cov_true().to_bytes()],
        };
        let mut t = mktx(TxKind::Normal, vec![fund.output_coinid(idx)], vec![out_t(value, Denom::Mel)], 0, covs, vec![0xd0 + idx]);
        t.sigs = vec![key(1).1.sign(&t.hash_nosigs().0).into()];
        families.push((name, t));
    }
    for (name, valid) in &families {
        let mut bad = valid.clone();
        bad.sigs = vec![flip(&valid.sigs[0])];
        let mut none = valid.clone();
        none.sigs = vec![];
        let mut other = valid.clone();
        other.sigs = vec![key(2).1.sign(&valid.hash_nosigs().0).into()];
        // forged twins first: the first in-process evaluation of a twin then happens before its valid sibling was seen
        members.push((format!("{}:bit-flipped-signature", name), HistMember::Batch(bad.clone())));
        members.push((format!("{}:no-signature", name), HistMember::Batch(none)));
        members.push((format!("{}:signed-by-another-key", name), HistMember::Batch(other)));
        members.push((format!("{}:valid", name), HistMember::Batch(valid.clone())));
        // the forged twin inside a block that carries the header of the honest block
        let honest = guard(|| {
            let mut c = st.clone();
            c.apply_tx(valid).ok()?;
            Some(c.seal(None).header())
        });
        if let Ok(Some(h)) = honest {
            members.push((format!("{}:block-with-bit-flipped-twin", name), HistMember::Block(h, bad)));
            members.push((format!("{}:block-with-valid", name), HistMember::Block(h, valid.clone())));
        }
    }
    // two inputs, the second one under the signature covenant: a transaction that fails at its *second* input has by then gone
    // through part of its validation (whatever that leaves behind on the validating thread must not reach the next transaction)
    {
        let mut t = mktx(TxKind::Normal, vec![fund.output_coinid(3), fund.output_coinid(4)], vec![out_t(5500, Denom::Mel)], 0, vec![cov_true().to_bytes(), newsig.to_bytes()], vec![0xd7]);
        let sig: bytes::Bytes = key(1).1.sign(&t.hash_nosigs().0).into();
        t.sigs = vec![bytes::Bytes::new(), sig.clone()];
        let mut bad = t.clone();
        bad.sigs = vec![bytes::Bytes::new(), flip(&sig)];
        let missing = mktx(TxKind::Normal, vec![fund.output_coinid(3), melstructs::CoinID { txhash: fund.hash_nosigs(), index: 200 }], vec![out_t(5500, Denom::Mel)], 0, vec![cov_true().to_bytes()], vec![0xd8]);
        members.insert(0, ("two-inputs:second-input-does-not-exist".into(), HistMember::Batch(missing)));
        members.insert(0, ("two-inputs:second-signature-bit-flipped".into(), HistMember::Batch(bad)));
        members.push(("two-inputs:valid".into(), HistMember::Batch(t)));
    }
    // a faucet and its twin carrying a signature nobody asked for
    let f = tx_t(TxKind::Faucet, vec![], vec![out_t(5, Denom::Mel)], 0, b"hist".to_vec());
    let mut f2 = f.clone();
    f2.sigs = vec![bytes::Bytes::from(vec![7u8; 64])];
    members.push(("faucet".into(), HistMember::Batch(f)));
    members.push(("faucet:with-a-stray-signature".into(), HistMember::Batch(f2)));
    Some((st, parent, members))
}

fn hist_eval(st: &St, parent: &Sealed, m: &HistMember) -> String {
    match m {
        HistMember::Batch(t) => match apply_as_batch(st, std::slice::from_ref(t)) {
            Outcome::Rejected => "rejected".into(),
            Outcome::Panicked(c) => format!("panicked:{}", c),
            Outcome::Accepted { none, some } => format!("accepted:{}:{}", none.hash(), some.hash()),
        },
        HistMember::Block(h, t) => {
            let mut hs: HashSet<Transaction> = HashSet::new();
            hs.insert(t.clone());
            let b = Block { header: *h, transactions: hs, proposer_action: None };
            match guard(|| parent.apply_block(&b).map(|s| s.header().hash())) {
                Ok(Ok(h)) => format!("accepted:{}", h),
                Ok(Err(_)) => "rejected".into(),
                Err(p) => format!("panicked:{}", p.class()),
            }
        }
    }
}

/// `mcheck __child c03 <member index>`: the verdict of a process that has validated nothing else.
pub fn child_main(args: &[String]) {
    let i: usize = args.first().and_then(|s| s.parse().ok()).unwrap_or(usize::MAX);
    let one = rayon::ThreadPoolBuilder::new().num_threads(1).build().unwrap();
    let out = match history_corner() {
        Some((st, parent, members)) if i < members.len() => json!({"member": members[i].0, "verdict": one.install(|| hist_eval(&st, &parent, &members[i].1))}),
        _ => json!({"member": "?", "verdict": "corner-not-buildable"}),
    };
    println!("{}", out);
}

/// Every member is first judged by a fresh process that validates nothing else; then this process evaluates every sequence of
/// up to three (thorough four) members, each on its own copy of the same state, and every verdict must be the fresh one.
fn process_history(run: &Run, thorough: bool) {
    let (st, parent, members) = match history_corner() {
        Some(x) => x,
        None => {
            run.outcome("process-history:corner-not-buildable");
            return;
        }
    };
    let mut fresh: Vec<String> = vec![];
    for (i, (name, _)) in members.iter().enumerate() {
        match crate::child::run_child(&["c03".to_string(), i.to_string()], 60.0, 4 << 30) {
            crate::child::ChildOutcome::Done(v) if v["member"] == json!(name) => fresh.push(v["verdict"].as_str().unwrap_or("?").to_string()),
            other => run.machinery_failure(&format!("C03 process-history child {} ({}) gave no verdict: {:?}", i, name, other)),
        }
        run.transition();
        run.validated();
    }
    let n = members.len();
    let one = rayon::ThreadPoolBuilder::new().num_threads(1).build().unwrap();
    let depth = if thorough { 4 } else { 3 };
    let mut seqs: u64 = 0;
    let mut idx = vec![0usize; 1];
    // sequences in length-lexicographic order
    'outer: loop {
        seqs += 1;
        for &i in &idx {
            run.transition();
            // on a pool of one worker: what one evaluation leaves behind on its thread is met by the next one
            let got = one.install(|| hist_eval(&st, &parent, &members[i].1));
            run.validated();
            if got != fresh[i] {
                let names: Vec<&str> = idx.iter().map(|j| members[*j].0.as_str()).collect();
                run.violation(
                    "C03",
                    format!("verdict-depends-on-process-history/{}", if fresh[i].starts_with("accepted") { "fresh-accepts" } else if got.starts_with("accepted") { "fresh-rejects-later-accepts" } else { "other" }),
                    format!("[{}] evaluated in a process that had gone through the evaluations {:?} (each on its own copy of the same state) gives {} - a fresh process gives {}", members[i].0, names, got.split(':').next().unwrap_or(""), fresh[i].split(':').next().unwrap_or("")),
                    json!({"sequence": names, "member": members[i].0, "fresh_process": fresh[i], "this_process": got, "tx": match &members[i].1 { HistMember::Batch(t) | HistMember::Block(_, t) => tx_json(t) }}),
                );
                break 'outer;
            }
        }
        run.outcome("process-history:sequence-agrees-with-fresh-processes");
        // next sequence
        let mut k = idx.len();
        loop {
            if k == 0 {
                if idx.len() == depth {
                    break 'outer;
                }
                idx = vec![0; idx.len() + 1];
                break;
            }
            k -= 1;
            if idx[k] + 1 < n {
                idx[k] += 1;
                for j in k + 1..idx.len() {
                    idx[j] = 0;
                }
                break;
            }
        }
    }
    let acc = fresh.iter().filter(|v| v.starts_with("accepted")).count();
    run.set("process_history", json!({"members": members.iter().map(|m| m.0.clone()).collect::<Vec<_>>(), "fresh_process_verdicts": {"accepted": acc, "rejected": fresh.len() - acc}, "sequence_length": depth, "sequences": seqs, "oracle": "every in-process verdict equals the verdict of a fresh process that validated nothing else"}));
}

pub fn run(run: &Run) {
    let thorough = run.thorough();
    let max_set = if thorough { 4 } else { 3 };
    let pool_sizes: Vec<usize> = if thorough { vec![1, 2, 4, 16] } else { vec![1, 16] };
    let pools: Vec<rayon::ThreadPool> = pool_sizes.iter().map(|n| rayon::ThreadPoolBuilder::new().num_threads(*n).build().unwrap()).collect();
    // first of all, while this process has validated nothing: a bounded memo that fills up during the phases below would
    // no longer take the entries that matter here
    process_history(run, thorough);
    println!("  [phase] process history done at {:.1}s", run.elapsed());
    let bases = base_states(run, thorough);
    let mut cfg = AlphaCfg::base();
    cfg.swaps = true;
    cfg.deposits = true;
    cfg.stakes = true;
    cfg.per_denom = 3;
    let limit = if thorough { 18 } else { 16 };
    let mut total_sets = 0u64;
    for (parent, open) in &bases {
        let (u, p) = match (&open.real, &parent.real) {
            (Real::Open(u), Real::Sealed(p)) => (u.clone(), p.clone()),
            _ => continue,
        };
        let alpha = subset_alphabet(open, &cfg, limit);
        // all subsets of size 1..=max_set
        let n = alpha.len();
        let mut subsets: Vec<Vec<usize>> = vec![];
        let first_bases = total_sets == 0 || thorough;
        for mask in 1u32..(1u32 << n) {
            // quick tier: sets of 4 on the first base state only
            if (mask.count_ones() as usize) <= max_set || (first_bases && mask.count_ones() == 4) {
                subsets.push((0..n).filter(|i| mask & (1 << i) != 0).collect());
            }
        }
        total_sets += subsets.len() as u64;
        run.states_add(subsets.len() as u64);
        subsets.par_iter().for_each(|idx| {
            let names: Vec<String> = idx.iter().map(|i| alpha[*i].0.clone()).collect();
            let s: Vec<Transaction> = idx.iter().map(|i| alpha[*i].1.clone()).collect();
            check_set(run, open, &u, &p, &names, &s, &pools);
        });
        if total_sets == subsets.len() as u64 {
            run.set("subset_alphabet_of_first_base_state", json!(alpha.iter().map(|a| a.0.clone()).collect::<Vec<_>>()));
        }
    }
    println!("  [phase] subsets done at {:.1}s", run.elapsed());
    genesis_block_corner(run, &pools);
    println!("  [phase] genesis corner done at {:.1}s", run.elapsed());
    doscmint_corner(run, &pools);
    println!("  [phase] doscmint corner done at {:.1}s", run.elapsed());
    large_batch_family(run, thorough);
    println!("  [phase] large batches done at {:.1}s", run.elapsed());
    contended_sets_under_every_schedule(run, thorough);
    println!("  [phase] store-seam schedules done at {:.1}s", run.elapsed());
    // the one lock-protected structure that validation threads share (the DOSC inflator table): every interleaving, by loom
    crate::loomrun::inflator_interleavings(run, "C03");
    // ... and apply_tx_batch itself, compiled against loom-backed rayon and locks: every parallel site, every cut, every interleaving
    let mut labs = vec!["rivals", "faucet-twice", "chain", "chain-reversed", "shared-second-input", "independent", "faucet-spends-and-rival", "rivals-around-bystander", "faucet-twice-around-bystander", "chain-of-three", "chain-of-three-reversed", "three-rivals", "shared-input-and-bystander", "two-mints"];
    if thorough {
        labs.extend(["two-mints-reversed", "mint-and-two-payments"]);
    }
    crate::loomrun::stf_interleavings(run, "C03", &labs);
    println!("  [phase] loom labs done at {:.1}s", run.elapsed());
    repeatability_sampling(run, thorough);
    println!("  [phase] schedule sampling done at {:.1}s", run.elapsed());
    run.set("sets_checked", json!(total_sets));
    run.set("max_set_size_completed", json!(max_set));
    run.set("rayon_pool_sizes", json!(pool_sizes));
    run.set("schedule_control", json!("closure-level schedules are not enumerated (rayon is not interceptable by loom/shuttle); pool sizes 1..16 and all batch orders are; see DESIGN.md §5"));
    run.sample(json!({"set": ["xfer(coin)", "chain(xfer)", "chain2(xfer)"], "orders": "all 6 as one batch; the topological order one at a time; pools of 1 and 16 threads; 3 rebuilt HashSets through apply_block"}));
    run.assume("which error a rejected batch returns is schedule-dependent by design and is not compared");
    run.assume("thread interleavings inside validation closures other than those of the inflator table (explored with loom) are outside the technique here: closures only read shared immutable data");
}
