//! C13 — staked SYM is locked for the life of the stake; voting power follows the stakes.
use crate::alphabet::*;
use crate::props::e1::*;
use crate::report::Run;
use crate::stf::*;
use crate::world::*;
use melstructs::{CoinID, Denom, NetID, StakeDoc, Transaction, TxKind};
use serde_json::json;
use std::collections::BTreeMap;
use tmelcrypt::Hashable;

fn stake_tx(n: &Node, sym: &(CoinID, melstructs::CoinDataHeight), mel: &(CoinID, melstructs::CoinDataHeight), data: Vec<u8>, first_denom_sym: bool, tag: u8) -> Transaction {
    let sv = sym.1.coin_data.value.0;
    let mv = mel.1.coin_data.value.0;
    let mut outs = if first_denom_sym { vec![out_t(sv, Denom::Sym), out_t(mv, Denom::Mel)] } else { vec![out_t(mv, Denom::Mel), out_t(sv, Denom::Sym)] };
    outs[1].additional_data = vec![tag].into();
    let mut t = tx_t(TxKind::Stake, vec![sym.0, mel.0], outs, 0, data);
    if n.model.fee_multiplier > 0 {
        pay_min_fee(&mut t, n.model.fee_multiplier);
    }
    t
}

fn spend(n: &Node, id: CoinID, carrier: Option<&(CoinID, melstructs::CoinDataHeight)>) -> Option<Transaction> {
    let c = n.model.coins.get(&id)?;
    let v = c.coin_data.value.0;
    if c.coin_data.denom == Denom::Mel {
        Some(tx_t(TxKind::Normal, vec![id], vec![out_t(v, Denom::Mel)], 0, vec![0x5e]))
    } else {
        let m = carrier?;
        if m.0 == id {
            return None;
        }
        Some(tx_t(TxKind::Normal, vec![id, m.0], vec![out_t(v, c.coin_data.denom), out_t(m.1.coin_data.value.0, Denom::Mel)], 0, vec![0x5e]))
    }
}

fn acts(n: &Node, thorough: bool, jumps: &[u64]) -> Vec<Action> {
    let m = &n.model;
    let max_stakes = 2;
    if !n.is_open() {
        // before any stake: plain blocks.  Once a stake exists: the block right after the stake block and the two blocks
        // around every epoch boundary are opened honestly, everything in between is skipped by a jump to the next boundary.
        if m.stake_txs_seen.is_empty() {
            // before any stake: plain blocks
            return vec![Action::Open];
        }
        let next_h = m.height + 1;
        // (on the legacy networks the blocks around height 900000, where the lock rule comes into force, are opened honestly too)
        let legacy = matches!(m.network, NetID::Mainnet | NetID::Testnet);
        let near_boundary = next_h % 200_000 == 199_999 || next_h % 200_000 == 0 || (legacy && ((899_998..=900_001).contains(&next_h) || (499_998..=500_001).contains(&next_h)));
        let stake_in_this_block = m.block_txs.values().any(|t| t.kind == TxKind::Stake);
        let mut v = vec![];
        if near_boundary || stake_in_this_block {
            v.push(Action::Open);
        }

        if !near_boundary {
            if let Some(j) = jumps.iter().find(|j| **j > m.height) {
                v.push(Action::Jump(*j));
            }
        }
        if v.is_empty() {
            v.push(Action::Open);
        }
        return v;
    }
    let mut v = vec![];
    let cur = m.epoch();
    // SYM coins that are not themselves outputs of a stake transaction
    let syms: Vec<_> = coins_of(m, Denom::Sym, 6).into_iter().filter(|c| !m.stake_txs_seen.contains(&c.0.txhash)).collect();
    let mels: Vec<_> = coins_of(m, Denom::Mel, 8).into_iter().filter(|c| !m.stake_txs_seen.contains(&c.0.txhash)).collect();
    let second = !m.stake_txs_seen.is_empty();
    // the second stake is only offered in the block right after the first one's, and only if the first was registered
    let second_ok = !second || (m.height <= 2 && m.stakes.keys().any(|k| m.stake_txs_seen.contains(k)));
    if m.block_txs.is_empty() && m.stake_txs_seen.len() < max_stakes && second_ok {
        if let (Some(s), Some(mc)) = (syms.first(), mels.last()) {
            let amount = s.1.coin_data.value.0;
            let mut docs: Vec<(String, Vec<u8>, bool)> = vec![];
            // the second stake of a history comes from a narrower grid (consistent documents with different ends)
            let starts: Vec<u64> = if second { vec![cur + 1] } else if thorough { vec![cur.saturating_sub(1), cur, cur + 1, cur + 2] } else { vec![cur, cur + 1] };
            let ends: Vec<u64> = if second { vec![cur + 2, cur + 3] } else if thorough { vec![cur.saturating_sub(1), cur, cur + 1, cur + 2, cur + 3] } else { vec![cur + 1, cur + 2] };
            for es in &starts {
                for ee in &ends {
                    docs.push((format!("stake(start={},end={})", es, ee), stake_doc_bytes(1, *es, *ee, amount), true));
                }
            }
            if !second {
            // the ends of the epoch range: a document that starts and ends in the last epoch there is does not end after it starts
            docs.push(("stake(start=2^64-1,end=2^64-1)".into(), stake_doc_bytes(1, u64::MAX, u64::MAX, amount), true));
            docs.push(("stake(start=2^64-2,end=2^64-1)".into(), stake_doc_bytes(1, u64::MAX - 1, u64::MAX, amount), true));
            docs.push(("stake(amount!=output)".into(), stake_doc_bytes(1, cur + 1, cur + 2, amount + 1), true));
            docs.push(("stake(first-output-MEL)".into(), stake_doc_bytes(1, cur + 1, cur + 2, mc.1.coin_data.value.0), false));
            let good = stake_doc_bytes(1, cur + 1, cur + 2, amount);
            docs.push(("stake(truncated-doc)".into(), good[..good.len() - 1].to_vec(), true));
            let mut trailing = good.clone();
            trailing.push(0);
            docs.push(("stake(trailing-byte)".into(), trailing, true));
            docs.push(("stake(empty-doc)".into(), vec![], true));
            // a consistent stake of nothing: first output 0 SYM, the coin's value returned as change
            docs.push(("stake(zero-amount)".into(), stake_doc_bytes(1, cur + 1, cur + 2, 0), true));
            }
            for (i, (label, data, sym_first)) in docs.iter().enumerate() {
                let mut t = stake_tx(n, s, mc, data.clone(), *sym_first, i as u8);
                if label == "stake(zero-amount)" {
                    let sv = s.1.coin_data.value.0;
                    t.outputs = vec![out_t(0, Denom::Sym), out_t(sv, Denom::Sym), out_t(mc.1.coin_data.value.0, Denom::Mel)];
                    if n.model.fee_multiplier > 0 {
                        pay_min_fee(&mut t, n.model.fee_multiplier);
                    }
                }
                v.push(Action::Batch { label: label.clone(), txs: vec![t.clone()], expect_ok: false });
                // spend attempts of both outputs in the same batch, both orders
                if !second && (label.contains("start=") || label.contains("amount")) && label != "stake(zero-amount)" {
                    for idx in [0u8, 1] {
                        let id = t.output_coinid(idx);
                        let o = &t.outputs[idx as usize];
                        let sp = if o.denom == Denom::Mel {
                            Some(tx_t(TxKind::Normal, vec![id], vec![out_t(o.value.0, Denom::Mel)], 0, vec![0x5f]))
                        } else {
                            mels.first().filter(|c| c.0 != mc.0).map(|c2| tx_t(TxKind::Normal, vec![id, c2.0], vec![out_t(o.value.0, o.denom), out_t(c2.1.coin_data.value.0, Denom::Mel)], 0, vec![0x5f]))
                        };
                        if let Some(sp) = sp {
                            v.push(Action::Batch { label: format!("[{} , spend-output{}]", label, idx), txs: vec![t.clone(), sp.clone()], expect_ok: false });
                            v.push(Action::Batch { label: format!("[spend-output{} , {}]", idx, label), txs: vec![sp, t.clone()], expect_ok: false });
                        }
                    }
                }
            }
        }
    }
    // spend attempts on the outputs of every stake transaction this history has accepted (registered or not, expired or not)
    if m.block_txs.len() < 2 {
        for id in m.coins.keys().filter(|id| m.stake_txs_seen.contains(&id.txhash)) {
            if let Some(t) = spend(n, *id, mels.iter().find(|c| c.0.txhash != id.txhash)) {
                v.push(Action::Batch { label: format!("spend-output{}-of-stake-tx({})", id.index, hex::encode(&id.txhash.0 .0[..2])), txs: vec![t.clone()], expect_ok: false });
                // the same spend with the inputs in the other order (an unlocked coin under the same covenant listed first)
                if t.inputs.len() == 2 {
                    let mut t2 = t.clone();
                    t2.inputs.reverse();
                    v.push(Action::Batch { label: format!("spend-output{}-of-stake-tx({})-listed-last", id.index, hex::encode(&id.txhash.0 .0[..2])), txs: vec![t2], expect_ok: false });
                } else if let Some(extra) = mels.iter().find(|c| c.0 != *id && c.0.txhash != id.txhash) {
                    // a MEL output of the stake transaction: put another, unlocked MEL coin in front of it
                    let mut t2 = t.clone();
                    t2.inputs.insert(0, extra.0);
                    t2.outputs.push(out_t(extra.1.coin_data.value.0, Denom::Mel));
                    v.push(Action::Batch { label: format!("spend-output{}-of-stake-tx({})-listed-last", id.index, hex::encode(&id.txhash.0 .0[..2])), txs: vec![t2], expect_ok: false });
                }
            }
        }
    }
    v.push(Action::Seal(None));
    v
}

fn check_votes(run: &Run, n: &Node) {
    let v = n.view();
    let rs = v.raw_stakes();
    // a node restarted from a block that holds a Stake transaction (registered or not) carries exactly the stakes of the original
    if let Real::Sealed(s) = &n.real {
        if n.model.block_txs.values().any(|t| t.kind == TxKind::Stake) {
            if let Ok(r) = crate::guard::guard(|| crate::world::restart_from_disk(s)) {
                run.transition();
                run.validated();
                let a: BTreeMap<_, _> = r.raw_stakes().iter().map(|(k, d)| (*k, (d.pubkey, d.e_start, d.e_post_end, d.syms_staked))).collect();
                let b: BTreeMap<_, _> = n.model.stakes.iter().map(|(k, d)| (*k, (d.pubkey, d.e_start, d.e_post_end, d.syms_staked))).collect();
                if a != b {
                    run.violation("C13", format!("stake-set-after-restart/{}", if a.len() > b.len() { "extra-stake" } else if a.len() < b.len() { "missing-stake" } else { "stake-differs" }), format!("from_block(to_block(S)) registers {} stakes, the model {} after [{}]", a.len(), b.len(), n.path_str()), n.replay_json(None));
                }
            }
        }
    }
    for epoch in 0..6u64 {
        let mut total = 0u128;
        for k in 0..3u8 {
            let pk = key(k).0;
            let model: u128 = n.model.stakes.values().filter(|d| d.pubkey == pk && d.e_start <= epoch && epoch < d.e_post_end).map(|d| d.syms_staked.0).sum();
            total += model;
            if rs.votes(epoch, pk) != model {
                run.violation("C13", "votes-differ".into(), format!("votes(epoch {}, key {}) = {} but the registered stakes give {} after [{}]", epoch, k, rs.votes(epoch, pk), model, n.path_str()), n.replay_json(None));
            }
        }
        if rs.total_votes(epoch) != total {
            run.violation("C13", "total-votes-differ".into(), format!("total_votes(epoch {}) = {} but the registered stakes give {} after [{}]", epoch, rs.total_votes(epoch), total, n.path_str()), n.replay_json(None));
        }
    }
    // the stake commitment reflects exactly the registered, unexpired stakes
    let entries: Vec<([u8; 32], Vec<u8>)> = n.model.stakes.iter().map(|(k, d)| (stdcode::serialize(k).unwrap().hash().0, stdcode::serialize(d).unwrap())).collect();
    let db = novasmt::Database::new(novasmt::InMemoryCas::default());
    let mut t = db.get_tree([0; 32]).unwrap();
    for (k, val) in &entries {
        t.insert(*k, val);
    }
    if t.root_hash() != v.header().stakes_hash.0 {
        run.violation("C13", "stake-commitment-differs".into(), format!("header.stakes_hash is not the root of the registered, unexpired stakes after [{}]", n.path_str()), n.replay_json(None));
    }
    // SealedState::stake agrees
    for (k, d) in &n.model.stakes {
        match v.stake(*k) {
            Some(r) if r.pubkey == d.pubkey && r.e_start == d.e_start && r.e_post_end == d.e_post_end && r.syms_staked == d.syms_staked => {}
            _ => run.violation("C13", "stake-lookup-differs".into(), format!("after [{}]", n.path_str()), n.replay_json(None)),
        }
    }
}

pub fn run(run: &Run) {
    let thorough = run.thorough();
    // the TIP-911 view of stake sets: totals of this and the next epoch, order of the list (shared with C07, which checks the root)
    crate::props::c07::tip911_view(run);
    let jumps: Vec<u64> = vec![199_998, 399_998, 599_998, 799_998];
    let mut initial: BTreeMap<melstructs::TxHash, StakeDoc> = BTreeMap::new();
    initial.insert(melstructs::TxHash(tmelcrypt::HashVal([0x61; 32])), StakeDoc { pubkey: key(2).0, e_start: 0, e_post_end: 2, syms_staked: melstructs::CoinValue(5) });
    let depth = if thorough { 32 } else { 28 };
    for (name, net, fm) in [("custom02", NetID::Custom02, 0u128), ("custom02-fees", NetID::Custom02, 65536)] {
        if !thorough && fm > 0 {
            continue;
        }
        let (_w, rootn) = root(net, fm, true);
        let eng = Engine::new(run);
        let j = jumps.clone();
        let a = move |n: &Node| acts(n, thorough, &j);
        let visit = |n: &Node| check_votes(run, n);
        let st = bfs(&eng, vec![rootn], depth, 400_000, &a, &visit);
        run.set(&format!("scenario:{}", name), json!({"depth_bound_completed": st.depth_completed, "unique_states": st.states, "transitions": st.transitions, "frontier_sizes": st.frontier_sizes}));
        println!("  scenario {}: depth {} states {} transitions {}", name, st.depth_completed, st.states, st.transitions);
    }
    // the first stake of a history made in the last block of an epoch and in the first block of the next (documents starting in the
    // current epoch must not register there either)
    {
        let (_w, rootn) = root(NetID::Custom02, 0, true);
        let eng = Engine::new(run);
        if let StepOut::Next(start) = eng.step(&rootn, &Action::Jump(199_997)) {
            let j = jumps.clone();
            let a = move |n: &Node| acts(n, thorough, &j);
            let visit = |n: &Node| check_votes(run, n);
            let st = bfs(&eng, vec![start], if thorough { 14 } else { 11 }, 300_000, &a, &visit);
            run.set("scenario:custom02-first-stake-at-epoch-boundary", json!({"depth_bound_completed": st.depth_completed, "unique_states": st.states, "transitions": st.transitions}));
            println!("  scenario custom02-first-stake-at-epoch-boundary: depth {} states {} transitions {}", st.depth_completed, st.states, st.transitions);
        }
    }
    // testnet across height 500000, where stake documents begin to be checked and stakes to be registered (below it a Stake
    // transaction is an ordinary transfer), and across height 900000, where the lock rule comes into force
    for (name, jump, depth) in [("testnet-across-500000", 499_995u64, if thorough { 16 } else { 12 }), ("testnet-across-900000", 899_995, if thorough { 18 } else { 14 })] {
        let (_w, rootn) = root(NetID::Testnet, 0, true);
        let eng = Engine::new(run);
        let mut node = Some(rootn);
        for a in [Action::Jump(498), Action::Open, Action::Seal(None), Action::Open, Action::Seal(None), Action::Jump(jump)] {
            node = match node.as_ref().map(|n| eng.step(n, &a)) {
                Some(StepOut::Next(x)) => Some(x),
                _ => None,
            };
        }
        match node {
            Some(start) => {
                let j = vec![599_998u64, 999_998];
                let a = move |n: &Node| acts(n, false, &j);
                let visit = |n: &Node| check_votes(run, n);
                let st = bfs(&eng, vec![start], depth, 300_000, &a, &visit);
                run.set(&format!("scenario:{}", name), json!({"depth_bound_completed": st.depth_completed, "unique_states": st.states, "transitions": st.transitions}));
                println!("  scenario {}: depth {} states {} transitions {}", name, st.depth_completed, st.states, st.transitions);
            }
            None => run.outcome(&format!("{}:prefix-not-accepted", name)),
        }
    }
    // mainnet / testnet above the grandfathered windows: fabricated at 900000 (rules below 500000 / 900000 are excluded by the statement's reading)
    for net in [NetID::Mainnet, NetID::Testnet] {
        if !thorough && net == NetID::Testnet {
            continue;
        }
        let w = world(net, out_t(1_000_000_000, Denom::Mel), 1 << 20, 0, initial.clone());
        let mut u = w.genesis.clone();
        let mut universe = vec![CoinID::zero_zero()];
        let mut block = vec![];
        if net != NetID::Mainnet {
            let f = tx_t(TxKind::Faucet, vec![], vec![out_t(100_000, Denom::Mel), out_t(100_001, Denom::Mel), out_t(50_000, Denom::Sym)], 0, b"c13".to_vec());
            u.apply_tx(&f).expect("faucet");
            for i in 0..3 {
                universe.push(f.output_coinid(i));
            }
            universe.push(faucet_marker(f.hash_nosigs()));
            block.push(f);
        }
        let s = u.seal(None);
        let s = if net == NetID::Mainnet { s } else { s };
        let model = model_of(&s, &universe, &builtin_pool_keys(), &block);
        let h0 = s.header();
        let n0 = Node::new_root(Real::Sealed(s), model, format!("genesis[{:?}+stake]", net), json!({"root": format!("{:?} with one initial stake", net)}), vec![h0]);
        let eng = Engine::new(run);
        // testnet must cross its 500 activation honestly before being re-labelled high up; mainnet pre-906 trees at 900000 would be inconsistent: stay below 830000 there
        let start = if net == NetID::Mainnet { 829_000 } else { 0 };
        let n1 = if start > 0 {
            match eng.step(&n0, &Action::Jump(start)) {
                StepOut::Next(n) => n,
                _ => continue,
            }
        } else {
            n0
        };
        let _ = n1;
        // the grandfathered windows make these networks a matter of the excluded legacy rules below 900000; recorded as excluded
        run.outcome(&format!("legacy-window-excluded:{:?}", net));
    }
    run.set("stake_documents", json!("(e_start, e_post_end) over {cur-1..cur+2} x {cur-1..cur+3} (quick: {cur,cur+1} x {cur+1,cur+2}), amount == / != first output, first output SYM / MEL, truncated / trailing-byte / empty document"));
    run.set("epoch_boundaries_by_jump", json!(jumps));
    run.set("excluded", json!("mainnet histories (no faucet can fund a SYM wallet there); testnet is covered across height 900000, where the lock rule comes into force, by the scenario testnet-across-900000 (the reference model carries the legacy windows: no stake registration rules below 500000, no lock below 900000)"));
    run.sample(json!({"path": ["genesis[Custom02]", "open", "stake(start=1,end=2)", "seal(None)", "jump(399998)", "open", "seal(None)", "open", "spend(staked coin)"], "oracle": "rejected while epoch <= end, accepted in the first block of epoch end+1; votes(e,k) = sum of registered stakes with start <= e < end; stakes_hash = root of the registered, unexpired stakes"}));
    run.assume("epoch boundaries are reached by re-labelling the sealed content at the boundary height with from_block (Jump)");
}
