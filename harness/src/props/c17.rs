//! C17 — the fee multiplier moves only by the bounded, specified step per block.  E3 grid on fabricated states.
use crate::guard::guard;
use crate::report::Run;
use crate::world::*;
use melstructs::{Denom, NetID, ProposerAction};
use num::{BigInt, Signed, ToPrimitive, Zero};
use rayon::prelude::*;
use serde_json::json;

fn expected(m: u128, delta: i8, floor2: bool) -> BigInt {
    let mut max_mv = BigInt::from(m >> 7);
    if floor2 && max_mv < BigInt::from(2) {
        max_mv = BigInt::from(2);
    }
    // BigInt division truncates toward zero, as the statement's trunc() does
    let mv = (max_mv * BigInt::from(delta)) / BigInt::from(128);
    BigInt::from(m) + mv
}

fn multipliers(thorough: bool) -> Vec<u128> {
    let mut v: Vec<u128> = (0..=if thorough { 4096 } else { 300 }).collect();
    for k in 8..=70u32 {
        let p = 1u128 << k;
        v.extend([p - 1, p, p + 1]);
        if thorough {
            v.extend([p - 128, p + 127, p + (p >> 1), p + (p >> 1) - 1, p + (p >> 1) + 1]);
        }
    }
    v.extend([1_000_000, 65535, 65536, 65537]);
    v.sort();
    v.dedup();
    v.retain(|m| *m <= 1u128 << 70);
    v
}

struct Cfg {
    name: &'static str,
    net: NetID,
    height: u64,
    floor2: bool,
    /// fee pool of the parent state (the step does not depend on it)
    fee_pool: u128,
}

pub fn one(run: &Run, base: &Sealed, db: &Db, cfg: &Cfg, m: u128, delta: Option<i8>) {
    let replay = json!({"config": cfg.name, "network": format!("{:?}", cfg.net), "parent_height": cfg.height, "fee_multiplier": m.to_string(), "delta": delta});
    let parent = fabricate_with(base, db, cfg.net, cfg.height, cfg.fee_pool, m, 1_000_000);
    let action = delta.map(|d| ProposerAction {
        fee_multiplier_delta: d,
        reward_dest: addr_true(),
    });
    run.transition();
    // around the rule switch and for small multipliers the sealed block is also handed back to its parent: "no proposer can make
    // sealing fail" includes the block being accepted, under the specified step and under no other
    let replay_block = m <= 300 && (cfg.name.contains("last-before") || cfg.name.contains("first-after") || cfg.name.contains("after500") || cfg.name.contains("after901"));
    let res = guard(|| {
        let sealed = parent.next_unsealed().seal(action);
        if replay_block {
            let blk = sealed.to_block();
            match parent.apply_block(&blk) {
                Ok(s) if s.header() == blk.header => run.outcome("sealed-block-accepted-by-its-parent"),
                Ok(_) => run.violation("C17", format!("sealed-block-applies-to-another-header/{}", cfg.name), format!("multiplier {} delta {:?}", m, delta), replay.clone()),
                Err(e) => run.violation("C17", format!("sealed-block-refused-by-its-parent/{}", cfg.name), format!("the block sealed at multiplier {} with delta {:?} is refused by the state it was built on: {}", m, delta, e), replay.clone()),
            }
            if let Some(d) = delta {
                // the step of the *other* rule (with / without the floor of 2), where it differs: a block declaring it is not the successor
                let other = expected(m, d, !cfg.floor2);
                if !other.is_negative() && other != BigInt::from(blk.header.fee_multiplier) {
                    if let Some(o) = other.to_u128() {
                        let mut forged = blk.clone();
                        forged.header.fee_multiplier = o;
                        match parent.apply_block(&forged) {
                            Ok(_) => run.violation("C17", format!("accepts-the-other-rules-step/{}", cfg.name), format!("a block declaring multiplier {} -> {} (delta {}; the specified step gives {}) is accepted", m, o, d, blk.header.fee_multiplier), replay.clone()),
                            Err(_) => run.outcome("other-rules-step-refused"),
                        }
                    }
                }
            }
        }
        sealed.header().fee_multiplier
    });
    let region = if m < 256 {
        "m<256"
    } else if m < (1u128 << 56) {
        "m<2^56"
    } else {
        "m>=2^56"
    };
    match res {
        Err(p) => {
            run.outcome("panic");
            run.violation(
                "C17",
                format!("seal-panics/{}/{}/sign={}/{}", cfg.name, region, delta.map(|d| d.signum()).unwrap_or(0), p.class()),
                format!("seal(Some(delta={:?})) at fee multiplier {} panicked: {}", delta, m, p.msg),
                replay,
            );
        }
        Ok(got) => {
            run.validated();
            match delta {
                None => {
                    if got != m {
                        run.violation("C17", format!("none-changes-multiplier/{}", cfg.name), format!("seal(None) moved the multiplier {} -> {}", m, got), replay);
                    }
                    run.outcome("none-unchanged");
                }
                Some(d) => {
                    let e = expected(m, d, cfg.floor2);
                    if e.is_negative() {
                        // the exact step is impossible; no wrap-around is all the statement can require
                        if got > m {
                            run.violation("C17", format!("wraps-below-zero/{}", cfg.name), format!("multiplier {} delta {} -> {}", m, d, got), replay);
                        }
                        run.outcome("clamped");
                    } else if BigInt::from(got) != e {
                        let dir = if BigInt::from(got) > e { "above" } else { "below" };
                        run.violation(
                            "C17",
                            format!("wrong-step/{}/{}/sign={}/{}", cfg.name, region, d.signum(), dir),
                            format!("multiplier {} delta {} -> {} (specified: {})", m, d, got, e),
                            replay,
                        );
                        run.outcome("wrong");
                    } else {
                        run.outcome(if e == BigInt::from(m) { "exact-zero-step" } else { "exact-step" });
                    }
                }
            }
        }
    }
}

fn configs() -> Vec<Cfg> {
    vec![
        Cfg { name: "custom02-after901", net: NetID::Custom02, height: 5, floor2: true, fee_pool: 1 << 40 },
        Cfg { name: "mainnet-before901", net: NetID::Mainnet, height: 42_000, floor2: false, fee_pool: 1 << 40 },
        // parent 42698 -> sealed block 42699 is the last one before TIP-901, parent 42699 -> block 42700 the first after
        Cfg { name: "mainnet-last-before901", net: NetID::Mainnet, height: 42_698, floor2: false, fee_pool: 1 << 40 },
        Cfg { name: "mainnet-first-after901", net: NetID::Mainnet, height: 42_699, floor2: true, fee_pool: 1 << 40 },
        Cfg { name: "testnet-before500", net: NetID::Testnet, height: 100, floor2: false, fee_pool: 1 << 40 },
        Cfg { name: "testnet-last-before500", net: NetID::Testnet, height: 498, floor2: false, fee_pool: 1 << 40 },
        Cfg { name: "testnet-after500", net: NetID::Testnet, height: 499, floor2: true, fee_pool: 1 << 40 },
        // an empty / nearly empty fee pool (no subsidy refills it before TIP-909): the proposer's payout is zero, the vote still counts
        Cfg { name: "mainnet-after901-empty-fee-pool", net: NetID::Mainnet, height: 100_000, floor2: true, fee_pool: 0 },
        Cfg { name: "mainnet-before901-fee-pool-65535", net: NetID::Mainnet, height: 1_000, floor2: false, fee_pool: 65_535 },
        Cfg { name: "testnet-before500-empty-fee-pool", net: NetID::Testnet, height: 100, floor2: false, fee_pool: 0 },
    ]
}

pub fn run(run: &Run) {
    let thorough = run.thorough();
    // one base state per network, sealed from that network's own genesis, so that the fabricated parent has the
    // tree layout (with / without TIP-906 coin counts) a reachable state of that network has at that height
    let w = world_mel(NetID::Custom02, 1_000_000_000, 0);
    let base = w.genesis.clone().seal(None);
    let w_main = world_mel(NetID::Mainnet, 1_000_000_000, 0);
    let base_main = w_main.genesis.clone().seal(None);
    let w_test = world_mel(NetID::Testnet, 1_000_000_000, 0);
    let base_test = w_test.genesis.clone().seal(None);
    let ms = multipliers(thorough);
    let cfgs = configs();
    let deltas: Vec<i8> = (-128i16..=127).map(|d| d as i8).collect();
    run.set("multipliers", json!(ms.len()));
    run.set("deltas", json!(deltas.len()));
    run.set("configurations", json!(cfgs.iter().map(|c| c.name).collect::<Vec<_>>()));
    // every configuration in both tiers (the quick tier thins the deltas of large multipliers, not the rule windows)
    let use_cfgs: Vec<&Cfg> = cfgs.iter().collect();
    for cfg in use_cfgs {
        let items: Vec<(u128, Option<i8>)> = ms
            .iter()
            .flat_map(|m| {
                let mut v: Vec<(u128, Option<i8>)> = vec![(*m, None)];
                let ds: Vec<i8> = if thorough || *m <= 300 || cfg.name == "custom02-after901" {
                    deltas.clone()
                } else {
                    vec![-128, -127, -65, -64, -63, -2, -1, 0, 1, 2, 63, 64, 65, 126, 127]
                };
                v.extend(ds.into_iter().map(|d| (*m, Some(d))));
                v
            })
            .collect();
        run.states_add(ms.len() as u64);
        let (b, d_b) = match cfg.net {
            NetID::Mainnet => (&base_main, &w_main.db),
            NetID::Testnet => (&base_test, &w_test.db),
            _ => (&base, &w.db),
        };
        items.par_iter().for_each(|(m, d)| one(run, b, d_b, cfg, *m, *d));
    }
    // long runs of extreme deltas
    for (start, delta, blocks) in [(300u128, -128i8, 300usize), (1u128 << 56, 127i8, 300), (0u128, 127i8, 200), (5u128, -128i8, 50)] {
        let mut s = fabricate_with(&base, &w.db, NetID::Custom02, 5, 1 << 40, start, 1_000_000);
        let mut m = start;
        for i in 0..blocks {
            run.transition();
            let action = Some(ProposerAction { fee_multiplier_delta: delta, reward_dest: addr_true() });
            let replay = json!({"long_run_from": start.to_string(), "delta": delta, "block": i, "fee_multiplier": m.to_string()});
            match guard(|| s.next_unsealed().seal(action)) {
                Err(p) => {
                    run.violation("C17", format!("seal-panics/long-run/sign={}/{}", delta.signum(), p.class()), format!("block {} of a run of delta {} from {}: multiplier {}: {}", i, delta, start, m, p.msg), replay);
                    break;
                }
                Ok(n) => {
                    run.validated();
                    let got = n.header().fee_multiplier;
                    let e = expected(m, delta, true);
                    if (e.is_negative() && got > m) || (!e.is_negative() && BigInt::from(got) != e) {
                        run.violation("C17", format!("wrong-step/long-run/sign={}", delta.signum()), format!("block {}: {} -> {} (specified {})", i, m, got, e), replay);
                        break;
                    }
                    m = got;
                    s = n;
                    run.state();
                }
            }
        }
        run.outcome("long-run-complete");
        let _ = m.to_f64();
    }
    let _ = Denom::Mel;
    let _ = BigInt::zero();
    run.sample(json!({"config": "custom02-after901", "fee_multiplier": "1", "delta": -128, "specified": "1 + trunc(max(0,2)*-128/128) = -1: impossible, so any value <= 1 without panic"}));
    run.sample(json!({"config": "mainnet-before901", "fee_multiplier": "36893488147419103232", "delta": 127, "specified": "m + trunc((m>>7)*127/128)"}));
    run.assume("states are fabricated with SealedState::from_block at the stated parent height; only the fee multiplier field is varied");
}

pub fn replay(run: &Run, v: &serde_json::Value) {
    let name = v["config"].as_str().unwrap_or("custom02-after901");
    let cfgs = configs();
    let cfg = cfgs.iter().find(|c| c.name == name).unwrap_or(&cfgs[0]);
    let w = world_mel(cfg.net, 1_000_000_000, 0);
    let base = w.genesis.clone().seal(None);
    let m: u128 = v["fee_multiplier"].as_str().and_then(|s| s.parse().ok()).unwrap_or(0);
    let d = v["delta"].as_i64().map(|d| d as i8);
    one(run, &base, &w.db, cfg, m, d);
}
