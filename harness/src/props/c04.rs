//! C04 — a coin is spent only when its covenant approves that very spend.
//! E3 over spend shapes x covenant families, E2 over short environment-reading programs; the
//! expected verdict is computed per input with the reference VM on (transaction, own environment).
use crate::guard::guard;
use crate::refvm::{eval_covenant, ref_decode, RefEnv};
use crate::report::Run;
use crate::world::*;
use bytes::Bytes;
use melstructs::{Address, BlockHeight, CoinDataHeight, CoinID, Denom, Header, NetID, Transaction, TxKind};
use melvm::{opcode::OpCode, Covenant, CovenantEnv};
use rayon::prelude::*;
use serde_json::json;
use tmelcrypt::Hashable;

const PREIMAGE: &[u8] = b"open sesame";

#[derive(Clone)]
struct Family {
    name: &'static str,
    bytes: Bytes,
}

fn pi(n: u64) -> OpCode {
    OpCode::PushI(n.into())
}

fn families() -> Vec<Family> {
    use OpCode::*;
    let f = |name: &'static str, ops: Vec<OpCode>| Family { name, bytes: Covenant::from_ops(&ops).to_bytes() };
    let digest = blake3::hash(PREIMAGE).as_bytes().to_vec();
    vec![
        f("true", vec![pi(1)]),
        f("false", vec![pi(0)]),
        Family { name: "legacy-sig(K0)", bytes: cov_legacy(0).to_bytes() },
        Family { name: "new-sig(K1)", bytes: cov_new(1).to_bytes() },
        // hash-lock on tx.data: blake3(data) == digest (compared as integers)
        f("hash-lock", vec![pi(5), LoadImm(0), VRef, Hash(64), BtoI, PushB(digest), BtoI, Eql]),
        // time-lock: last_header.height >= 1  <=>  0 < height
        f("time-lock(h>=1)", vec![pi(2), LoadImm(10), VRef, pi(0), Lt]),
        f("index-bound(0)", vec![LoadImm(9), pi(0), Eql]),
        f("index-bound(1)", vec![LoadImm(9), pi(1), Eql]),
        // value-bound: parent value > 1002  <=>  1002 < value
        f("value-bound(>1002)", vec![LoadImm(5), pi(1002), Lt]),
        Family { name: "undecodable", bytes: Bytes::from_static(&[0xf2, 0x21]) },
        // denomination reader: parent denom is MEL ("m" = 0x6d, one byte)
        f("denom-is-mel", vec![pi(0), LoadImm(6), BRef, pi(0x6d), Eql]),
        f("fails(stack underflow)", vec![Add]),
        // parent coin id reader: parent index == 0 .. true only for the first funded coin of the family (index parity)
        f("parent-index-even", vec![pi(2), LoadImm(3), Rem, pi(0), Eql]),
        // additional-data reader: empty additional data
        f("additional-data-empty", vec![LoadImm(7), BLength, pi(0), Eql]),
        // nested loops whose bodies end at the same instruction: a counter is incremented 3 x 2 times; approves iff it reaches 6
        f("nested-loops-count(3x2)", vec![pi(0), Loop(3, 3), Loop(2, 2), pi(1), Add, pi(6), Eql]),
        // further undecodable shapes: a byte-string literal that announces more bytes than follow (alone, and as the cut-off tail
        // of the standard signature covenant), and a well-formed program followed by an unknown opcode
        Family { name: "undecodable(truncated pushb)", bytes: Bytes::from_static(&[0xf0, 0x20, 0x01, 0x02, 0x03]) },
        Family { name: "undecodable(standard covenant cut inside its key)", bytes: { let b = cov_new(1).to_bytes(); b.slice(..b.len().min(20)) } },
        Family { name: "undecodable(true then unknown opcode)", bytes: { let mut b = Covenant::from_ops(&[pi(1)]).to_bytes().to_vec(); b.push(0xff); b.into() } },
        // readers of the previous header: fee pool is zero; first byte of the pool root / of the coin root is even
        f("header-fee-pool-is-0", vec![pi(6), LoadImm(10), VRef, pi(0), Eql]),
        f("header-pools-root-byte0-even", vec![pi(2), pi(0), pi(9), LoadImm(10), VRef, BRef, Rem, pi(0), Eql]),
        f("header-coins-root-byte0-even", vec![pi(2), pi(0), pi(4), LoadImm(10), VRef, BRef, Rem, pi(0), Eql]),
        // a covenant that writes a free heap slot (and approves) and one that reads that slot (fails on its own: the slot is unset
        // in every fresh environment): no input's evaluation may see another input's heap
        f("writes-heap-slot-77", vec![pi(1), StoreImm(77), pi(1)]),
        f("reads-heap-slot-77", vec![LoadImm(77)]),
        // fails inside a loop body (stack underflow at the second instruction of the body)
        f("fails-inside-loop", vec![pi(1), Loop(3, 2), Add, Add]),
        // a heap address beyond 16 bits (fails: addresses are 16-bit; must not be read as address 1, the transaction hash)
        f("loads-heap-address-65537", vec![pi(65537), Load]),
        // a conditional jump on a byte string (the coin's additional data): Bnz jumps on anything but the integer 0, so the
        // `pushi 1` is skipped and the covenant rejects
        f("bnz-on-bytes", vec![pi(0), LoadImm(7), Bnz(1), pi(1)]),
        // laid out like the standard legacy signature covenant of key 0, but demanding the signature in slot 1 (the signature
        // variants put the valid signature into slot 0: never approved) / in a slot that does not exist
        Family { name: "legacy-shape-slot-1(K0)", bytes: { let mut ops = cov_legacy(0).to_ops(); ops[0] = pi(1); Covenant::from_ops(&ops).to_bytes() } },
        Family { name: "legacy-shape-slot-2^64(K0)", bytes: { let mut ops = cov_legacy(0).to_ops(); ops[0] = OpCode::PushI(ethnum::U256::from(1u128 << 64)); Covenant::from_ops(&ops).to_bytes() } },
    ]
}

fn addr_of(b: &[u8]) -> Address {
    Address(b.hash())
}

struct Fixture {
    /// open state in which the funded coins exist
    state: St,
    last_header: Header,
    /// family index -> two coins (id, data)
    coins: Vec<Vec<(CoinID, CoinDataHeight)>>,
    label: &'static str,
}

/// Builds: genesis -> block 1 containing the funding transaction -> (optionally) block 2 open.
fn fixtures(fams: &[Family]) -> Vec<Fixture> {
    let mut fxs = vec![];
    for same_block in [true, false] {
        let w = world_mel(NetID::Custom02, 10_000_000, 0);
        let g = w.genesis.clone().seal(None);
        let mut u = g.next_unsealed();
        let mut outs = vec![];
        for f in fams {
            for j in 0..2u128 {
                outs.push(out(addr_of(&f.bytes), 1001 + 2 * j, Denom::Mel));
            }
        }
        let total: u128 = outs.iter().map(|o| o.value.0).sum();
        outs.push(out_t(10_000_000 - total, Denom::Mel));
        let fund = tx_t(TxKind::Normal, vec![CoinID::zero_zero()], outs, 0, vec![]);
        u.apply_tx(&fund).expect("funding");
        let height = if same_block { 1 } else { 2 };
        let (state, last_header) = if same_block {
            let lh = g.header();
            (u, lh)
        } else {
            let s1 = u.seal(None);
            let lh = s1.header();
            (s1.next_unsealed(), lh)
        };
        let mut coins = vec![];
        for (fi, _) in fams.iter().enumerate() {
            let mut v = vec![];
            for j in 0..2usize {
                let idx = (fi * 2 + j) as u8;
                let id = fund.output_coinid(idx);
                let cdh = CoinDataHeight { coin_data: fund.outputs[idx as usize].clone(), height: BlockHeight(1) };
                v.push((id, cdh));
            }
            coins.push(v);
        }
        let _ = height;
        fxs.push(Fixture { state, last_header, coins, label: if same_block { "height1-same-block-as-funding" } else { "height2" } });
    }
    fxs
}

/// Independent expected verdict: every input's covenant present, decodable and truthy in its own environment.
fn expected(tx: &Transaction, inputs: &[(CoinID, CoinDataHeight)], last_header: Header) -> (bool, String) {
    for (i, (id, cdh)) in inputs.iter().enumerate() {
        let cov = tx.covenants.iter().find(|c| addr_of(c) == cdh.coin_data.covhash);
        let cov = match cov {
            Some(c) => c,
            None => return (false, format!("input {}: covenant missing", i)),
        };
        let ops = match ref_decode(cov) {
            Some(o) => o,
            None => return (false, format!("input {}: covenant undecodable", i)),
        };
        let env = RefEnv { parent_coinid: *id, parent_cdh: cdh.clone(), spender_index: i as u64, last_header };
        let reference = eval_covenant(&ops, tx, Some(&env), 1_000_000);
        // second opinion: the real interpreter on the same (transaction, environment); C10 checks it against the reference in depth
        let real = Covenant::from_bytes(cov).ok().and_then(|c| {
            guard(|| c.execute(tx, Some(CovenantEnv { parent_coinid: *id, parent_cdh: cdh.clone(), spender_index: i as u8, last_header })).map(|v| v.into_bool())).ok().flatten()
        });
        // the reference verdict is the expected one; a disagreement with melvm on the same (transaction, environment) is noted
        // (C10 examines the interpreter in depth) and then shows up here as an acceptance that contradicts the covenant
        let _ = real;
        if reference != Some(true) {
            return (false, format!("input {}: covenant evaluates to {:?}", i, reference));
        }
    }
    (true, String::new())
}

#[derive(Clone, Copy, Debug, PartialEq)]
enum CovList {
    Complete,
    MissingFirst,
    MissingLast,
    Extra,
    WrongBytesSameLength,
    /// another covenant listed twice in a row in front of the complete list (seed C04-r12-2: positions shift when a list of
    /// covenant hashes is de-duplicated and then used to index the transaction's own list)
    ForeignTwiceFirst,
    /// every covenant of the list twice in a row
    EachTwice,
}

#[derive(Clone, Copy, Debug, PartialEq)]
enum SigVariant {
    Valid,
    BitFlip,
    WrongKey,
    WrongSlot,
    SignedBeforeDataChange,
    None,
}

fn build_spend(fams: &[Family], fx: &Fixture, assign: &[(usize, usize)], covs: CovList, sigv: SigVariant, right_data: bool, kind: TxKind) -> (Transaction, Vec<(CoinID, CoinDataHeight)>) {
    let inputs: Vec<(CoinID, CoinDataHeight)> = assign.iter().map(|(f, j)| fx.coins[*f][*j].clone()).collect();
    let total: u128 = inputs.iter().map(|i| i.1.coin_data.value.0).sum();
    let mut cov_list: Vec<Bytes> = vec![];
    for (f, _) in assign {
        if !cov_list.contains(&fams[*f].bytes) {
            cov_list.push(fams[*f].bytes.clone());
        }
    }
    match covs {
        CovList::Complete => {}
        CovList::MissingFirst => {
            cov_list.remove(0);
        }
        CovList::MissingLast => {
            cov_list.pop();
        }
        CovList::Extra => cov_list.push(cov_true_n(77).to_bytes()),
        CovList::ForeignTwiceFirst => {
            cov_list.insert(0, cov_true_n(78).to_bytes());
            cov_list.insert(0, cov_true_n(78).to_bytes());
        }
        CovList::EachTwice => cov_list = cov_list.iter().flat_map(|c| [c.clone(), c.clone()]).collect(),
        CovList::WrongBytesSameLength => {
            let mut b = cov_list[0].to_vec();
            let l = b.len();
            b[l - 1] ^= 1;
            cov_list[0] = b.into();
        }
    }
    let mut tx = mktx(kind, inputs.iter().map(|i| i.0).collect(), vec![out_t(total, Denom::Mel)], 0, cov_list, if right_data { PREIMAGE.to_vec() } else { b"wrong".to_vec() });
    // signatures: slot 0 by K0 (legacy covenant), slot i by K1 for every input i under the new covenant
    let n = inputs.len();
    let mut sigs: Vec<Bytes> = vec![Bytes::new(); n];
    let sign_with = |k: u8, t: &Transaction| -> Bytes { key(k).1.sign(&t.hash_nosigs().0).into() };
    let (k_legacy, k_new) = if sigv == SigVariant::WrongKey { (5u8, 6u8) } else { (0u8, 1u8) };
    let pre = if sigv == SigVariant::SignedBeforeDataChange {
        let mut t0 = tx.clone();
        t0.data = b"earlier data".to_vec().into();
        t0
    } else {
        tx.clone()
    };
    if sigv != SigVariant::None {
        let uses_legacy = assign.iter().any(|(f, _)| fams[*f].name.starts_with("legacy"));
        for (i, (f, _)) in assign.iter().enumerate() {
            if fams[*f].name.starts_with("new-sig") {
                sigs[i] = sign_with(k_new, &pre);
            }
        }
        if uses_legacy {
            // slot 0 must hold K0's signature; if slot 0 is also needed by a new-sig input the two requirements conflict (then one of them fails, by the reference too)
            sigs[0] = sign_with(k_legacy, &pre);
        }
        match sigv {
            SigVariant::BitFlip => {
                for s in sigs.iter_mut() {
                    if !s.is_empty() {
                        let mut b = s.to_vec();
                        b[10] ^= 4;
                        *s = b.into();
                        break;
                    }
                }
            }
            SigVariant::WrongSlot => sigs.rotate_right(1),
            _ => {}
        }
    }
    tx.sigs = sigs;
    (tx, inputs)
}

fn judge(run: &Run, fams: &[Family], fx: &Fixture, assign: &[(usize, usize)], tx: &Transaction, inputs: &[(CoinID, CoinDataHeight)], variant: &str) {
    run.transition();
    let (exp, why) = expected(tx, inputs, fx.last_header);
    let mut st = fx.state.clone();
    let got = guard(|| st.apply_tx(tx));
    run.validated();
    let names: Vec<&str> = assign.iter().map(|(f, _)| fams[*f].name).collect();
    let same_cov_twice = (0..assign.len()).any(|i| (0..i).any(|j| assign[i].0 == assign[j].0));
    let replay = json!({"fixture": fx.label, "inputs": names, "variant": variant, "tx": tx_json(tx)});
    match got {
        Err(p) => {
            run.outcome("panic(reported under C09)");
            let _ = p;
        }
        Ok(Ok(())) if !exp => {
            run.violation(
                "C04",
                format!("spent-without-approval/shared-covenant={}/{}", same_cov_twice, why.split(": ").nth(1).unwrap_or("").split(' ').take(2).collect::<Vec<_>>().join("-")),
                format!("{} inputs {:?} variant {}: accepted although {}", fx.label, names, variant, why),
                replay,
            );
        }
        Ok(Err(e)) if exp => {
            run.violation("C04", format!("approved-spend-rejected/{}", variant.split('/').next().unwrap_or("")), format!("{} inputs {:?} variant {}: rejected ({}) although every covenant approves", fx.label, names, variant, e), replay);
        }
        Ok(Ok(())) => run.outcome("accepted-as-expected"),
        Ok(Err(_)) => run.outcome("rejected-as-expected"),
    }
}

/// All programs of length <= max_len over the environment-reading alphabet, each locking one coin spent alone.
fn program_families(run: &Run, max_len: usize) -> u64 {
    use OpCode::*;
    let mut alpha: Vec<OpCode> = (0u16..=10).map(LoadImm).collect();
    alpha.extend([pi(0), pi(1), pi(2), Eql, Lt, VRef, Not]);
    let mut programs: Vec<Vec<OpCode>> = vec![];
    let mut level: Vec<Vec<OpCode>> = vec![vec![]];
    for _ in 0..max_len {
        let mut next = vec![];
        for p in &level {
            for a in &alpha {
                let mut q = p.clone();
                q.push(a.clone());
                next.push(q);
            }
        }
        programs.extend(next.iter().cloned());
        level = next;
    }
    let total = programs.len() as u64;
    // fund 200 programs per funding transaction
    programs.par_chunks(200).for_each(|chunk| {
        let w = world_mel(NetID::Custom02, 10_000_000, 0);
        let g = w.genesis.clone().seal(None);
        let mut u = g.next_unsealed();
        let mut outs: Vec<_> = chunk.iter().map(|p| out(Covenant::from_ops(p).hash(), 1000, Denom::Mel)).collect();
        outs.push(out_t(10_000_000 - 1000 * chunk.len() as u128, Denom::Mel));
        let fund = tx_t(TxKind::Normal, vec![CoinID::zero_zero()], outs, 0, vec![]);
        u.apply_tx(&fund).expect("funding programs");
        let s1 = u.seal(None);
        let lh = s1.header();
        let st = s1.next_unsealed();
        for (i, p) in chunk.iter().enumerate() {
            let id = fund.output_coinid(i as u8);
            let cdh = CoinDataHeight { coin_data: fund.outputs[i].clone(), height: BlockHeight(1) };
            let tx = mktx(TxKind::Normal, vec![id], vec![out_t(1000, Denom::Mel)], 0, vec![Covenant::from_ops(p).to_bytes()], vec![]);
            run.transition();
            let (exp, why) = expected(&tx, &[(id, cdh)], lh);
            let mut s2 = st.clone();
            let got = guard(|| s2.apply_tx(&tx));
            run.validated();
            let prog = crate::vmrun::prog_str(p);
            match got {
                Ok(Ok(())) if !exp && !why.contains("disagree") => run.violation("C04", "spent-without-approval/program".into(), format!("coin locked by [{}] was spent although {}", prog, why), json!({"program": prog, "tx": tx_json(&tx)})),
                Ok(Err(e)) if exp => run.violation("C04", "approved-spend-rejected/program".into(), format!("coin locked by [{}] could not be spent ({}) although the covenant approves", prog, e), json!({"program": prog, "tx": tx_json(&tx)})),
                Ok(Ok(())) => run.outcome("program:accepted-as-expected"),
                Ok(Err(_)) => run.outcome("program:rejected-as-expected"),
                Err(_) => run.outcome("program:panic(reported under C09)"),
            }
        }
    });
    total
}

/// Height-0 spends of the genesis coin locked by each family (the previous header is synthesised there).
fn genesis_spends(run: &Run, fams: &[Family]) {
    for f in fams {
        let w = world(NetID::Custom02, out(addr_of(&f.bytes), 5000, Denom::Mel), 0, 0, Default::default());
        let u = w.genesis.clone();
        let lh = match guard(|| u.clone().seal(None).header()) {
            Ok(h) => h,
            Err(_) => continue,
        };
        let id = CoinID::zero_zero();
        let cdh = CoinDataHeight { coin_data: out(addr_of(&f.bytes), 5000, Denom::Mel), height: BlockHeight(0) };
        let mut tx = mktx(TxKind::Normal, vec![id], vec![out_t(5000, Denom::Mel)], 0, vec![f.bytes.clone()], PREIMAGE.to_vec());
        let k = if f.name.starts_with("legacy") { 0 } else { 1 };
        tx.sigs = vec![key(k).1.sign(&tx.hash_nosigs().0).into()];
        run.transition();
        let (exp, why) = expected(&tx, &[(id, cdh)], lh);
        let mut s = u.clone();
        let got = guard(|| s.apply_tx(&tx));
        run.validated();
        match got {
            Ok(Ok(())) if !exp => run.violation("C04", "spent-without-approval/height0".into(), format!("genesis coin under {} spent at height 0 although {}", f.name, why), json!({"family": f.name})),
            Ok(Err(e)) if exp => run.violation("C04", "approved-spend-rejected/height0".into(), format!("genesis coin under {}: {}", f.name, e), json!({"family": f.name})),
            _ => run.outcome("height0:as-expected"),
        }
    }
}

/// Readers of the previous header's three 128-bit scalars (fee pool, fee multiplier, DOSC speed) on chains where those have
/// grown past 64 bits: the covenant must see the header's own values, not their low halves.
fn large_header_readers(run: &Run) {
    use OpCode::*;
    let big = |v: u128| OpCode::PushI(ethnum::U256::from(v));
    let values: [u128; 5] = [(1 << 64) - 1, 1 << 64, (1 << 64) + 12345, (1 << 100) + 7, (1 << 119) + 3];
    let grid: Vec<(u64, u128)> = (6u64..=8).flat_map(|k| values.iter().map(move |v| (k, *v))).collect();
    grid.par_iter().for_each(|(k, v)| {
        let (k, v) = (*k, *v);
        // the multiplier prices the spend itself: keep it where a coin can still pay for it
        let v = if k == 7 { v.min((1 << 100) + 7) } else { v };
        let field = || vec![pi(k), LoadImm(10), VRef];
        let cat = |a: Vec<OpCode>, b: Vec<OpCode>| a.into_iter().chain(b).collect::<Vec<_>>();
        let programs: Vec<(&str, Vec<OpCode>)> = vec![
            ("field<2^64", cat(vec![big(1 << 64)], cat(field(), vec![Lt]))),
            ("2^64-1<field", cat(field(), vec![big((1 << 64) - 1), Lt])),
            ("field==its-value", cat(field(), vec![big(v), Eql])),
            ("field==its-low-64-bits", cat(field(), vec![big(v & ((1 << 64) - 1)), Eql])),
            ("field>>64==0", cat(vec![pi(64)], cat(field(), vec![Shr, pi(0), Eql]))),
        ];
        let coin: u128 = 1 << 110;
        let w = world_mel(NetID::Custom02, 1 << 119, 0);
        let g = w.genesis.clone().seal(None);
        let mut u = g.next_unsealed();
        let mut outs: Vec<_> = programs.iter().map(|(_, p)| out(Covenant::from_ops(p).hash(), coin, Denom::Mel)).collect();
        outs.push(out_t((1 << 119) - coin * programs.len() as u128, Denom::Mel));
        let fund = tx_t(TxKind::Normal, vec![CoinID::zero_zero()], outs, 0, vec![]);
        u.apply_tx(&fund).expect("funding header readers");
        let s1 = u.seal(None);
        let (fp, fm, ds) = match k {
            6 => (v, 0, 1_000_000),
            7 => (0, v, 1_000_000),
            _ => (0, 0, v),
        };
        let fab = match guard(|| fabricate_with(&s1, &w.db, NetID::Custom02, 7, fp, fm, ds)) {
            Ok(f) => f,
            Err(_) => {
                run.outcome("large-header:fabrication-panicked");
                return;
            }
        };
        let lh = fab.header();
        let st = fab.next_unsealed();
        run.state();
        for (i, (name, p)) in programs.iter().enumerate() {
            let id = fund.output_coinid(i as u8);
            let cdh = CoinDataHeight { coin_data: fund.outputs[i].clone(), height: BlockHeight(1) };
            let cov = Covenant::from_ops(p).to_bytes();
            let probe = mktx(TxKind::Normal, vec![id], vec![out_t(coin, Denom::Mel)], 1 << 109, vec![cov.clone()], vec![]);
            let fee = min_fee(&probe, fm) * 2;
            let tx = mktx(TxKind::Normal, vec![id], vec![out_t(coin - fee, Denom::Mel)], fee, vec![cov], vec![]);
            run.transition();
            let (exp, why) = expected(&tx, &[(id, cdh)], lh);
            let mut s2 = st.clone();
            let got = guard(|| s2.apply_tx(&tx));
            run.validated();
            let what = format!("header field {} = {} / covenant {}", k, v, name);
            match got {
                Ok(Ok(())) if !exp => run.violation("C04", "spent-without-approval/large-header".into(), format!("{}: spent although {}", what, why), json!({"field": k, "value": v.to_string(), "covenant": name, "tx": tx_json(&tx)})),
                Ok(Err(e)) if exp => run.violation("C04", "approved-spend-rejected/large-header".into(), format!("{}: {}", what, e), json!({"field": k, "value": v.to_string(), "covenant": name, "tx": tx_json(&tx)})),
                Ok(Ok(())) => run.outcome("large-header:accepted-as-expected"),
                Ok(Err(_)) => run.outcome("large-header:rejected-as-expected"),
                Err(_) => run.outcome("large-header:panic(reported under C09)"),
            }
        }
    });
    run.set("large_header_grid", json!({"fields": ["fee_pool", "fee_multiplier", "dosc_speed"], "values": values.iter().map(|v| v.to_string()).collect::<Vec<_>>(), "covenants_per_point": 5}));
}

/// Coins of value zero are coins like any other: spending one needs its covenant's approval (the marker a faucet leaves behind
/// is such a coin).  One zero-valued coin per family, spent next to an ordinary coin, with and without its covenant attached.
fn zero_valued_coins(run: &Run, fams: &[Family]) {
    let w = world_mel(NetID::Custom02, 10_000_000, 0);
    let g = w.genesis.clone().seal(None);
    let mut u = g.next_unsealed();
    let mut outs: Vec<_> = fams.iter().map(|f| out(addr_of(&f.bytes), 0, Denom::Mel)).collect();
    outs.push(out_t(10_000_000, Denom::Mel));
    let fund = tx_t(TxKind::Normal, vec![CoinID::zero_zero()], outs, 0, vec![0x5a]);
    if guard(|| u.apply_tx(&fund)).map(|r| r.is_err()).unwrap_or(true) {
        run.outcome("zero-valued-coins:funding-not-accepted");
        return;
    }
    let s1 = u.seal(None);
    let lh = s1.header();
    let st = s1.next_unsealed();
    let carrier = fund.output_coinid(fams.len() as u8);
    let carrier_cdh = CoinDataHeight { coin_data: fund.outputs[fams.len()].clone(), height: BlockHeight(1) };
    let true_cov = Covenant::from_ops(&[pi(1)]).to_bytes();
    for (i, f) in fams.iter().enumerate() {
        let id = fund.output_coinid(i as u8);
        let cdh = CoinDataHeight { coin_data: fund.outputs[i].clone(), height: BlockHeight(1) };
        for (variant, covs) in [("covenant attached", vec![f.bytes.clone(), true_cov.clone()]), ("covenant not attached", vec![true_cov.clone()])] {
            for zero_first in [true, false] {
                let inputs = if zero_first { vec![(id, cdh.clone()), (carrier, carrier_cdh.clone())] } else { vec![(carrier, carrier_cdh.clone()), (id, cdh.clone())] };
                let mut tx = mktx(TxKind::Normal, inputs.iter().map(|x| x.0).collect(), vec![out_t(10_000_000, Denom::Mel)], 0, covs.clone(), PREIMAGE.to_vec());
                let k = if f.name.starts_with("legacy") { 0 } else { 1 };
                tx.sigs = vec![key(k).1.sign(&tx.hash_nosigs().0).into()];
                run.transition();
                let (exp, why) = expected(&tx, &inputs, lh);
                let mut s2 = st.clone();
                let got = guard(|| s2.apply_tx(&tx));
                run.validated();
                let what = format!("zero-valued coin under {} ({}, {})", f.name, variant, if zero_first { "first input" } else { "second input" });
                match got {
                    Ok(Ok(())) if !exp => run.violation("C04", "spent-without-approval/zero-valued-coin".into(), format!("{}: spent although {}", what, why), json!({"family": f.name, "variant": variant, "zero_first": zero_first, "tx": tx_json(&tx)})),
                    Ok(Err(e)) if exp => run.violation("C04", "approved-spend-rejected/zero-valued-coin".into(), format!("{}: {}", what, e), json!({"family": f.name, "variant": variant, "zero_first": zero_first, "tx": tx_json(&tx)})),
                    Ok(Ok(())) => run.outcome("zero-valued-coin:accepted-as-expected"),
                    Ok(Err(_)) => run.outcome("zero-valued-coin:rejected-as-expected"),
                    Err(_) => run.outcome("zero-valued-coin:panic(reported under C09)"),
                }
            }
        }
    }
}

/// Positions beyond 255: a transaction of 257 inputs whose last input (position 256) is a coin bound to a position, or a coin
/// under the new-style signature covenant (signature expected in the slot of its position).  melvm shows a covenant its position
/// in 8 bits; the statement says "its position among the inputs" (finding AE: position 256 was shown as 0).
fn positions_beyond_255(run: &Run) {
    let w = world_mel(NetID::Custom02, 10_000_000, 0);
    let g = w.genesis.clone().seal(None);
    let mut u = g.next_unsealed();
    let at = |k: u64| Covenant::from_ops(&[OpCode::LoadImm(9), pi(k), OpCode::Eql]).to_bytes();
    let sigcov = Covenant::std_ed25519_pk_new(key(1).0).to_bytes();
    let mut outs1: Vec<_> = (0..254).map(|_| out_t(1, Denom::Mel)).collect();
    outs1.push(out_t(10_000_000 - 254, Denom::Mel));
    let fund1 = tx_t(TxKind::Normal, vec![CoinID::zero_zero()], outs1, 0, vec![1]);
    let rest = 10_000_000 - 254 - 8;
    let specials: Vec<(&str, bytes::Bytes)> = vec![("bound-to-position-0", at(0)), ("bound-to-position-1", at(1)), ("bound-to-position-255", at(255)), ("bound-to-position-256", at(256)), ("new-style-signature", sigcov.clone())];
    let mut outs2: Vec<_> = vec![out_t(1, Denom::Mel), out_t(1, Denom::Mel), out_t(1, Denom::Mel)];
    for (_, c) in &specials {
        outs2.push(out(addr_of(c), 1, Denom::Mel));
    }
    outs2.push(out_t(rest, Denom::Mel));
    let fund2 = tx_t(TxKind::Normal, vec![fund1.output_coinid(254)], outs2, 0, vec![2]);
    if guard(|| u.apply_tx_batch(&[fund1.clone(), fund2.clone()])).map(|r| r.is_err()).unwrap_or(true) {
        run.outcome("positions-beyond-255:funding-not-accepted");
        return;
    }
    let s1 = u.seal(None);
    let lh = s1.header();
    let st = s1.next_unsealed();
    let cdh = |t: &Transaction, i: usize| (t.output_coinid(i as u8), CoinDataHeight { coin_data: t.outputs[i].clone(), height: BlockHeight(1) });
    let plain: Vec<(CoinID, CoinDataHeight)> = (0..254).map(|i| cdh(&fund1, i)).chain((0..3).map(|i| cdh(&fund2, i))).collect();
    let true_cov = cov_true().to_bytes();
    for (si, (name, cov)) in specials.iter().enumerate() {
        let special = cdh(&fund2, 3 + si);
        for pos in [0usize, 1, 255, 256] {
            let mut inputs: Vec<(CoinID, CoinDataHeight)> = plain.iter().take(256).cloned().collect();
            inputs.insert(pos, special.clone());
            let total: u128 = inputs.iter().map(|x| x.1.coin_data.value.0).sum();
            for sig_slot in if *name == "new-style-signature" { vec![Some(0usize), Some(pos), None] } else { vec![None] } {
                let mut tx = mktx(TxKind::Normal, inputs.iter().map(|x| x.0).collect(), vec![out_t(total, Denom::Mel)], 0, vec![true_cov.clone(), cov.clone()], vec![]);
                if let Some(slot) = sig_slot {
                    let sig: bytes::Bytes = key(1).1.sign(&tx.hash_nosigs().0).into();
                    tx.sigs = (0..=slot).map(|i| if i == slot { sig.clone() } else { bytes::Bytes::new() }).collect();
                }
                run.transition();
                let (exp, why) = expected(&tx, &inputs, lh);
                let mut s2 = st.clone();
                let got = guard(|| s2.apply_tx(&tx));
                run.validated();
                let what = format!("257 inputs, the coin '{}' at position {}{}", name, pos, sig_slot.map(|s| format!(", signature in slot {}", s)).unwrap_or_default());
                let replay = json!({"inputs": 257, "special": name, "position": pos, "signature_slot": sig_slot});
                match got {
                    Ok(Ok(())) if !exp => run.violation("C04", format!("spent-without-approval/position-beyond-255={}", pos > 255), format!("{}: accepted although {}", what, why), replay),
                    // (sufficiency is stated for the standard signature covenants; a position the covenant environment cannot hold makes
                    // the transaction ill-formed for the code - recorded, like every refusal that is not about the covenant)
                    Ok(Err(e)) if exp => run.outcome(&format!("positions-beyond-255:approved-but-refused:{}:{}", if pos > 255 { "position>255" } else { "position<=255" }, e.to_string().split(':').next().unwrap_or("").chars().take(30).collect::<String>())),
                    Ok(Ok(())) => run.outcome("positions-beyond-255:accepted-as-expected"),
                    Ok(Err(_)) => run.outcome("positions-beyond-255:rejected-as-expected"),
                    Err(_) => run.outcome("positions-beyond-255:panic(reported under C09)"),
                }
            }
        }
    }
}

/// Two spends in one batch (and in one block): A spends the first coin of a family and carries the covenant; B spends the family's
/// second coin and carries the covenant, no covenant at all, or other bytes of the same length.  What A carries is A's: the batch
/// is acceptable only if each transaction is approved by covenants *it* carries, in either order, as a batch and as a block.
fn companions_in_one_batch(run: &Run, fams: &[Family], fxs: &[Fixture]) {
    let fx = &fxs[1];
    let parent = None::<()>;
    let _ = parent;
    let mut cases = 0u64;
    for f in 0..fams.len() {
        let (a, a_in) = build_spend(fams, fx, &[(f, 0)], CovList::Complete, SigVariant::Valid, true, TxKind::Normal);
        let (a_ok, _) = expected(&a, &a_in, fx.last_header);
        for cv in [CovList::Complete, CovList::MissingFirst, CovList::WrongBytesSameLength] {
            let (b, b_in) = build_spend(fams, fx, &[(f, 1)], cv, SigVariant::Valid, true, TxKind::Normal);
            let (b_ok, why) = expected(&b, &b_in, fx.last_header);
            for (order, txs) in [("carrier first", vec![a.clone(), b.clone()]), ("carrier last", vec![b.clone(), a.clone()])] {
                cases += 1;
                run.transition();
                let mut st = fx.state.clone();
                let got = guard(|| st.apply_tx_batch(&txs));
                run.validated();
                match got {
                    Ok(Ok(())) if !(a_ok && b_ok) => run.violation(
                        "C04",
                        format!("spent-without-approval/in-a-batch-with-a-carrier/{:?}", cv),
                        format!("{}: a batch of two spends of [{}] coins ({}) was accepted although {} - the other transaction of the batch carries the covenant", fx.label, fams[f].name, order, if !b_ok { why.clone() } else { "the carrier itself is not approved".into() }),
                        json!({"fixture": fx.label, "family": fams[f].name, "order": order, "second_spend_covenants": format!("{:?}", cv), "txs": txs.iter().map(tx_json).collect::<Vec<_>>()}),
                    ),
                    Ok(Ok(())) => run.outcome("companions:accepted-as-expected"),
                    Ok(Err(_)) if a_ok && b_ok => run.outcome("companions:rejected-although-both-approved(recorded)"),
                    Ok(Err(_)) => run.outcome("companions:rejected-as-expected"),
                    Err(_) => run.outcome("panic(reported under C09)"),
                }
            }
        }
    }
    run.set("companions_in_one_batch", json!({"cases": cases, "families": fams.len()}));
}

pub fn run(run: &Run) {
    let thorough = run.thorough();
    let fams = families();
    let fxs = fixtures(&fams);
    let nf = fams.len();
    // assignments of (family, which of its two coins) to input positions
    let mut assigns: Vec<Vec<(usize, usize)>> = vec![];
    for a in 0..nf {
        assigns.push(vec![(a, 0)]);
        for b in 0..nf {
            // the same family twice uses its two different coins
            assigns.push(vec![(a, 0), (b, if a == b { 1 } else { 0 })]);
        }
    }
    // triples: all in thorough; in quick those containing an index-/signature-sensitive family twice or a mix of the sensitive ones
    let sensitive: Vec<usize> = fams.iter().enumerate().filter(|(_, f)| f.name.starts_with("index") || f.name.contains("sig") || f.name == "true").map(|(i, _)| i).collect();
    for a in 0..nf {
        for b in 0..nf {
            for c in 0..nf {
                // quick tier: the families added last (more undecodable shapes, header readers) take part in singles and pairs only
                if !thorough && [a, b, c].iter().any(|x| *x >= 15) && !([a, b, c].contains(&21) && [a, b, c].contains(&22)) {
                    continue;
                }
                let mut used = vec![0usize; nf];
                let mut v = vec![];
                let mut ok = true;
                for f in [a, b, c] {
                    if used[f] >= 2 {
                        ok = false;
                        break;
                    }
                    v.push((f, used[f]));
                    used[f] += 1;
                }
                if ok {
                    assigns.push(v);
                }
            }
        }
    }
    run.set("covenant_families", json!(fams.iter().map(|f| f.name).collect::<Vec<_>>()));
    run.set("input_assignments", json!(assigns.len()));
    run.set("fixtures", json!(fxs.iter().map(|f| f.label).collect::<Vec<_>>()));
    let cov_variants = [CovList::Complete, CovList::MissingFirst, CovList::MissingLast, CovList::Extra, CovList::WrongBytesSameLength, CovList::ForeignTwiceFirst, CovList::EachTwice];
    let sig_variants = [SigVariant::Valid, SigVariant::BitFlip, SigVariant::WrongKey, SigVariant::WrongSlot, SigVariant::SignedBeforeDataChange, SigVariant::None];
    for fx in &fxs {
        assigns.par_iter().for_each(|assign| {
            run.state();
            let has_sig = assign.iter().any(|(f, _)| fams[*f].name.contains("sig"));
            let has_hash = assign.iter().any(|(f, _)| fams[*f].name == "hash-lock");
            for cv in cov_variants {
                for sv in sig_variants {
                    if !has_sig && sv != SigVariant::Valid && sv != SigVariant::None {
                        continue;
                    }
                    for right_data in [true, false] {
                        if !has_hash && !right_data {
                            continue;
                        }
                        let repeats = cv == CovList::ForeignTwiceFirst || cv == CovList::EachTwice;
                        if cv != CovList::Complete && !repeats && (sv != SigVariant::Valid || !right_data) {
                            continue;
                        }
                        if repeats && assign.len() > 2 {
                            continue;
                        }
                        let (tx, inputs) = build_spend(&fams, fx, assign, cv, sv, right_data, TxKind::Normal);
                        judge(run, &fams, fx, assign, &tx, &inputs, &format!("{:?}/{:?}/data={}", cv, sv, right_data));
                        // the covenant rule does not depend on the transaction's kind: the same spend as a faucet (balance-exempt, but
                        // its inputs are consumed all the same), a swap, a deposit and a withdrawal (none of which names a pool here)
                        if cv == CovList::Complete || cv == CovList::MissingFirst {
                            for kind in [TxKind::Faucet, TxKind::Swap, TxKind::LiqDeposit, TxKind::LiqWithdraw] {
                                if assign.len() > 2 && kind != TxKind::Faucet {
                                    continue;
                                }
                                let (tx, inputs) = build_spend(&fams, fx, assign, cv, sv, right_data, kind);
                                judge(run, &fams, fx, assign, &tx, &inputs, &format!("{:?}/{:?}/data={}/kind={}", cv, sv, right_data, kind));
                            }
                        }
                    }
                }
            }
        });
    }
    companions_in_one_batch(run, &fams, &fxs);
    positions_beyond_255(run);
    genesis_spends(run, &fams);
    large_header_readers(run);
    zero_valued_coins(run, &fams);
    let progs = program_families(run, if thorough { 4 } else { 3 });
    run.states_add(progs);
    run.set("environment_reading_programs", json!(progs));
    run.sample(json!({"inputs": ["index-bound(0)", "index-bound(0)"], "variant": "Complete/Valid", "expected": "rejected: the second coin's covenant sees spender_index = 1"}));
    run.sample(json!({"inputs": ["new-sig(K1)", "true"], "variant": "Complete/WrongSlot", "expected": "rejected: K1's signature is not in slot 0"}));
    run.assume("all other acceptance conditions (existence, balance, fee, lock) hold by construction of the spending transactions, so acceptance must equal covenant approval");
    run.assume("the reference VM is cross-checked against melvm on every evaluation; a disagreement is skipped here and is C10's subject");
}
