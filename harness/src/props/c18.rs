//! C18 — ERG is minted only against valid sequential work, within the reward formula.
//! E3 with real MelPoW proofs: coin ages x difficulties x hash variants x ERG amounts around the
//! bound x corruptions of proof / puzzle seed / encoding, through the engine's lock-step batch oracle.
use crate::guard::guard;
use crate::props::e1::*;
use crate::refstf::{ref_dosc_to_erg, ref_reward, LegacyHash, Tip910Hash};
use crate::report::Run;
use crate::stf::*;
use crate::world::*;
use melstructs::{BlockHeight, CoinID, Denom, NetID, Transaction, TxKind};
use num::BigInt;
use rayon::prelude::*;
use serde_json::json;

fn puzzle(header_at_coin_height: &melstructs::Header, coin: &CoinID) -> tmelcrypt::HashVal {
    tmelcrypt::hash_keyed(header_at_coin_height.hash(), stdcode::serialize(coin).unwrap())
}

fn mint_tx(coin: CoinID, coin_value: u128, difficulty: u32, proof: &[u8], erg: u128, extra_erg_output: bool) -> Transaction {
    let mut outs = vec![out_t(coin_value, Denom::Mel)];
    if erg > 0 || extra_erg_output {
        outs.push(out_t(erg, Denom::Erg));
    }
    if extra_erg_output {
        outs.push(out_t(1, Denom::Erg));
    }
    tx_t(TxKind::DoscMint, vec![coin], outs, 0, stdcode::serialize(&(difficulty, proof.to_vec())).unwrap())
}

/// Advances a sealed node by `n` empty blocks.
fn advance(eng: &Engine, mut node: Node, n: u64) -> Option<Node> {
    for _ in 0..n {
        node = match eng.step(&node, &Action::Open) {
            StepOut::Next(x) => x,
            _ => return None,
        };
        node = match eng.step(&node, &Action::Seal(None)) {
            StepOut::Next(x) => x,
            _ => return None,
        };
    }
    Some(node)
}

struct Case {
    label: String,
    tx: Transaction,
    /// fully valid mint within the reward: acceptance is expected (non-vacuity only)
    valid: bool,
}

fn cases_for(open: &Node, coins: &[(CoinID, u128, u64)], difficulties: &[(u32, bool)], thorough: bool, other_header: &melstructs::Header) -> Vec<Case> {
    let v = open.view();
    let height = open.model.height;
    let prev_speed = v.history(BlockHeight(height - 1)).map(|h| h.dosc_speed).unwrap_or(1_000_000);
    let mut out = vec![];
    for (ci, (coin, value, coin_height)) in coins.iter().enumerate() {
        let age = height - coin_height;
        let hdr = match v.history(BlockHeight(*coin_height)) {
            Some(h) => h,
            None => continue,
        };
        let pz = puzzle(&hdr, coin);
        for (d, tip910) in difficulties {
            let proof = if *tip910 { melpow::Proof::generate(&pz, *d as usize, Tip910Hash) } else { melpow::Proof::generate(&pz, *d as usize, LegacyHash) };
            let pb = proof.to_bytes();
            // the reference verifier must agree with the generator on honest proofs (otherwise the reference is wrong: no verdict)
            {
                use crate::refpow::*;
                let hf: &dyn Fn(&[u8], &[u8]) -> [u8; 32] = if *tip910 { &hash_tip910 } else { &hash_legacy };
                if ref_pow_verify(&pb, &pz.0, *d as usize, hf) != PowVerdict::Valid {
                    eprintln!("MACHINERY-FAILURE: the reference MelPoW verifier refuses an honestly generated proof (d={} tip910={})", d, tip910);
                    std::process::exit(2);
                }
            }
            let speed = (if *tip910 { 100u128 } else { 1 }) * (1u128 << d) / age as u128;
            let reward = ref_reward(speed, prev_speed, *d, *tip910);
            let max_erg = ref_dosc_to_erg(height, reward).unwrap_or(u128::MAX);
            let base = format!("coin{} age={} d={} {}", ci, age, d, if *tip910 { "tip910" } else { "legacy" });
            // ERG amounts around the bound
            // (far into the chain the bound exceeds what a coin can hold: amounts above 2^120 are ill-formed whatever the bound)
            let coin_max: u128 = 1 << 120;
            let mut amounts = vec![0u128, max_erg, max_erg.saturating_add(1), max_erg.saturating_mul(2).saturating_add(1), coin_max.min(max_erg), coin_max];
            if max_erg > 0 {
                amounts.push(max_erg - 1);
            }
            amounts.sort();
            amounts.dedup();
            for e in amounts {
                out.push(Case { label: format!("{} erg={}(max {})", base, e, max_erg), tx: mint_tx(*coin, *value, *d, &pb, e, false), valid: e <= max_erg && e <= coin_max });
            }
            // the exemption from the balance rule is for the ERG a mint creates, nothing else: the same valid proof with one unit of MEL
            // more than it spends, and with a SYM output out of nothing (mutation scan: `currency == Erg` -> `!= Erg` survived)
            {
                let mut t = mint_tx(*coin, *value, *d, &pb, 0, false);
                t.outputs[0].value = melstructs::CoinValue(*value + 1);
                out.push(Case { label: format!("{} valid proof, MEL output one unit above the input", base), tx: t, valid: false });
                let mut t = mint_tx(*coin, *value, *d, &pb, 0, false);
                t.outputs.push(out_t(5, Denom::Sym));
                out.push(Case { label: format!("{} valid proof, a SYM output out of nothing", base), tx: t, valid: false });
            }
            // the bound applies to the *sum* of ERG outputs
            out.push(Case { label: format!("{} erg split over two outputs = max+1", base), tx: mint_tx(*coin, *value, *d, &pb, max_erg, true), valid: false });
            // claimed difficulty +-1
            out.push(Case { label: format!("{} claimed d+1", base), tx: mint_tx(*coin, *value, *d + 1, &pb, 0, false), valid: false });
            if *d > 1 {
                out.push(Case { label: format!("{} claimed d-1", base), tx: mint_tx(*coin, *value, *d - 1, &pb, 0, false), valid: false });
            }
            // encoding
            let mut data = stdcode::serialize(&(*d, pb.clone())).unwrap();
            let mut t = mint_tx(*coin, *value, *d, &pb, 0, false);
            data.push(0);
            t.data = data.clone().into();
            out.push(Case { label: format!("{} data with trailing byte", base), tx: t.clone(), valid: false });
            data.truncate(data.len() - 2);
            t.data = data.into();
            out.push(Case { label: format!("{} data truncated", base), tx: t.clone(), valid: false });
            t.data = vec![].into();
            out.push(Case { label: format!("{} empty data", base), tx: t, valid: false });
            out.push(Case { label: format!("{} empty proof", base), tx: mint_tx(*coin, *value, *d, &[], 0, false), valid: false });
            out.push(Case { label: format!("{} proof of 39 bytes", base), tx: mint_tx(*coin, *value, *d, &pb[..39.min(pb.len())], 0, false), valid: false });
            out.push(Case { label: format!("{} proof of 40 zero bytes", base), tx: mint_tx(*coin, *value, *d, &[0u8; 40], 0, false), valid: false });
            // unit corruptions: remove / bit-flip each 40-byte unit (all units for small proofs, a spread otherwise)
            let units = pb.len() / 40;
            let step = if *d <= 4 || (thorough && *d <= 6) { 1 } else { (units / if thorough { 16 } else { 6 }).max(1) };
            for u in (0..units).step_by(step) {
                let mut removed = pb.clone();
                removed.drain(u * 40..(u + 1) * 40);
                out.push(Case { label: format!("{} unit {} of {} removed", base, u, units), tx: mint_tx(*coin, *value, *d, &removed, 0, false), valid: false });
                let mut flipped = pb.clone();
                flipped[u * 40 + 20] ^= 1;
                out.push(Case { label: format!("{} unit {} of {} label bit flipped", base, u, units), tx: mint_tx(*coin, *value, *d, &flipped, 0, false), valid: false });
            }
            // a "proof" made without the work: the challenged leaves hashed from filler labels (about 200 hashes at any difficulty),
            // at the honest difficulty and at 40 (2^40 steps of work claimed), with and without ERG claimed
            {
                use crate::refpow::*;
                let hf: &dyn Fn(&[u8], &[u8]) -> [u8; 32] = if *tip910 { &hash_tip910 } else { &hash_legacy };
                for fd in [*d, 40u32] {
                    let forged = forged_proof(&pz.0, fd as usize, hf);
                    let fspeed = (if *tip910 { 100u128 } else { 1 }) * (1u128 << fd) / age as u128;
                    let fmax = ref_dosc_to_erg(height, ref_reward(fspeed, prev_speed, fd, *tip910)).unwrap_or(u128::MAX).min(1 << 120);
                    out.push(Case { label: format!("{} forged proof (no sequential work) claiming d={} erg=0", base, fd), tx: mint_tx(*coin, *value, fd, &forged, 0, false), valid: false });
                    if fmax > 0 {
                        out.push(Case { label: format!("{} forged proof (no sequential work) claiming d={} erg={}", base, fd, fmax), tx: mint_tx(*coin, *value, fd, &forged, fmax, false), valid: false });
                    }
                }
            }
            // puzzle seed: proof made for another coin / for another height's header
            if let Some((other, ov, _)) = coins.iter().find(|c| c.0 != *coin) {
                out.push(Case { label: format!("{} proof used for another coin", base), tx: mint_tx(*other, *ov, *d, &pb, 0, false), valid: false });
            }
            let pz2 = puzzle(other_header, coin);
            let p2 = if *tip910 { melpow::Proof::generate(&pz2, *d as usize, Tip910Hash) } else { melpow::Proof::generate(&pz2, *d as usize, LegacyHash) };
            out.push(Case { label: format!("{} proof seeded with another height's header", base), tx: mint_tx(*coin, *value, *d, &p2.to_bytes(), 0, false), valid: false });
        }
    }
    out
}

pub fn run_world(run: &Run, net: NetID, ages: &[u64], difficulties: &[(u32, bool)], thorough: bool) {
    run_world_at(run, net, None, ages, difficulties, thorough)
}

/// The same world started at a greater height (the root re-labelled there): the inflator grows with the height, so that
/// floor(inflator x floor(reward)) and floor(inflator x reward) come apart.
pub fn run_world_at(run: &Run, net: NetID, start: Option<u64>, ages: &[u64], difficulties: &[(u32, bool)], thorough: bool) {
    let eng = Engine::new(run);
    let (_w, mut root) = root(net, 0, net != NetID::Mainnet);
    if let Some(h) = start {
        root = match eng.step(&root, &Action::Jump(h)) {
            StepOut::Next(x) => x,
            _ => return,
        };
    }
    // block 1: split the genesis coin into puzzle coins
    let open = match eng.step(&root, &Action::Open) {
        StepOut::Next(x) => x,
        _ => return,
    };
    let split = tx_t(TxKind::Normal, vec![CoinID::zero_zero()], vec![out_t(400_000_000, Denom::Mel), out_t(300_000_000, Denom::Mel), out_t(300_000_000, Denom::Mel)], 0, vec![]);
    let n = match eng.step(&open, &Action::Batch { label: "split-genesis".into(), txs: vec![split.clone()], expect_ok: true }) {
        StepOut::Next(x) => x,
        _ => run.machinery_failure("C18 set-up: split rejected"),
    };
    let sealed1 = match eng.step(&n, &Action::Seal(None)) {
        StepOut::Next(x) => x,
        _ => return,
    };
    let coin_height = sealed1.model.height;
    let coins: Vec<(CoinID, u128, u64)> = (0..3u8).map(|i| (split.output_coinid(i), split.outputs[i as usize].value.0, coin_height)).collect();
    let other_header = root.view().header();
    let mut prev = sealed1;
    let mut prev_age = 0u64;
    let mut record_child: Option<Node> = None;
    for age in ages {
        // state at height coin_height + age: advance age-1-prev_age sealed blocks, then open
        let target_sealed = age - 1;
        prev = match advance(&eng, prev.clone(), target_sealed - prev_age) {
            Some(x) => x,
            None => return,
        };
        prev_age = target_sealed;
        let open = match eng.step(&prev, &Action::Open) {
            StepOut::Next(x) => x,
            _ => continue,
        };
        let cases = cases_for(&open, &coins[..2], difficulties, thorough, &other_header);
        run.states_add(cases.len() as u64);
        let accepted_speeds = parking_lot::Mutex::new(vec![]);
        cases.par_iter().for_each(|c| {
            let a = Action::Batch { label: c.label.clone(), txs: vec![c.tx.clone()], expect_ok: c.valid };
            match eng.step(&open, &a) {
                StepOut::Next(child) => {
                    run.outcome(if c.valid { "mint:valid-accepted" } else { "mint:accepted" });
                    accepted_speeds.lock().push((c.tx.clone(), child.view().header().dosc_speed, child));
                }
                StepOut::Rejected => run.outcome(if c.valid { "mint:valid-rejected(statement is only-if: recorded)" } else { "mint:invalid-rejected" }),
                StepOut::Pruned => run.outcome("mint:engine-reported"),
            }
        });
        // two mints of different speed in one block: the recorded speed is the maximum (engine oracle compares with the model)
        let acc = accepted_speeds.into_inner();
        // remember a state in which a mint of coin 0 set a new speed record (for the second phase below)
        if record_child.is_none() {
            let open_speed = open.view().header().dosc_speed;
            record_child = acc.iter().filter(|x| x.1 > open_speed && x.0.inputs[0] == coins[0].0).max_by_key(|x| x.1).map(|x| x.2.clone());
        }
        let mut by_coin: Vec<&(Transaction, u128, Node)> = vec![];
        for x in acc.iter() {
            if by_coin.iter().all(|y| y.0.inputs[0] != x.0.inputs[0]) {
                by_coin.push(x);
            }
        }
        if by_coin.len() >= 2 {
            for order in [[0usize, 1], [1, 0]] {
                let txs = vec![by_coin[order[0]].0.clone(), by_coin[order[1]].0.clone()];
                let a = Action::Batch { label: format!("two mints in one batch (age {})", age), txs, expect_ok: true };
                if let StepOut::Next(ch) = eng.step(&open, &a) {
                    run.outcome("mint:two-in-one-batch-accepted");
                    let h = ch.view().header();
                    let prevh = open.view().header();
                    if h.dosc_speed < prevh.dosc_speed {
                        run.violation("C18", "dosc-speed-decreased".into(), format!("age {}: {} -> {}", age, prevh.dosc_speed, h.dosc_speed), open.replay_json(Some(&a)));
                    }
                }
            }
        }
        // the same two mints as two calls into the same block, fastest first and fastest last: the speed recorded at sealing is
        // the maximum over the whole block, whichever call demonstrated it (the engine's oracle compares after every call)
        if let Some(fast) = acc.iter().max_by_key(|x| x.1) {
            // the slower one should still beat the recorded speed if such a mint was accepted (a record that a later, smaller
            // record overwrites); otherwise the slowest of all
            let open_speed = open.view().header().dosc_speed;
            let others = || acc.iter().filter(|x| x.0.inputs[0] != fast.0.inputs[0]);
            let slow = others().filter(|x| x.1 > open_speed && x.1 < fast.1).min_by_key(|x| x.1).or_else(|| others().min_by_key(|x| x.1));
            if let Some(slow) = slow {
                // ... and as one batch, in both orders, on a pool of one worker (the whole batch is one piece of the parallel fold)
                // and on the process's pool (the batch may be cut between the two)
                let one = rayon::ThreadPoolBuilder::new().num_threads(1).build().unwrap();
                for (name, first, second) in [("fastest first", fast, slow), ("fastest last", slow, fast)] {
                    for single in [true, false] {
                        let a = Action::Batch { label: format!("the fastest and the slowest accepted mint in one batch, {} (age {}, {})", name, age, if single { "1 worker" } else { "process pool" }), txs: vec![first.0.clone(), second.0.clone()], expect_ok: true };
                        let out = if single { one.install(|| eng.step(&open, &a)) } else { eng.step(&open, &a) };
                        if let StepOut::Next(n2) = out {
                            run.outcome("mint:fastest-and-slowest-in-one-batch-accepted");
                            let (h2, want) = (n2.view().header().dosc_speed, fast.1.max(open.view().header().dosc_speed));
                            if h2 != want {
                                run.violation("C18", format!("dosc-speed-not-the-maximum/one-batch/{}", if single { "1-worker" } else { "process-pool" }), format!("age {} ({}): the block's recorded speed is {} although {} was demonstrated in it", age, name, h2, want), open.replay_json(Some(&a)));
                            }
                        }
                    }
                }
                for (name, first, second) in [("fastest first", fast, slow), ("fastest last", slow, fast)] {
                    let a1 = Action::Batch { label: format!("two mints in two calls, {} (age {}): first call", name, age), txs: vec![first.0.clone()], expect_ok: true };
                    if let StepOut::Next(n1) = eng.step(&open, &a1) {
                        let a2 = Action::Batch { label: format!("two mints in two calls, {} (age {}): second call", name, age), txs: vec![second.0.clone()], expect_ok: true };
                        if let StepOut::Next(n2) = eng.step(&n1, &a2) {
                            run.outcome("mint:two-in-two-calls-accepted");
                            let (h2, want) = (n2.view().header().dosc_speed, fast.1.max(open.view().header().dosc_speed));
                            if h2 != want {
                                run.violation("C18", "dosc-speed-not-the-maximum/two-calls".into(), format!("age {} ({}): the block's recorded speed is {} although {} was demonstrated in it", age, name, h2, want), n1.replay_json(Some(&a2)));
                            }
                            if let StepOut::Next(s2) = eng.step(&n2, &Action::Seal(None)) {
                                let hs = s2.view().header().dosc_speed;
                                if hs != want {
                                    run.violation("C18", "dosc-speed-not-the-maximum/two-calls/sealed".into(), format!("age {} ({}): the sealed header records speed {} although {} was demonstrated in the block", age, name, hs, want), n2.replay_json(Some(&Action::Seal(None))));
                                }
                            }
                        }
                    }
                }
            }
        }
    }
    match &record_child {
        Some(rc) => {
            run.outcome("speed-record-state-found");
            // coins 1 and 2 were created before the record; only the larger difficulties give a non-zero reward bound
            let ds: Vec<(u32, bool)> = difficulties.iter().filter(|d| d.0 >= 8).cloned().collect();
            after_speed_record(run, &eng, rc, &coins[1..], &ds, thorough, &other_header);
        }
        None => run.outcome("speed-record-state-missing"),
    }
}

/// Second phase: after a mint has raised the recorded DOSC speed, later mints of *older* coins are bounded by the previous
/// block's (raised) speed, not by the speed recorded when the coin was created.
fn after_speed_record(run: &Run, eng: &Engine, record: &Node, coins: &[(CoinID, u128, u64)], difficulties: &[(u32, bool)], thorough: bool, other_header: &melstructs::Header) {
    // the speed demonstrated earlier in the block stays recorded when further transactions (without mints) join the same block:
    // the engine's batch oracle compares the header's DOSC speed with max(previous, demonstrated) after every accepted batch
    // (this branch is followed behind a reported difference too: a record lost here is what lets a later block mint too much,
    // and the model keeps the record it saw)
    let mut eng_on = Engine::new(run);
    eng_on.continue_after_mismatch = true;
    let mut starts: Vec<Node> = vec![];
    if let Some((c, v, _)) = coins.last() {
        let later = tx_t(TxKind::Normal, vec![*c], vec![out_t(*v, Denom::Mel)], 0, vec![0x18]);
        match eng_on.step(record, &Action::Batch { label: "transfer later in the block of the record mint".into(), txs: vec![later], expect_ok: true }) {
            StepOut::Next(n) => {
                run.outcome("later-call-in-record-block:accepted");
                let mut cur = n.clone();
                if let StepOut::Next(e) = eng_on.step(&n, &Action::Batch { label: "empty batch".into(), txs: vec![], expect_ok: true }) {
                    run.outcome("empty-batch-in-record-block:accepted");
                    cur = e;
                }
                if let StepOut::Next(s) = eng_on.step(&cur, &Action::Seal(None)) {
                    starts.push(s);
                }
            }
            _ => run.outcome("later-call-in-record-block:not-accepted"),
        }
    }
    match eng.step(record, &Action::Seal(None)) {
        StepOut::Next(x) => starts.insert(0, x),
        _ => return,
    };
    let coins = &coins[..coins.len().saturating_sub(1).max(1)];
    for (si, sealed) in starts.iter().enumerate() {
    let eng = if si == 0 { eng } else { &eng_on };
    for extra in [0u64, 1] {
        let s = match advance(eng, sealed.clone(), extra) {
            Some(x) => x,
            None => return,
        };
        let open = match eng.step(&s, &Action::Open) {
            StepOut::Next(x) => x,
            _ => return,
        };
        let cases = cases_for(&open, coins, difficulties, thorough, other_header);
        run.states_add(cases.len() as u64);
        cases.par_iter().for_each(|c| {
            let a = Action::Batch { label: format!("after-speed-record: {}", c.label), txs: vec![c.tx.clone()], expect_ok: c.valid };
            match eng.step(&open, &a) {
                StepOut::Next(_) => run.outcome("mint-after-record:accepted"),
                StepOut::Rejected => run.outcome("mint-after-record:rejected"),
                StepOut::Pruned => run.outcome("mint-after-record:engine-reported"),
            }
        });
    }
    }
}

/// Mints against the genesis coin (recorded at height 0) on a chain that is itself still young: the age rule of Mainnet
/// (at least 100 blocks) and the puzzle seeded with the header at height 0 apply to it like to any other coin.
pub fn genesis_coin_world(run: &Run, net: NetID, heights: &[u64], difficulties: &[(u32, bool)], thorough: bool) {
    let eng = Engine::new(run);
    let (_w, root) = root(net, 0, false);
    let coins = vec![(CoinID::zero_zero(), 1_000_000_000u128, 0u64)];
    let mut prev = root.clone();
    let mut prev_h = 0u64;
    // a header that is not the one at the coin's height: taken from block 1
    let other_header = match advance(&eng, root.clone(), 1) {
        Some(x) => x.view().header(),
        None => return,
    };
    for h in heights {
        prev = match advance(&eng, prev.clone(), h - 1 - prev_h) {
            Some(x) => x,
            None => return,
        };
        prev_h = h - 1;
        let open = match eng.step(&prev, &Action::Open) {
            StepOut::Next(x) => x,
            _ => continue,
        };
        let cases = cases_for(&open, &coins, difficulties, thorough, &other_header);
        run.states_add(cases.len() as u64);
        cases.par_iter().for_each(|c| {
            let a = Action::Batch { label: format!("genesis-coin: {}", c.label), txs: vec![c.tx.clone()], expect_ok: c.valid };
            match eng.step(&open, &a) {
                StepOut::Next(_) => run.outcome(if c.valid { "genesis-coin-mint:valid-accepted" } else { "genesis-coin-mint:accepted" }),
                StepOut::Rejected => run.outcome(if c.valid { "genesis-coin-mint:valid-rejected" } else { "genesis-coin-mint:invalid-rejected" }),
                StepOut::Pruned => run.outcome("genesis-coin-mint:engine-reported"),
            }
        });
    }
}

/// The repository's public reward helpers against the reference transcription over a grid (so that a change to the formula is itself reported).
fn formula_grid(run: &Run) {
    let speeds: Vec<u128> = vec![0, 1, 2, 1000, 1_000_000, 1 << 40, 1 << 80, u128::MAX];
    let dosc_speeds: Vec<u128> = vec![1, 1000, 1_000_000, 1 << 40, 1 << 64];
    for d in 0..=40u32 {
        for s in &speeds {
            for ds in &dosc_speeds {
                for tip910 in [false, true] {
                    run.transition();
                    let got = guard(|| melstf::calculate_reward(*s, *ds, d, tip910));
                    let exp = ref_reward(*s, *ds, d, tip910);
                    run.validated();
                    match got {
                        Ok(g) if g == exp => {}
                        Ok(g) => run.violation("C18", format!("reward-formula/tip910={}", tip910), format!("calculate_reward(speed {}, dosc_speed {}, d {}, {}) = {} reference {}", s, ds, d, tip910, g, exp), json!({"speed": s.to_string(), "dosc_speed": ds.to_string(), "difficulty": d, "tip910": tip910})),
                        Err(p) => run.outcome(&format!("calculate_reward-panics(reported under C09):{}", p.msg)),
                    }
                }
            }
        }
    }
    for h in [0u64, 1, 2, 100, 10_000, 999_999, 1_000_000, 1_500_000] {
        for real in [0u128, 1, 999, 1_000_000, 1 << 64, 1 << 100] {
            run.transition();
            let got = guard(|| melstf::dosc_to_erg(BlockHeight(h), real));
            let exp = ref_dosc_to_erg(h, real);
            run.validated();
            match (got, exp) {
                (Ok(g), Some(e)) if g == e => {}
                (Ok(g), e) => run.violation("C18", "inflator-formula".into(), format!("dosc_to_erg({}, {}) = {} reference {:?}", h, real, g, e), json!({"height": h, "real": real.to_string()})),
                (Err(_), _) => run.outcome("dosc_to_erg-panics(reported under C09)"),
            }
        }
    }
    let _ = BigInt::from(0);
}

/// Two chains of one network in one process that hold the same coin under different headers at its creation height (chain B's
/// block 1 carries one more transaction): a proof made for chain A's header must not mint on chain B, whatever chain A did before.
fn sibling_chains(run: &Run) {
    let eng = Engine::new(run);
    let split = tx_t(TxKind::Normal, vec![CoinID::zero_zero()], vec![out_t(400_000_000, Denom::Mel), out_t(600_000_000, Denom::Mel)], 0, vec![0x51]);
    let extra = tx_t(TxKind::Faucet, vec![], vec![out_t(5, Denom::Mel)], 0, vec![0x52]);
    let coin = split.output_coinid(0);
    let mut chains = vec![];
    for txs in [vec![split.clone()], vec![split.clone(), extra.clone()]] {
        let (_w, rootn) = root(NetID::Custom03, 0, false);
        let mut node = Some(rootn);
        for a in [Action::Open, Action::Batch { label: format!("block 1 of {} transactions", txs.len()), txs: txs.clone(), expect_ok: true }, Action::Seal(None)] {
            node = match node.as_ref().map(|n| eng.step(n, &a)) {
                Some(StepOut::Next(x)) => Some(x),
                _ => None,
            };
        }
        match node {
            Some(n) => chains.push(n),
            None => return,
        }
    }
    let hdr: Vec<melstructs::Header> = chains.iter().map(|c| c.view().header()).collect();
    if hdr[0].hash() == hdr[1].hash() {
        run.outcome("sibling-chains:headers-equal(vacuous)");
        return;
    }
    for (d, tip910) in [(8u32, false), (3, true)] {
        let proofs: Vec<Vec<u8>> = hdr
            .iter()
            .map(|h| {
                let pz = puzzle(h, &coin);
                if tip910 { melpow::Proof::generate(&pz, d as usize, Tip910Hash).to_bytes() } else { melpow::Proof::generate(&pz, d as usize, LegacyHash).to_bytes() }
            })
            .collect();
        // chain A first (its own proof, then B's), then chain B (A's proof, then its own)
        for (ci, order) in [(0usize, [0usize, 1]), (1, [0, 1])] {
            let open = match eng.step(&chains[ci], &Action::Open) {
                StepOut::Next(x) => x,
                _ => continue,
            };
            for pi in order {
                let own = pi == ci;
                let a = Action::Batch { label: format!("chain {}: mint of the shared coin with the proof made for chain {} (d={} {})", ci, pi, d, if tip910 { "tip910" } else { "legacy" }), txs: vec![mint_tx(coin, 400_000_000, d, &proofs[pi], 0, false)], expect_ok: own };
                run.state();
                match eng.step(&open, &a) {
                    StepOut::Next(_) => run.outcome(if own { "sibling-chains:own-proof-accepted" } else { "sibling-chains:foreign-proof-accepted" }),
                    StepOut::Rejected => run.outcome(if own { "sibling-chains:own-proof-rejected" } else { "sibling-chains:foreign-proof-rejected" }),
                    StepOut::Pruned => run.outcome("sibling-chains:engine-reported"),
                }
            }
        }
    }
}

/// Supplement, *sampling* (labelled so in the evidence): the inflator is served from a process-wide table that grows on demand;
/// several threads ask for heights the process has not seen yet, at the same time, and every answer is compared with the
/// recurrence.  Thread interleavings inside the table's lock hand-over cannot be enumerated here (parking_lot is not interceptable).
fn concurrent_inflator_lookups(run: &Run, thorough: bool) {
    let base: u64 = 1_600_000; // above every height the rest of this check touches
    let per_thread: u64 = if thorough { 20_000 } else { 5_000 };
    let threads = 4u64;
    let real: u128 = 1 << 60;
    // reference values first (single-threaded, own table)
    let expected: Vec<Option<u128>> = (0..per_thread * threads).map(|i| ref_dosc_to_erg(base + i, real)).collect();
    let wrong = std::sync::atomic::AtomicU64::new(0);
    let first_wrong = parking_lot::Mutex::new(None);
    let barrier = std::sync::Barrier::new(threads as usize);
    std::thread::scope(|s| {
        for t in 0..threads {
            let (wrong, first_wrong, expected, barrier) = (&wrong, &first_wrong, &expected, &barrier);
            s.spawn(move || {
                // in every round the threads ask for neighbouring fresh heights at the same moment (thread t: base + round * threads + t)
                for j in 0..per_thread {
                    barrier.wait();
                    let i = j * threads + t;
                    let got = guard(|| melstf::dosc_to_erg(BlockHeight(base + i), real));
                    run.transition();
                    run.validated();
                    if let Ok(g) = got {
                        if Some(g) != expected[i as usize] {
                            wrong.fetch_add(1, std::sync::atomic::Ordering::Relaxed);
                            first_wrong.lock().get_or_insert((base + i, g, expected[i as usize]));
                        }
                    }
                }
            });
        }
    });
    let w = wrong.load(std::sync::atomic::Ordering::Relaxed);
    run.set("concurrent_inflator_lookups", json!({"kind": "sampling of schedules (free-running threads), not exhaustive", "threads": threads, "fresh_heights": per_thread * threads, "wrong_answers": w}));
    let fw: Option<(u64, u128, Option<u128>)> = first_wrong.into_inner();
    if let Some((h, g, e)) = fw {
        run.violation("C18", "inflator-formula/concurrent-lookups".into(), format!("{} of {} concurrent lookups of fresh heights were wrong, e.g. dosc_to_erg({}, 2^60) = {} reference {:?}", w, per_thread * threads, h, g, e), json!({"height": h, "real": real.to_string(), "threads": threads}));
    }
}

/// Mints with two inputs of different ages: the puzzle, the age rule of Mainnet and the speed belong to the *first* input alone.
/// Block 1 splits the genesis coin (A, B, C); `gap` blocks later C is moved into a young coin Y; two blocks after that the
/// mints [Y, A], [A, Y] (each with the proof made for its first input, and with the proof made for the other one) are tried.
fn two_input_mints(run: &Run, net: NetID, gap: u64, difficulties: &[(u32, bool)]) {
    let eng = Engine::new(run);
    let (_w, rootn) = root(net, 0, net != NetID::Mainnet);
    let open = match eng.step(&rootn, &Action::Open) {
        StepOut::Next(x) => x,
        _ => return,
    };
    let split = tx_t(TxKind::Normal, vec![CoinID::zero_zero()], vec![out_t(400_000_000, Denom::Mel), out_t(300_000_000, Denom::Mel), out_t(300_000_000, Denom::Mel)], 0, vec![]);
    let n = match eng.step(&open, &Action::Batch { label: "split-genesis".into(), txs: vec![split.clone()], expect_ok: true }) {
        StepOut::Next(x) => x,
        _ => return,
    };
    let sealed1 = match eng.step(&n, &Action::Seal(None)) {
        StepOut::Next(x) => x,
        _ => return,
    };
    let h_old = sealed1.model.height;
    let later = match advance(&eng, sealed1, gap) {
        Some(x) => x,
        None => return,
    };
    let open = match eng.step(&later, &Action::Open) {
        StepOut::Next(x) => x,
        _ => return,
    };
    let mv = tx_t(TxKind::Normal, vec![split.output_coinid(2)], vec![out_t(300_000_000, Denom::Mel)], 0, vec![0x59]);
    let n = match eng.step(&open, &Action::Batch { label: "move coin C into the young coin Y".into(), txs: vec![mv.clone()], expect_ok: true }) {
        StepOut::Next(x) => x,
        _ => return,
    };
    let sealed_y = match eng.step(&n, &Action::Seal(None)) {
        StepOut::Next(x) => x,
        _ => return,
    };
    let h_young = sealed_y.model.height;
    let s = match advance(&eng, sealed_y, 1) {
        Some(x) => x,
        None => return,
    };
    let open = match eng.step(&s, &Action::Open) {
        StepOut::Next(x) => x,
        _ => return,
    };
    let height = open.model.height;
    let v = open.view();
    let prev_speed = v.history(BlockHeight(height - 1)).map(|h| h.dosc_speed).unwrap_or(1_000_000);
    let old = (split.output_coinid(0), 400_000_000u128, h_old);
    let young = (mv.output_coinid(0), 300_000_000u128, h_young);
    let mut cases: Vec<(String, Transaction, bool)> = vec![];
    for (d, tip910) in difficulties {
        for (first, second, fname) in [(young, old, "young"), (old, young, "old")] {
            let age = height - first.2;
            let speed = (if *tip910 { 100u128 } else { 1 }) * (1u128 << d) / age as u128;
            let max_erg = ref_dosc_to_erg(height, ref_reward(speed, prev_speed, *d, *tip910)).unwrap_or(u128::MAX).min(1 << 120);
            let age_ok = net != NetID::Mainnet || age >= 100;
            let mk = |proof_for: &(CoinID, u128, u64), erg: u128| {
                let hdr = v.history(BlockHeight(proof_for.2)).expect("header at the coin's height");
                let pz = puzzle(&hdr, &proof_for.0);
                let proof = if *tip910 { melpow::Proof::generate(&pz, *d as usize, Tip910Hash) } else { melpow::Proof::generate(&pz, *d as usize, LegacyHash) };
                let mut outs = vec![out_t(first.1 + second.1, Denom::Mel)];
                if erg > 0 {
                    outs.push(out_t(erg, Denom::Erg));
                }
                tx_t(TxKind::DoscMint, vec![first.0, second.0], outs, 0, stdcode::serialize(&(*d, proof.to_bytes())).unwrap())
            };
            let base = format!("two inputs, {} coin (age {}) first, d={} {}", fname, age, d, if *tip910 { "tip910" } else { "legacy" });
            for erg in [0u128, max_erg, max_erg + 1] {
                cases.push((format!("{} proof for the first input erg={}(max {})", base, erg, max_erg), mk(&first, erg), age_ok && erg <= max_erg));
            }
            cases.push((format!("{} proof for the second input", base), mk(&second, 0), false));
        }
    }
    run.states_add(cases.len() as u64);
    cases.par_iter().for_each(|(label, tx, valid)| {
        let a = Action::Batch { label: label.clone(), txs: vec![tx.clone()], expect_ok: *valid };
        match eng.step(&open, &a) {
            StepOut::Next(_) => run.outcome(if *valid { "two-input-mint:valid-accepted" } else { "two-input-mint:accepted(engine compares with the model)" }),
            StepOut::Rejected => run.outcome(if *valid { "two-input-mint:valid-rejected(statement is only-if: recorded)" } else { "two-input-mint:invalid-rejected" }),
            StepOut::Pruned => run.outcome("two-input-mint:engine-reported"),
        }
    });
}

pub fn run(run: &Run) {
    let thorough = run.thorough();
    // first of all, on a network nothing else in this process touches: whatever a process remembers about one chain must not
    // leak into the verdicts on another
    sibling_chains(run);
    let ages: Vec<u64> = if thorough { vec![1, 2, 3, 50, 99, 100, 101] } else { vec![1, 2, 3, 50] };
    let mut diffs: Vec<(u32, bool)> = vec![(1, false), (2, false), (4, false), (8, false), (16, false), (1, true), (3, true), (8, true), (14, true)];
    if thorough {
        diffs.extend([(3, false), (5, false), (6, false), (7, false), (20, false), (2, true), (12, true)]);
    }
    run_world(run, NetID::Custom02, &ages, &diffs, thorough);
    // mainnet: the spent coin must be at least 100 blocks old
    let m_ages: Vec<u64> = if thorough { vec![1, 50, 99, 100, 101] } else { vec![99, 100] };
    let m_diffs: Vec<(u32, bool)> = vec![(2, false), (8, false), (16, false), (3, true)];
    run_world(run, NetID::Mainnet, &m_ages, &m_diffs, thorough);
    // greater heights (inflator 1.001 .. e^0.5): reward bounds with fractional parts
    for h in if thorough { vec![1_040u64, 2_100, 100_000, 1_000_000] } else { vec![1_040u64, 1_000_000] } {
        run_world_at(run, NetID::Custom02, Some(h), &[1, 2], &[(8, false), (3, true), (14, true)], thorough);
    }
    // far into the chain the inflator (in millionths) times the reward no longer fits 128 bits although the bound itself does:
    // 140,000,000 blocks, inflator about 2^101
    run_world_at(run, NetID::Custom02, Some(140_000_000), &[1], &[(14, true)], thorough);
    // the genesis coin on a chain younger than / as old as the Mainnet age threshold
    let g_heights: Vec<u64> = if thorough { vec![1, 2, 50, 99, 100, 101] } else { vec![1, 99, 100] };
    genesis_coin_world(run, NetID::Mainnet, &g_heights, &[(2, false), (8, false), (3, true)], thorough);
    genesis_coin_world(run, NetID::Custom02, &g_heights[..2], &[(2, false), (3, true)], thorough);
    if thorough {
        run_world(run, NetID::Testnet, &[1, 2, 100], &[(2, false), (16, false), (3, true)], thorough);
    }
    // two inputs of different ages (Mainnet: the first input alone must be 100 blocks old)
    // (difficulties 11 / 18: the reward allowed for the age of the first input differs by several units from the one allowed for
    // the age of the other input - at 3 / 8 both are zero and a bound taken from the wrong input shows nothing: seed C18-r13-2)
    two_input_mints(run, NetID::Mainnet, 97, &[(3, true), (8, false), (11, true), (18, false)]);
    two_input_mints(run, NetID::Custom02, 3, &[(3, true), (8, false), (11, true), (18, false)]);
    formula_grid(run);
    // the process-wide inflator table under every interleaving of a few threads (loom), then the free-running sampling supplement
    crate::loomrun::inflator_interleavings(run, "C18");
    // two record-setting mints in one batch, in both orders, with apply_tx_batch itself under loom (every cut of the parallel fold, every interleaving)
    crate::loomrun::stf_interleavings(run, "C18", &["two-mints", "two-mints-reversed"]);
    concurrent_inflator_lookups(run, thorough);
    run.set("ages", json!({"custom02": ages, "mainnet": m_ages}));
    run.set("difficulties", json!(diffs.iter().map(|(d, t)| format!("{}{}", d, if *t { "/tip910" } else { "/legacy" })).collect::<Vec<_>>()));
    run.sample(json!({"case": "coin0 age=2 d=16 legacy erg=max+1", "expected": "rejected: the ERG created exceeds the reward floor(reward(speed, previous dosc speed) x inflator(height))"}));
    run.sample(json!({"case": "coin0 age=100 d=8 legacy unit 3 of 9 removed", "expected": "rejected (or, on the unchanged tree, the known panic inside melpow::Proof::verify)"}));
    run.assume("real proofs are generated with melpow::Proof::generate (trusted library) for the puzzle hash_keyed(header_at(coin.height).hash(), stdcode(coin id))");
    run.assume("acceptance is compared in the necessity direction only; accepted valid mints are counted for non-vacuity");
}
