//! C01 — conservation of every denomination (checked after every accepted batch and every seal of
//! every E1 scenario; this check runs the scenarios that exercise every issuance path).
use crate::alphabet::{action_dest, AlphaCfg};
use crate::props::e1::*;
use crate::report::Run;
use melstructs::NetID;
use serde_json::json;

pub fn pool_cfg() -> AlphaCfg {
    let mut c = AlphaCfg::base();
    c.per_denom = 1;
    c.splits = false;
    c.burns = false;
    c.overpay = true;
    c.adversarial = false;
    c.faucets = false;
    c.pairs = false;
    c.swaps = true;
    c.deposits = true;
    c.withdrawals = true;
    c.mints = true;
    c.max_txs_per_block = 2;
    c.seal_actions = vec![None, Some(action_dest(1))];
    c
}

pub fn scenarios(thorough: bool) -> Vec<Scenario> {
    let mut v = vec![];
    v.push(sc("custom02-pools", NetID::Custom02, 0, pool_cfg(), if thorough { 8 } else { 6 }));
    let mut base = AlphaCfg::base();
    base.max_txs_per_block = 2;
    v.push(sc("custom02-utxo", NetID::Custom02, 0, base.clone(), if thorough { 6 } else { 5 }));
    let mut sp = pool_cfg();
    sp.pool_spellings = true;
    sp.other_kinds_with_pool_data = true;
    sp.mints = false;
    sp.transfers = false;
    sp.overpay = false;
    v.push(sc("custom02-pool-spellings", NetID::Custom02, 0, sp.clone(), if thorough { 7 } else { 4 }));
    // rule-switch heights of the legacy networks (one request or transfer per block, both seal actions)
    let mut bc = pool_cfg();
    bc.max_txs_per_block = 1;
    bc.mints = false;
    bc.overpay = false;
    v.extend(boundary_scenarios(&bc, if thorough { 7 } else { 5 }, thorough));
    // replays: transfers and hostile members only, three per block, so that a transaction accepted without consuming anything
    // meets its own second application after its outputs have moved on
    let mut rp = AlphaCfg::base();
    rp.per_denom = 1;
    rp.splits = false;
    rp.merges = false;
    rp.burns = false;
    rp.mints = false;
    rp.faucets = false;
    rp.pairs = false;
    rp.max_txs_per_block = 3;
    rp.seal_actions = vec![None];
    v.push(sc("custom02-transfers-and-hostile-replays", NetID::Custom02, 0, rp, if thorough { 7 } else { 5 }));
    // other genesis configurations: initial coin in SYM / ERG / very large MEL, a non-empty initial fee pool, stakes from block 0
    v.extend(genesis_scenarios(["custom02-genesis-sym-feepool-stake", "custom02-genesis-erg-fees-stakes", "custom02-genesis-huge-mel-feepool"], NetID::Custom02, &pool_cfg(), if thorough { 7 } else { 5 }));
    if thorough {
        v.push(sc("testnet-pools", NetID::Testnet, 0, pool_cfg(), 7));
        v.push(sc("custom08-pools", NetID::Custom08, 0, pool_cfg(), 7));
        v.push(sc("custom02-pools-fees", NetID::Custom02, 65536, pool_cfg(), 6));
    }
    v
}

pub fn run(run: &Run) {
    for sc in scenarios(run.thorough()) {
        sample_alphabet(run, &sc);
        let st = run_scenario(run, &sc, 2_000_000);
        println!("  scenario {}: depth {} states {} transitions {}", sc.name, st.depth_completed, st.states, st.transitions);
    }
    // the proof-of-work issuance path: real MelPoW mints around the reward bound, before and after a speed record (shared with C18)
    crate::props::c18::run_world(run, NetID::Custom02, &[1, 2], &[(8, false), (16, false), (14, true)], false);
    run.sample(json!({"path": ["genesis[Custom02]", "open", "swap[MEL/SYM:canonical](MEL coin)", "seal(None)"], "oracle": "for every denomination: coins + pool reserves (+ fee pool + tips for MEL) after <= before + issuance allowed by the statement"}));
    run.assume("supply is computed from the raw coin and pool trees of the real state; every pool tree entry must be a pool some transaction named");
    run.assume("peg and subsidy allowances are computed by the reference transcription of the stated formulas (refstf.rs)");
}
