//! C01 — conservation of every denomination (checked after every accepted batch and every seal of
//! every E1 scenario; this check runs the scenarios that exercise every issuance path).
use crate::alphabet::{action_dest, AlphaCfg};
use crate::props::e1::*;
use crate::report::Run;
use melstructs::NetID;
use serde_json::json;

pub fn pool_cfg() -> AlphaCfg {
    let mut c = AlphaCfg::base();
    c.per_denom = 1;
    c.splits = false;
    c.burns = false;
    c.overpay = true;
    c.adversarial = false;
    c.faucets = false;
    c.pairs = false;
    c.swaps = true;
    c.deposits = true;
    c.withdrawals = true;
    c.mints = true;
    c.max_txs_per_block = 2;
    c.seal_actions = vec![None, Some(action_dest(1))];
    c
}

pub fn scenarios(thorough: bool) -> Vec<Scenario> {
    let mut v = vec![];
    v.push(sc("custom02-pools", NetID::Custom02, 0, pool_cfg(), if thorough { 8 } else { 6 }));
    let mut base = AlphaCfg::base();
    base.max_txs_per_block = 2;
    v.push(sc("custom02-utxo", NetID::Custom02, 0, base.clone(), if thorough { 6 } else { 5 }));
    let mut sp = pool_cfg();
    sp.pool_spellings = true;
    sp.other_kinds_with_pool_data = true;
    sp.mints = false;
    sp.transfers = false;
    sp.overpay = false;
    v.push(sc("custom02-pool-spellings", NetID::Custom02, 0, sp.clone(), if thorough { 7 } else { 4 }));
    // rule-switch heights of the legacy networks (one request or transfer per block, both seal actions)
    let mut bc = pool_cfg();
    bc.max_txs_per_block = 1;
    bc.mints = false;
    bc.overpay = false;
    v.extend(boundary_scenarios(&bc, if thorough { 7 } else { 5 }, thorough));
    // replays: transfers and hostile members only, three per block, so that a transaction accepted without consuming anything
    // meets its own second application after its outputs have moved on
    let mut rp = AlphaCfg::base();
    rp.per_denom = 1;
    rp.splits = false;
    rp.merges = false;
    rp.burns = false;
    rp.mints = false;
    rp.faucets = false;
    rp.pairs = false;
    rp.max_txs_per_block = 3;
    rp.seal_actions = vec![None];
    v.push(sc("custom02-transfers-and-hostile-replays", NetID::Custom02, 0, rp, if thorough { 7 } else { 5 }));
    // other genesis configurations: initial coin in SYM / ERG / very large MEL, a non-empty initial fee pool, stakes from block 0
    v.extend(genesis_scenarios(["custom02-genesis-sym-feepool-stake", "custom02-genesis-erg-fees-stakes", "custom02-genesis-huge-mel-feepool"], NetID::Custom02, &pool_cfg(), if thorough { 7 } else { 5 }));
    if thorough {
        v.push(sc("testnet-pools", NetID::Testnet, 0, pool_cfg(), 7));
        v.push(sc("custom08-pools", NetID::Custom08, 0, pool_cfg(), 7));
        v.push(sc("custom02-pools-fees", NetID::Custom02, 65536, pool_cfg(), 6));
    }
    v
}

/// Many requests of the largest coin value against one pool in one block: n x 2^120 exceeds what a 128-bit total can hold from
/// n = 256 on.  The requests are funded by faucets (so: any network but mainnet); the engine's conservation oracle judges the seal.
pub fn many_huge_requests(run: &Run, thorough: bool) {
    use crate::stf::*;
    use crate::world::*;
    use melstructs::{CoinID, Denom, PoolKey, Transaction, TxKind};
    let big: u128 = 1 << 120;
    let counts: Vec<usize> = if thorough { vec![255, 256, 257, 300, 600] } else { vec![255, 257, 300] };
    for n in counts {
        for side in [Denom::Sym, Denom::Mel] {
            let (_w, rootn) = root(NetID::Custom02, 0, false);
            let eng = Engine::new(run);
            // funding: n coins of 2^120 of the sold denomination (faucets of 100 outputs) and n MEL carriers of 1
            let mut funding: Vec<Transaction> = vec![];
            let mut sold: Vec<CoinID> = vec![];
            let mut carriers: Vec<CoinID> = vec![];
            let mut left = n;
            let mut tag = 0u8;
            while left > 0 {
                let k = left.min(100);
                let f = tx_t(TxKind::Faucet, vec![], (0..k).map(|_| out_t(big, side)).collect(), 0, vec![0x6d, tag]);
                let c = tx_t(TxKind::Faucet, vec![], (0..k).map(|_| out_t(1, Denom::Mel)).collect(), 0, vec![0x6e, tag]);
                for i in 0..k {
                    sold.push(f.output_coinid(i as u8));
                    carriers.push(c.output_coinid(i as u8));
                }
                funding.push(f);
                funding.push(c);
                left -= k;
                tag += 1;
            }
            let pool = PoolKey::new(Denom::Mel, Denom::Sym);
            let swaps: Vec<Transaction> = (0..n).map(|i| tx_t(TxKind::Swap, vec![sold[i], carriers[i]], vec![out_t(big, side), out_t(1, Denom::Mel)], 0, pool.to_bytes().to_vec())).collect();
            let label = format!("{} swaps of 2^120 {:?} into MEL/SYM", n, side);
            let path = [
                Action::Open,
                Action::Batch { label: format!("{} funding faucets", funding.len()), txs: funding, expect_ok: true },
                Action::Seal(None),
                Action::Open,
                Action::Batch { label: label.clone(), txs: swaps, expect_ok: true },
                Action::Seal(None),
            ];
            let mut node = Some(rootn);
            for a in &path {
                node = match node.as_ref().map(|x| eng.step(x, a)) {
                    Some(StepOut::Next(x)) => Some(x),
                    _ => None,
                };
            }
            run.state();
            run.outcome(&format!("many-huge-requests:{}", if node.is_some() { "path-completed" } else { "path-stopped(engine reported or real code rejected)" }));
        }
        // the same number of deposits of 2^120 MEL + 2^120 SYM each, then (next block) withdrawals of all the liquidity tokens received
        {
            let (_w, rootn) = root(NetID::Custom02, 0, false);
            let eng = Engine::new(run);
            let mut funding: Vec<Transaction> = vec![];
            let (mut mels, mut syms) = (vec![], vec![]);
            let mut left = n;
            let mut tag = 0u8;
            while left > 0 {
                let k = left.min(100);
                let fm = tx_t(TxKind::Faucet, vec![], (0..k).map(|_| out_t(big, Denom::Mel)).collect(), 0, vec![0x70, tag]);
                let fs = tx_t(TxKind::Faucet, vec![], (0..k).map(|_| out_t(big, Denom::Sym)).collect(), 0, vec![0x71, tag]);
                for i in 0..k {
                    mels.push(fm.output_coinid(i as u8));
                    syms.push(fs.output_coinid(i as u8));
                }
                funding.push(fm);
                funding.push(fs);
                left -= k;
                tag += 1;
            }
            let pool = PoolKey::new(Denom::Mel, Denom::Sym);
            let deposits: Vec<Transaction> = (0..n).map(|i| tx_t(TxKind::LiqDeposit, vec![mels[i], syms[i]], vec![out_t(big, Denom::Mel), out_t(big, Denom::Sym)], 0, pool.to_bytes().to_vec())).collect();
            let path = [
                Action::Open,
                Action::Batch { label: format!("{} funding faucets", funding.len()), txs: funding, expect_ok: true },
                Action::Seal(None),
                Action::Open,
                Action::Batch { label: format!("{} deposits of 2^120 MEL + 2^120 SYM into MEL/SYM", n), txs: deposits, expect_ok: true },
                Action::Seal(None),
                Action::Open,
                Action::Seal(None),
            ];
            let mut node = Some(rootn);
            for a in &path {
                node = match node.as_ref().map(|x| eng.step(x, a)) {
                    Some(StepOut::Next(x)) => Some(x),
                    _ => None,
                };
            }
            run.state();
            run.outcome(&format!("many-huge-deposits:{}", if node.is_some() { "path-completed" } else { "path-stopped(engine reported or real code rejected)" }));
        }
    }
    // withdrawals of liquidity tokens the pool never issued (faucet-minted), 2^120 each: the block's total is 255 x 2^120 (fits),
    // exactly 2^128 (256 requests: a total that wraps would read 0 and pass every "total <= issued" test) and beyond
    // (found missing by the operator-mutation scan: `saturating_add -> wrapping_add` in the withdrawals' total survived)
    for n in [255usize, 256, 257] {
        let (_w, rootn) = root(NetID::Custom02, 0, false);
        let eng = Engine::new(run);
        let pool = PoolKey::new(Denom::Mel, Denom::Sym);
        let liq = pool.liq_token_denom();
        let mut funding: Vec<Transaction> = vec![];
        let (mut toks, mut carriers) = (vec![], vec![]);
        let mut left = n;
        let mut tag = 0u8;
        while left > 0 {
            let k = left.min(100);
            let ft = tx_t(TxKind::Faucet, vec![], (0..k).map(|_| out_t(big, liq)).collect(), 0, vec![0x72, tag]);
            let fc = tx_t(TxKind::Faucet, vec![], (0..k).map(|_| out_t(1, Denom::Mel)).collect(), 0, vec![0x73, tag]);
            for i in 0..k {
                toks.push(ft.output_coinid(i as u8));
                carriers.push(fc.output_coinid(i as u8));
            }
            funding.push(ft);
            funding.push(fc);
            left -= k;
            tag += 1;
        }
        let withdrawals: Vec<Transaction> = (0..n).map(|i| tx_t(TxKind::LiqWithdraw, vec![toks[i], carriers[i]], vec![out_t(big, liq)], 1, pool.to_bytes().to_vec())).collect();
        let path = [
            Action::Open,
            Action::Batch { label: format!("{} funding faucets (liquidity tokens never issued)", funding.len()), txs: funding, expect_ok: true },
            Action::Seal(None),
            Action::Open,
            Action::Batch { label: format!("{} withdrawals of 2^120 MEL/SYM liquidity tokens never issued", n), txs: withdrawals, expect_ok: true },
            Action::Seal(None),
            Action::Open,
            Action::Seal(None),
        ];
        let mut node = Some(rootn);
        for a in &path {
            node = match node.as_ref().map(|x| eng.step(x, a)) {
                Some(StepOut::Next(x)) => Some(x),
                _ => None,
            };
        }
        run.state();
        run.outcome(&format!("many-huge-withdrawals:{}", if node.is_some() { "path-completed" } else { "path-stopped(engine reported or real code rejected)" }));
    }
    run.set("many_huge_requests", json!({"value_each": "2^120", "counts": if thorough { vec![255, 256, 257, 300, 600] } else { vec![255, 257, 300] }, "pool": "MEL/SYM", "sides": ["SYM", "MEL"]}));
}

/// Amounts near the maximum coin value against the built-in MEL/SYM pool (lopsided prices: shares that round down to nothing).
fn huge_amounts(run: &Run, thorough: bool) {
    let rootn = root_huge(NetID::Custom02);
    let mut cfg = pool_cfg();
    cfg.mints = false;
    cfg.overpay = false;
    cfg.transfers = false;
    cfg.swaps_per_side = 2;
    cfg.max_txs_per_block = 3;
    cfg.seal_actions = vec![None];
    cfg.only_pools = Some(vec![melstructs::PoolKey::new(melstructs::Denom::Mel, melstructs::Denom::Sym)]);
    let eng = crate::stf::Engine::new(run);
    let c2 = cfg.clone();
    let acts = move |n: &crate::stf::Node| crate::alphabet::actions(n, &c2);
    let visit = |_n: &crate::stf::Node| {};
    let st = crate::stf::bfs(&eng, vec![rootn], if thorough { 8 } else { 6 }, 400_000, &acts, &visit);
    run.set("scenario:custom02-huge-amounts", json!({"depth_bound_completed": st.depth_completed, "unique_states": st.states, "transitions": st.transitions}));
    println!("  scenario custom02-huge-amounts: depth {} states {} transitions {}", st.depth_completed, st.states, st.transitions);
}

pub fn run(run: &Run) {
    long_histories(run, run.thorough());
    // withdrawals of liquidity tokens the built-in pools never issued (faucet-minted; C16's scenario): whatever is settled, the
    // payouts come out of the reserves
    crate::props::c16::unissued_liquidity_tokens(run, run.thorough());
    run_std_genesis(run, if run.thorough() { 8 } else { 6 });
    huge_amounts(run, run.thorough());
    // C15's scenario of the same kind (three swaps per side and block, one level deeper): shares that round down to nothing
    crate::props::c15::huge_amounts(run, run.thorough());
    many_huge_requests(run, run.thorough());
    for sc in scenarios(run.thorough()) {
        sample_alphabet(run, &sc);
        let st = run_scenario(run, &sc, 2_000_000);
        println!("  scenario {}: depth {} states {} transitions {}", sc.name, st.depth_completed, st.states, st.transitions);
    }
    // the proof-of-work issuance path: real MelPoW mints around the reward bound, before and after a speed record (shared with C18)
    crate::props::c18::run_world(run, NetID::Custom02, &[1, 2], &[(8, false), (16, false), (14, true)], false);
    run.sample(json!({"path": ["genesis[Custom02]", "open", "swap[MEL/SYM:canonical](MEL coin)", "seal(None)"], "oracle": "for every denomination: coins + pool reserves (+ fee pool + tips for MEL) after <= before + issuance allowed by the statement"}));
    run.assume("supply is computed from the raw coin and pool trees of the real state; every pool tree entry must be a pool some transaction named");
    run.assume("peg and subsidy allowances are computed by the reference transcription of the stated formulas (refstf.rs)");
}
