//! C08 — restart equivalence: product search over (restart point) x (continuation).
//! For every sealed state S within d1 of the scenarios, R = from_block(S.to_block(), S.raw_stakes(), db);
//! the pair (S, R) is then driven in lock-step through every continuation of depth d2.
use crate::alphabet::*;
use crate::guard::guard;
use crate::props::e1::*;
use crate::report::Run;
use crate::stf::*;
use crate::world::*;
use melstf::SealedState;
use melstructs::{CoinValue, NetID, StakeDoc, TxHash};
use rayon::prelude::*;
use serde_json::json;
use std::collections::{BTreeMap, HashSet};
use tmelcrypt::HashVal;

fn restart(s: &Sealed) -> Result<Sealed, String> {
    guard(|| crate::world::restart_from_disk(s)).map_err(|p| p.class())
}

#[derive(Clone)]
struct Pair {
    /// original lineage, with its model (used to generate the alphabet)
    s: Node,
    /// restarted lineage
    r: Real,
    restarts: u8,
}

fn real_key(r: &Real) -> [u8; 32] {
    let (h, tips, open) = match r {
        Real::Sealed(s) => (s.header(), 0u128, false),
        Real::Open(u) => (u.verif_peek().header(), u.verif_tips().0, true),
    };
    let mut x = blake3::Hasher::new();
    x.update(&h.hash().0);
    x.update(&tips.to_be_bytes());
    x.update(&[open as u8]);
    *x.finalize().as_bytes()
}

fn apply_raw(r: &Real, a: &Action) -> Result<Option<Real>, String> {
    // Ok(None) = rejected
    match (a, r) {
        (Action::Open, Real::Sealed(s)) => guard(|| s.next_unsealed()).map(|u| Some(Real::Open(u))).map_err(|p| p.class()),
        (Action::Batch { txs, .. }, Real::Open(u)) => {
            let mut c = u.clone();
            match guard(|| c.apply_tx_batch(txs)) {
                Err(p) => Err(p.class()),
                Ok(Err(_)) => Ok(None),
                Ok(Ok(())) => Ok(Some(Real::Open(c))),
            }
        }
        (Action::Seal(act), Real::Open(u)) => guard(|| u.clone().seal(*act)).map(|s| Some(Real::Sealed(s))).map_err(|p| p.class()),
        (Action::Restart, Real::Sealed(s)) => restart(s).map(|x| Some(Real::Sealed(x))),
        _ => Ok(None),
    }
}

fn describe(r: &Real) -> (melstructs::Header, u128) {
    match r {
        Real::Sealed(s) => (s.header(), 0),
        Real::Open(u) => (u.verif_peek().header(), u.verif_tips().0),
    }
}

fn explore_pair(run: &Run, start: &Node, cfg: &AlphaCfg, d2: usize, features: &str) {
    let s0 = match &start.real {
        Real::Sealed(s) => s.clone(),
        _ => return,
    };
    run.transition();
    let r0 = match restart(&s0) {
        Ok(r) => r,
        Err(c) => {
            run.outcome(&format!("from_block-panicked(reported under C09):{}", c));
            return;
        }
    };
    run.validated();
    if r0.header() != s0.header() {
        run.violation(
            "C08",
            format!("rebuilt-header-differs/{}", header_diff(&s0.header(), &r0.header()).join(",")),
            format!("from_block(to_block(S)).header() != S.header() after [{}]", start.path_str()),
            start.replay_json(Some(&Action::Restart)),
        );
        return;
    }
    if r0.proposer_action() != s0.proposer_action() {
        run.violation("C08", "rebuilt-proposer-action-differs".into(), format!("after [{}]", start.path_str()), start.replay_json(Some(&Action::Restart)));
    }
    let scratch = Run::new("scratch", "quick");
    let eng = Engine::new(&scratch);
    let mut frontier = vec![Pair { s: start.clone(), r: Real::Sealed(r0), restarts: 1 }];
    let mut seen: HashSet<([u8; 32], [u8; 32])> = HashSet::new();
    for _depth in 0..d2 {
        let mut next = vec![];
        for p in &frontier {
            let mut acts = actions(&p.s, cfg);
            if !p.s.is_open() && p.restarts < 2 {
                acts.push(Action::Restart);
            }
            for a in acts {
                run.transition();
                let so = eng.step(&p.s, &a);
                let ro = apply_raw(&p.r, &a);
                let replay = json!({"restart_point": start.replay_json(None), "continuation_from_restart": p.s.labels()[start.path_len()..].to_vec(), "next": a.json()});
                match (so, ro) {
                    (StepOut::Pruned, Err(c)) => {
                        // both lineages fail (the engine reported the original's failure): a totality matter
                        run.outcome(&format!("both-lineages-failed(reported under C09):{}", c));
                    }
                    (_, Err(c)) => {
                        // the original lineage takes the step, the rebuilt one panics: they do not behave identically
                        run.violation(
                            "C08",
                            format!("rebuilt-lineage-panics/{}/after={}", features, a.label().split(|c| c == '(' || c == '[').next().unwrap_or("")),
                            format!("restart after [{}], continuation [{} ; {}]: the original lineage takes the step, the rebuilt one panics: {}", start.path_str(), p.s.labels()[start.path_len()..].join(" ; "), a.label(), c),
                            replay,
                        );
                    }
                    (StepOut::Next(sn), Ok(Some(rn))) => {
                        run.validated();
                        let (hs, ts) = describe(&sn.real);
                        let (hr, tr) = describe(&rn);
                        if hs != hr || ts != tr {
                            let what = if hs != hr { header_diff(&hs, &hr).join(",") } else { "tips".to_string() };
                            run.violation(
                                "C08",
                                format!("lineages-diverge/{}/{}/after={}", what, features, a.label().split(|c| c == '(' || c == '[').next().unwrap_or("")),
                                format!(
                                    "restart after [{}], continuation [{} ; {}]: original and rebuilt lineages differ in {} (tips {} vs {})",
                                    start.path_str(),
                                    p.s.labels()[start.path_len()..].join(" ; "),
                                    a.label(),
                                    what,
                                    ts,
                                    tr
                                ),
                                replay,
                            );
                            continue;
                        }
                        run.outcome("pair-step:same");
                        let np = Pair { s: sn, r: rn, restarts: p.restarts + matches!(a, Action::Restart) as u8 };
                        if seen.insert((np.s.key(), real_key(&np.r))) {
                            run.state();
                            next.push(np);
                        }
                    }
                    (StepOut::Rejected, Ok(None)) => {
                        run.validated();
                        run.outcome("pair-step:both-reject");
                    }
                    (StepOut::Pruned, _) => run.outcome("pair-step:original-lineage-pruned-by-engine"),
                    (StepOut::Next(_), Ok(None)) | (StepOut::Rejected, Ok(Some(_))) => {
                        run.validated();
                        run.violation(
                            "C08",
                            format!("acceptance-differs/{}/after={}", features, a.label().split(|c| c == '(' || c == '[').next().unwrap_or("")),
                            format!("restart after [{}], continuation [{} ; {}]: one lineage accepts, the other rejects", start.path_str(), p.s.labels()[start.path_len()..].join(" ; "), a.label()),
                            replay,
                        );
                    }
                }
            }
        }
        frontier = next;
    }
}

fn stakes_for_epochs() -> BTreeMap<TxHash, StakeDoc> {
    let mut m = BTreeMap::new();
    m.insert(TxHash(HashVal([0x51; 32])), StakeDoc { pubkey: key(1).0, e_start: 0, e_post_end: 1, syms_staked: CoinValue(10) });
    m.insert(TxHash(HashVal([0x52; 32])), StakeDoc { pubkey: key(2).0, e_start: 0, e_post_end: 2, syms_staked: CoinValue(20) });
    m.insert(TxHash(HashVal([0x53; 32])), StakeDoc { pubkey: key(3).0, e_start: 1, e_post_end: 3, syms_staked: CoinValue(30) });
    m
}

/// Scripted histories (pool life cycles, changing proposer actions) with a restart at *every* sealed point: the rebuilt state is
/// driven through the whole rest of the script next to the state that kept running; acceptance, header and tips are compared
/// after every step.  State that is neither committed by the header nor rebuilt by from_block shows only several blocks later.
fn scripted_histories(run: &Run, thorough: bool) {
    let scratch = Run::new("scratch", "quick");
    let mut eng = Engine::new(&scratch);
    // the script is followed whatever the reference model thinks of a step: this check compares the two lineages with each other
    eng.continue_after_mismatch = true;
    let mut cfg = crate::props::c01::pool_cfg();
    cfg.splits = true;
    cfg.max_txs_per_block = 3;
    cfg.seal_actions = vec![None, Some(action_dest(1)), Some(melstructs::ProposerAction { fee_multiplier_delta: -128, reward_dest: addr_true() }), Some(melstructs::ProposerAction { fee_multiplier_delta: 127, reward_dest: addr_true2() })];
    let scripts: Vec<(&str, NetID, u128, Vec<&str>)> = vec![
        ("user pool: created, traded, emptied, asked while empty, re-created, traded, emptied", NetID::Custom02, 0, vec![
            "open", "mint(", "seal(None)", "open", "deposit[MEL/C", "seal(delta=1", "open", "swap[MEL/C~(C", "seal(None)", "open", "withdraw[MEL/C", "seal(delta=-128",
            "open", "swap[MEL/C~(MEL", "seal(None)", "open", "deposit[MEL/C", "xfer(", "seal(delta=127", "open", "swap[MEL/C~(MEL", "swap[MEL/C~(MEL", "seal(None)",
            "open", "withdraw[MEL/C", "seal(delta=1", "open", "swap[MEL/C~(MEL", "seal(None)", "open", "deposit[MEL/C", "seal(None)", "open", "swap[MEL/C~(C", "seal(delta=1",
        ]),
        ("built-in pools: deposits, swaps on every side, withdrawals", NetID::Custom02, 0, vec![
            "open", "deposit[MEL/SYM", "seal(delta=127", "open", "swap[MEL/SYM~(MEL", "swap[ERG/MEL", "seal(None)", "open", "deposit[ERG/SYM", "swap[MEL/SYM~(SYM", "seal(delta=-128",
            "open", "withdraw[MEL/SYM", "swap[ERG/SYM", "seal(delta=1", "open", "split(", "seal(None)", "open", "withdraw[ERG/SYM", "mint(", "seal(delta=127", "open", "deposit[MEL/C", "seal(None)",
            "open", "swap[MEL/C", "seal(delta=1", "open", "withdraw[MEL/C", "seal(None)",
        ]),
        ("testnet below 500: user pool and legacy rules", NetID::Testnet, 0, vec![
            "open", "mint(", "seal(None)", "open", "deposit[MEL/C", "seal(delta=127", "open", "swap[MEL/C", "seal(None)", "open", "withdraw[MEL/C", "seal(delta=1", "open", "swap[MEL/C", "seal(None)",
            "open", "deposit[MEL/C", "seal(None)", "open", "swap[MEL/C", "faucet0", "seal(delta=-128", "open", "deposit[MEL/SYM", "seal(None)", "open", "withdraw[MEL/SYM", "seal(None)",
        ]),
    ];
    let repeats = if thorough { 3 } else { 1 };
    for (name, net, fm, cycle) in scripts {
        let (_w, rootn) = root(net, fm, true);
        let mut c = cfg.clone();
        c.faucets = net != NetID::Custom02;
        let wants: Vec<&str> = (0..repeats).flat_map(|_| cycle.iter().cloned()).collect();
        let (nodes, acts) = drive_script(&eng, rootn, &c, &wants);
        let points: Vec<usize> = (0..nodes.len()).filter(|i| !nodes[*i].is_open()).collect();
        run.states_add(points.len() as u64);
        let diverged = std::sync::atomic::AtomicBool::new(false);
        points.par_iter().for_each(|&i| {
            let s = match &nodes[i].real {
                Real::Sealed(s) => s,
                _ => return,
            };
            let mut rebuilt = match restart(s) {
                Ok(r) => Real::Sealed(r),
                Err(class) => {
                    run.violation("C08", format!("scripted-history/rebuild-panics/{}", class), format!("script '{}': from_block panicked at step {} ({})", name, i, nodes[i].path_str()), nodes[i].replay_json(None));
                    return;
                }
            };
            for j in i..acts.len() {
                run.transition();
                let got = apply_raw(&rebuilt, &acts[j]);
                run.validated();
                match got {
                    Ok(Some(r)) => {
                        let (ho, to) = describe(&nodes[j + 1].real);
                        let (hr, tr) = describe(&r);
                        if ho != hr || to != tr {
                            diverged.store(true, std::sync::atomic::Ordering::SeqCst);
                            let what = if ho != hr { header_diff(&ho, &hr).join(",") } else { "tips".into() };
                            run.violation(
                                "C08",
                                format!("scripted-history-diverges/{}", what),
                                format!("script '{}': restarted after step {} of {}, the two lineages differ in {} after step {} [{}]", name, i, acts.len(), what, j + 1, acts[j].label()),
                                json!({"script": name, "restart_after_step": i, "diverges_after_step": j + 1, "path": nodes[j + 1].path_str()}),
                            );
                            return;
                        }
                        rebuilt = r;
                    }
                    Ok(None) => {
                        diverged.store(true, std::sync::atomic::Ordering::SeqCst);
                        run.violation("C08", "scripted-history-diverges/acceptance".into(), format!("script '{}': restarted after step {}, step {} [{}] is refused by the rebuilt lineage and accepted by the one that kept running", name, i, j + 1, acts[j].label()), json!({"script": name, "restart_after_step": i, "diverges_after_step": j + 1, "path": nodes[j + 1].path_str()}));
                        return;
                    }
                    Err(class) => {
                        // the lineage that kept running did not panic here
                        run.violation("C08", format!("scripted-history/rebuilt-lineage-panics/{}", class), format!("script '{}': restarted after step {}, step {} [{}] panics in the rebuilt lineage only", name, i, j + 1, acts[j].label()), json!({"script": name, "restart_after_step": i, "step": j + 1}));
                        return;
                    }
                }
            }
            run.outcome("scripted-history:same-to-the-end");
        });
        run.set(&format!("scripted_history:{}", name), json!({"network": format!("{:?}", net), "steps": acts.len(), "labels": acts.iter().map(|a| a.label()).collect::<Vec<_>>(), "restart_points": points.len(), "diverged": diverged.load(std::sync::atomic::Ordering::SeqCst), "final_height": nodes.last().map(|n| n.model.height)}));
        println!("  scripted history '{}': {} steps, {} restart points", name, acts.len(), points.len());
    }
}

pub fn run(run: &Run) {
    let thorough = run.thorough();
    let d1 = if thorough { 6 } else { 5 };
    let d2 = if thorough { 5 } else { 4 };
    let scratch = Run::new("scratch", "quick");
    let eng = Engine::new(&scratch);
    // restart-point scenarios: over-paying transfers (pending tips), sealed with and without an action
    let mut cfg = AlphaCfg::base();
    cfg.per_denom = 1;
    cfg.adversarial = false;
    cfg.pairs = false;
    cfg.splits = false;
    cfg.burns = false;
    cfg.mints = false;
    cfg.faucets = true;
    cfg.overpay = true;
    // stake transactions, in order and not (a block holding one that registered nothing is a restart point of its own kind)
    cfg.stakes = true;
    cfg.max_txs_per_block = 1;
    cfg.seal_actions = vec![None, Some(action_dest(3))];
    let mut cont = cfg.clone();
    cont.swaps = true;
    cont.adversarial = true;
    let mut roots: Vec<(String, Node)> = vec![];
    for (net, fm, pre) in [
        (NetID::Custom02, 0u128, vec![]),
        (NetID::Custom02, 65536, vec![]),
        (NetID::Testnet, 0, vec![Action::Jump(498)]),
        (NetID::Custom08, 0, vec![]),
        // mainnet: the grandfathered faucet is in both alphabets - the one transaction that leaves no marker in the coin tree, so
        // whatever a running node remembers about having applied it is not in what a restarted node reads back (seed C08-r13-1)
        (NetID::Mainnet, 0, vec![]),
    ] {
        let (_w, mut r) = root(net, fm, true);
        for a in &pre {
            if let StepOut::Next(n) = eng.step(&r, a) {
                r = n;
            }
        }
        roots.push((format!("{:?}/fm={}", net, fm), r));
    }
    // testnet shortly before TIP-902 (height 500: the ERG/SYM pool becomes built-in) with a pool created by a user: the pool tree
    // holds three pools although the third built-in one does not exist yet
    {
        let (_w, r) = root(NetID::Testnet, 0, true);
        let mut pc = crate::props::c01::pool_cfg();
        pc.seal_actions = vec![None];
        match advance_by_labels(&scratch, r, &pc, &["open", "mint(", "seal(None)", "open", "deposit[MEL/C", "seal(None)"]) {
            Some(n) => {
                // reached by real empty blocks, not by re-labelling: re-labelling goes through from_block, the function under test
                let mut cur = Some(n);
                while let Some(c) = &cur {
                    if c.model.height >= 496 {
                        break;
                    }
                    cur = match eng.step(c, &Action::Open) {
                        StepOut::Next(o) => match eng.step(&o, &Action::Seal(None)) {
                            StepOut::Next(s) => Some(s),
                            _ => None,
                        },
                        _ => None,
                    };
                }
                match cur {
                    Some(j) => roots.push(("Testnet/user-pool-before-tip902".into(), j)),
                    None => run.outcome("user-pool-root-unavailable"),
                }
            }
            None => run.outcome("user-pool-root-unavailable"),
        }
    }
    // scalar header fields away from their defaults (fee pool, fee multiplier, DOSC speed), so that a field that is not restored shows
    {
        let (w, r) = root(NetID::Custom02, 0, true);
        if let Real::Sealed(s) = &r.real {
            let f = fabricate_with(s, &w.db, NetID::Custom02, 7, 123_456_789, 70_000, 7_777_777);
            let h0 = f.header();
            let mut m = r.model.clone();
            m.height = 7;
            m.fee_pool = 123_456_789;
            m.fee_multiplier = 70_000;
            m.dosc_speed = 7_777_777;
            m.block_txs.clear();
            roots.push(("Custom02/non-default-scalars".into(), Node::new_root(Real::Sealed(f), m, "genesis[Custom02] relabelled at height 7 with fee_pool=123456789 fee_multiplier=70000 dosc_speed=7777777".to_string(), json!({"root": "Custom02 relabelled with non-default scalars"}), vec![h0])));
        }
    }
    // a history in which a DoscMint raised the DOSC speed (reached honestly, not through from_block)
    match root_with_speed_record(&scratch, NetID::Custom02) {
        Some((n, _)) => roots.push(("Custom02/raised-dosc-speed".into(), n)),
        None => run.outcome("speed-record-root-unavailable"),
    }
    // epoch boundary with stakes expiring: Custom02 genesis with stakes, jumped to the last block of epoch 0 and of epoch 1
    for h in [199_998u64, 399_998] {
        let w = world(NetID::Custom02, out_t(1_000_000_000, melstructs::Denom::Mel), 1 << 30, 0, stakes_for_epochs());
        let s = w.genesis.clone().seal(None);
        let model = model_of(&s, &[melstructs::CoinID::zero_zero()], &builtin_pool_keys(), &[]);
        let h0 = s.header();
        let n = Node::new_root(Real::Sealed(s), model, "genesis[Custom02+stakes]".to_string(), json!({"root": "Custom02 with three stakes"}), vec![h0]);
        if let StepOut::Next(j) = eng.step(&n, &Action::Jump(h)) {
            roots.push((format!("Custom02+stakes@{}", h), j));
        }
    }
    // long continuations of empty blocks: a restart after the root and after each of the first three blocks, then twelve blocks
    // sealed under a pattern of proposer actions (state that the header does not commit to may surface only after several rewards)
    for (name, rootn) in &roots {
        let s0 = match &rootn.real {
            Real::Sealed(s) => s.clone(),
            _ => continue,
        };
        let patterns: Vec<(&str, Box<dyn Fn(usize) -> Option<melstructs::ProposerAction> + Sync>)> = vec![
            ("every block with an action", Box::new(|i| Some(action_dest((i % 3) as u8 + 1)))),
            ("alternating", Box::new(|i| if i % 2 == 0 { Some(action_dest(2)) } else { None })),
            ("two without, then actions", Box::new(|i| if i < 2 { None } else { Some(melstructs::ProposerAction { fee_multiplier_delta: -128, reward_dest: addr_true() }) })),
        ];
        for (pname, pat) in &patterns {
            for restart_after in 0..4usize {
                let outcome = guard(|| {
                    let mut orig = s0.clone();
                    for i in 0..restart_after {
                        orig = orig.next_unsealed().seal(pat(i));
                    }
                    let mut rebuilt = match restart(&orig) {
                        Ok(r) => r,
                        Err(_) => return None,
                    };
                    for i in restart_after..restart_after + 12 {
                        orig = orig.next_unsealed().seal(pat(i));
                        rebuilt = rebuilt.next_unsealed().seal(pat(i));
                        if orig.header() != rebuilt.header() {
                            return Some((i, header_diff(&orig.header(), &rebuilt.header()).join(",")));
                        }
                    }
                    None
                });
                run.transition();
                run.validated();
                match outcome {
                    Ok(Some((i, what))) => run.violation(
                        "C08",
                        format!("long-continuation-diverges/{}", what),
                        format!("root {}: restart after {} block(s), pattern '{}': headers differ in {} at block {} of the continuation", name, restart_after, pname, what, i + 1 - restart_after),
                        json!({"root": name, "restart_after_blocks": restart_after, "pattern": pname, "diverges_at_block": i}),
                    ),
                    Ok(None) => run.outcome("long-continuation:same"),
                    Err(_) => run.outcome("long-continuation:panic(reported under C09)"),
                }
            }
        }
    }
    // what a node went through before it stopped is not part of what it reads back: offers it refused (a block with the right header
    // and another body, a block with a wrong header), queries it answered.  The restarted node has seen none of that; from then on
    // both must treat the honest block, and the blocks after it, alike.
    for (name, rootn) in &roots {
        let s0 = match &rootn.real {
            Real::Sealed(s) => s.clone(),
            _ => continue,
        };
        let built = guard(|| {
            let mut u = s0.next_unsealed();
            let t = tx_t(melstructs::TxKind::Faucet, vec![], vec![out_t(3, melstructs::Denom::Mel)], 0, b"c08-offer".to_vec());
            let with_tx = u.apply_tx(&t).is_ok();
            (u.seal(Some(action_dest(2))).to_block(), with_tx)
        });
        let (honest, _with_tx) = match built {
            Ok(x) => x,
            Err(_) => continue,
        };
        let mut offers: Vec<(&str, melstructs::Block)> = vec![];
        let mut b1 = honest.clone();
        b1.transactions.clear();
        offers.push(("the honest header over an emptied body", b1));
        let mut b2 = honest.clone();
        b2.proposer_action = Some(action_dest(5));
        offers.push(("the honest header with another proposer action", b2));
        let mut b3 = honest.clone();
        b3.header.fee_pool = melstructs::CoinValue(b3.header.fee_pool.0 + 1);
        offers.push(("the honest body under a header with another fee pool", b3));
        for k in 0..=offers.len() {
            // the first k offers are made (and refused) before the stop; k = 0: only queries
            let outcome = guard(|| {
                let orig = s0.clone();
                let mut refused = vec![];
                for (what, b) in offers.iter().take(k) {
                    refused.push((*what, orig.apply_block(b).is_ok()));
                }
                let _ = (orig.header(), orig.to_block(), orig.coin(melstructs::CoinID::zero_zero()), orig.pool(melstructs::PoolKey::new(melstructs::Denom::Mel, melstructs::Denom::Sym)), orig.history(melstructs::BlockHeight(0)));
                let rebuilt = match restart(&orig) {
                    Ok(r) => r,
                    Err(e) => return Err(format!("restart failed: {}", e)),
                };
                let (a, b) = (orig.apply_block(&honest).map(|s| s.header()), rebuilt.apply_block(&honest).map(|s| s.header()));
                let same = match (&a, &b) {
                    (Ok(x), Ok(y)) => x == y,
                    (Err(_), Err(_)) => true,
                    _ => false,
                };
                if !same {
                    return Ok(Some(format!("after {} refused offer(s) {:?} the node that kept running answers the honest block with {:?}, the restarted one with {:?}", k, refused, a.map(|h| h.hash().to_string()).map_err(|e| e.to_string()), b.map(|h| h.hash().to_string()).map_err(|e| e.to_string()))));
                }
                Ok(None)
            });
            run.transition();
            run.validated();
            match outcome {
                Ok(Ok(Some(what))) => run.violation("C08", format!("diverge-after-refused-offers/offers={}", k.min(1)), format!("root {}: {}", name, what), json!({"root": name, "refused_offers": k})),
                Ok(Ok(None)) => run.outcome("seen-before-the-stop:same"),
                Ok(Err(_)) => run.outcome("seen-before-the-stop:restart-failed(reported elsewhere)"),
                Err(_) => run.outcome("seen-before-the-stop:panic(reported under C09)"),
            }
        }
    }
    scripted_histories(run, thorough);
    let mut points_total = 0;
    for (name, rootn) in roots {
        let collected = parking_lot::Mutex::new(vec![]);
        let c2 = cfg.clone();
        let acts = move |n: &Node| actions(n, &c2);
        let visit = |n: &Node| {
            if !n.is_open() {
                collected.lock().push(n.clone());
            }
        };
        bfs(&eng, vec![rootn], d1, 100_000, &acts, &visit);
        let points: Vec<Node> = canonical_order(collected.into_inner());
        points_total += points.len();
        run.set(&format!("restart_points:{}", name), json!(points.len()));
        points.par_iter().for_each(|p| {
            let s = match &p.real {
                Real::Sealed(s) => s,
                _ => return,
            };
            // features of the restart point (used in violation classes)
            let tips_pending = p.model.tips > 0;
            let features = format!("pending_tips={}/sealed_with_action={}", tips_pending, s.proposer_action().is_some());
            explore_pair(run, p, &cont, d2, &features);
        });
    }
    run.set("restart_points", json!(points_total));
    run.set("d1_restart_point_depth", json!(d1));
    run.set("d2_continuation_depth", json!(d2));
    run.sample(json!({"restart_point": ["genesis[Custom02]", "open", "overpay(coin)", "seal(None)"], "continuation": ["open", "xfer(coin)", "seal(delta=3,dest=..)"], "oracle": "same accept/reject and same header (and tips) in both lineages at every step"}));
    run.assume("the restarted state is built from the serialised bytes of S.to_block(), a stake set built anew from the documents of S.raw_stakes(), and the same content-addressed store, as a node would do");
}
