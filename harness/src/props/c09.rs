//! C09 — validation is total: hostile input is rejected, never a crash or hang.
//! Hostile alphabet (boundary values per field and per transaction kind) x base states x
//! {apply_tx, apply_tx_batch with a normal neighbour, seal(None), seal(Some delta), apply_block, confirm},
//! every call under catch_unwind and a watchdog; process-killing inputs in child processes.
use crate::alphabet::*;
use crate::child::{self, ChildOutcome};
use crate::guard::guard;
use crate::props::e1::*;
use crate::report::Run;
use crate::stf::*;
use crate::world::*;
use bytes::Bytes;
use melstructs::{Address, Block, CoinData, CoinDataHeight, CoinID, CoinValue, ConsensusProof, Denom, NetID, PoolKey, ProposerAction, Transaction, TxKind};
use melvm::{opcode::OpCode, Covenant};
use parking_lot::Mutex;
use rayon::prelude::*;
use serde_json::{json, Value};
use std::collections::{BTreeMap, HashMap, HashSet};
use std::time::{Duration, Instant};
use tmelcrypt::HashVal;

// ---------------------------------------------------------------------------------------------
// watchdog

static WATCH: Mutex<Option<HashMap<std::thread::ThreadId, (Instant, String, Value)>>> = Mutex::new(None);

fn watched<T>(what: &str, replay: &Value, f: impl FnOnce() -> T) -> T {
    let id = std::thread::current().id();
    WATCH.lock().get_or_insert_with(Default::default).insert(id, (Instant::now(), what.to_string(), replay.clone()));
    let r = f();
    WATCH.lock().get_or_insert_with(Default::default).remove(&id);
    r
}

fn start_watchdog(run: &'static Run, deadline: Duration) {
    std::thread::spawn(move || loop {
        std::thread::sleep(Duration::from_millis(500));
        let hit = WATCH.lock().get_or_insert_with(Default::default).values().find(|(t, _, _)| t.elapsed() > deadline).cloned();
        if let Some((t, what, replay)) = hit {
            run.violation(
                "C09",
                format!("no-termination/{}", what.split(':').next().unwrap_or("call")),
                format!("{} did not return within {:?} (running for {:?}); the run ends here because the stuck thread cannot be reclaimed", what, deadline, t.elapsed()),
                replay,
            );
            run.cap_hit("a call exceeded the watchdog deadline; exploration stopped at that point");
            std::process::exit(run.finish());
        }
    });
}

// ---------------------------------------------------------------------------------------------
// hostile alphabet

const VALUES: [u128; 9] = [0, 1, 2, (1 << 120) - 1, 1 << 120, (1 << 120) + 1, 1 << 127, u128::MAX - 1, u128::MAX];

fn heavy_covenants() -> Vec<(&'static str, Bytes)> {
    use OpCode::*;
    let enc = |ops: Vec<OpCode>| Covenant::from_ops(&ops).to_bytes();
    let mut v: Vec<(&'static str, Bytes)> = vec![
        ("empty-bytes", Bytes::new()),
        ("invalid-opcode", Bytes::from_static(&[0x00])),
        ("truncated-operand", Bytes::from_static(&[0xf1, 0x01, 0x02])),
        ("noncanonical-pushic", Bytes::from_static(&[0xf2, 0x01, 0x00])),
        ("100000x0xb0", Bytes::from(vec![0xb0u8; 100_000])),
        ("24-loop-headers", enc((0..24).map(|_| Loop(2, 65535)).collect())),
        ("200-loop-headers", enc((0..200).map(|_| Loop(65535, 65535)).collect())),
        ("saturating-weight", enc((0..9).map(|_| Loop(65535, 65535)).chain([Noop]).collect())),
    ];
    // a covenant that *runs* long: 65535 x 65535 iterations would take forever, so its weight makes the fee unpayable; still must not hang validation before the fee check
    v.push(("two-saturating", enc((0..9).map(|_| Loop(65535, 65535)).chain([Noop]).collect())));
    v
}

/// Covenants locking coins whose *execution* is hostile (the spend runs them).
/// Leaves in heap slot 2 a byte string (or vector) of 2^64 - 1 elements, built from doubled pieces in 63 iterations.
fn full_length(bytes: bool) -> Vec<OpCode> {
    use OpCode::*;
    let (mut ops, append) = if bytes { (vec![PushB(vec![7])], BAppend) } else { (vec![PushI(7u8.into()), VEmpty, VPush], VAppend) };
    ops.extend([Dup, StoreImm(1), StoreImm(2), Loop(63, 8), LoadImm(1), Dup, append.clone(), Dup, StoreImm(1), LoadImm(2), append, StoreImm(2)]);
    ops
}

fn hostile_lock_covenants() -> Vec<(&'static str, Vec<OpCode>)> {
    use OpCode::*;
    let pi = |n: u64| PushI(n.into());
    vec![
        ("byte-doubling-1000", vec![PushB(vec![0xab; 32]), Loop(1000, 2), Dup, BAppend, BLength]),
        ("byte-doubling-26-btoi", {
            let mut p = vec![PushB(vec![0xab; 32])];
            for _ in 0..26 {
                p.extend([Dup, BAppend]);
            }
            p.push(BtoI);
            p
        }),
        ("vec-doubling-40-length", {
            let mut p = vec![pi(1), VEmpty, VPush];
            for _ in 0..40 {
                p.extend([Dup, VAppend]);
            }
            p.push(VLength);
            p
        }),
        // a string / vector of 2^64 - 1 elements out of shared pieces (1 + 2 + ... + 2^63: every append passes its own length check),
        // then one more element by BPush / BCons / VPush / VCons (finding AI: those four did not check the length counter)
        ("full-length-bpush", { let mut p = full_length(true); p.extend([pi(1), LoadImm(2), BPush, BLength]); p }),
        ("full-length-bcons", { let mut p = full_length(true); p.extend([LoadImm(2), pi(1), BCons, BLength]); p }),
        ("full-length-vpush", { let mut p = full_length(false); p.extend([pi(1), LoadImm(2), VPush, VLength]); p }),
        ("full-length-vcons", { let mut p = full_length(false); p.extend([LoadImm(2), pi(1), VCons, VLength]); p }),
        ("exp-255", vec![PushI(ethnum::U256::MAX), PushI(ethnum::U256::MAX), Exp(255)]),
        ("div-by-zero", vec![pi(0), pi(1), Div]),
        ("hash-65535-of-64k", vec![PushB(vec![1; 255]), Loop(8, 2), Dup, BAppend, Hash(65535), BLength]),
        ("store-many", vec![Loop(5000, 3), pi(7), Dup, Store, pi(1)]),
        ("jump-past-end", vec![pi(1), Jmp(65535)]),
        ("loop-overrun", vec![Loop(3, 65535), pi(1)]),
    ]
}

struct Ctx {
    mel: Vec<(CoinID, CoinDataHeight)>,
    sym: Vec<(CoinID, CoinDataHeight)>,
    erg: Vec<(CoinID, CoinDataHeight)>,
    height: u64,
    pools: Vec<PoolKey>,
    liq: Vec<(CoinID, CoinDataHeight, PoolKey)>,
}

fn ctx_of(n: &Node) -> Ctx {
    let m = &n.model;
    let mut liq = vec![];
    for k in known_pools(m) {
        for c in coins_of(m, k.liq_token_denom(), 1) {
            liq.push((c.0, c.1, k));
        }
    }
    Ctx { mel: coins_of(m, Denom::Mel, 4), sym: coins_of(m, Denom::Sym, 2), erg: coins_of(m, Denom::Erg, 2), height: m.height, pools: known_pools(m), liq }
}

fn hostile_txs(n: &Node, thorough: bool) -> Vec<(String, Transaction)> {
    let c = ctx_of(n);
    let mut v: Vec<(String, Transaction)> = vec![];
    let m0 = match c.mel.first() {
        Some(x) => x.clone(),
        None => return v,
    };
    let mv = m0.1.coin_data.value.0;
    // (a) values and fees
    for val in VALUES {
        for fee in [0u128, 1, 1 << 120, (1 << 120) + 1, u128::MAX] {
            if !thorough && fee != 0 && val != 0 && val != (1 << 120) {
                continue;
            }
            v.push((format!("normal value={} fee={}", val, fee), tx_t(TxKind::Normal, vec![m0.0], vec![out_t(val, Denom::Mel)], fee, vec![])));
        }
        v.push((format!("normal two outputs value={} + rest", val), tx_t(TxKind::Normal, vec![m0.0], vec![out_t(val, Denom::Mel), out_t(mv.wrapping_sub(val), Denom::Mel)], 0, vec![])));
        v.push((format!("faucet value={}", val), tx_t(TxKind::Faucet, vec![], vec![out_t(val, Denom::Mel), out_t(val, Denom::Sym)], val, vec![9])));
        v.push((format!("newcustom value={}", val), tx_t(TxKind::Normal, vec![m0.0], vec![out_t(mv, Denom::Mel), out_t(val, Denom::NewCustom)], 0, vec![])));
    }
    // (b) output counts x values (sum overflow)
    for count in [0usize, 1, 2, 254, 255, 256, 300] {
        for val in [0u128, 1, 1 << 120] {
            for fee in [0u128, 1 << 120] {
                let outs: Vec<CoinData> = (0..count).map(|_| out_t(val, Denom::Mel)).collect();
                v.push((format!("normal {} outputs of {} fee {}", count, val, fee), tx_t(TxKind::Normal, vec![m0.0], outs.clone(), fee, vec![])));
                if count == 255 || count == 256 {
                    v.push((format!("faucet {} outputs of {} fee {}", count, val, fee), tx_t(TxKind::Faucet, vec![], outs, fee, vec![8])));
                }
            }
        }
    }
    // a zero-valued MEL coin spent into 255 maximal outputs (wraps to a balanced total without overflow checks)
    v.push(("zero-coin then 255 x 2^120".into(), tx_t(TxKind::Normal, vec![m0.0], vec![out_t(0, Denom::Mel), out_t(mv, Denom::Mel)], 0, vec![0x20])));
    // (c) input counts
    let missing = |i: u8| CoinID { txhash: HashVal([0xdd; 32]).into(), index: i };
    v.push(("no inputs normal".into(), tx_t(TxKind::Normal, vec![], vec![out_t(1, Denom::Mel)], 0, vec![])));
    v.push(("no inputs no outputs".into(), tx_t(TxKind::Normal, vec![], vec![], 0, vec![])));
    v.push(("300 missing inputs".into(), tx_t(TxKind::Normal, (0..=255u8).chain(0..44).map(missing).collect(), vec![out_t(1, Denom::Mel)], 0, vec![])));
    v.push(("same input 300 times".into(), tx_t(TxKind::Normal, (0..300).map(|_| m0.0).collect(), vec![out_t(mv, Denom::Mel)], 0, vec![])));
    // (d) kinds with hostile data
    let pool_names: Vec<(String, Vec<u8>)> = {
        let mut p: Vec<(String, Vec<u8>)> = vec![];
        for k in c.pools.iter().take(if thorough { 6 } else { 4 }) {
            for (s, d) in pool_spellings(*k) {
                p.push((format!("{}:{}", k, s), d));
            }
        }
        p.push(("empty".into(), vec![]));
        p.push(("31B".into(), vec![7; 31]));
        p.push(("33B".into(), vec![0; 33]));
        p.push(("nonexistent-custom".into(), vec![0x42; 32]));
        p.push(("garbage-long".into(), {
            let mut x = vec![0u8; 32];
            x.extend([0xff; 9]);
            x
        }));
        p
    };
    for (pn, data) in &pool_names {
        for amount in [0u128, 1, 2, mv] {
            for side in [Denom::Mel, Denom::Sym, Denom::Erg] {
                let src = match side {
                    Denom::Mel => Some(m0.clone()),
                    Denom::Sym => c.sym.first().cloned(),
                    _ => c.erg.first().cloned(),
                };
                let src = match src {
                    Some(s) => s,
                    None => continue,
                };
                let sv = src.1.coin_data.value.0;
                if amount > sv {
                    continue;
                }
                let (mut ins, mut outs) = (vec![src.0], vec![out_t(amount, side), out_t(sv - amount, side)]);
                if side != Denom::Mel {
                    ins.push(m0.0);
                    outs.push(out_t(mv, Denom::Mel));
                }
                if !thorough && amount == 2 {
                    continue;
                }
                v.push((format!("swap[{}] {} of {:?}", pn, amount, side), tx_t(TxKind::Swap, ins.clone(), outs.clone(), 0, data.clone())));
                if amount <= 1 {
                    v.push((format!("withdraw-kind[{}] {} of {:?}", pn, amount, side), tx_t(TxKind::LiqWithdraw, ins.clone(), vec![out_t(sv, side)], if side == Denom::Mel { 0 } else { mv }, data.clone())));
                }
            }
            // deposits with zero / unit sides
            if let (Some(s0), true) = (c.sym.first(), amount <= 2) {
                let sv = s0.1.coin_data.value.0;
                for (l, r) in [(amount, amount), (amount, 1000), (1000, amount)] {
                    if l > mv || r > sv {
                        continue;
                    }
                    v.push((
                        format!("deposit[{}] {}+{}", pn, l, r),
                        tx_t(TxKind::LiqDeposit, vec![m0.0, s0.0], vec![out_t(l, Denom::Mel), out_t(r, Denom::Sym), out_t(mv - l, Denom::Mel), out_t(sv - r, Denom::Sym)], 0, data.clone()),
                    ));
                    // sides in the other order
                    v.push((
                        format!("deposit-swapped-sides[{}] {}+{}", pn, r, l),
                        tx_t(TxKind::LiqDeposit, vec![m0.0, s0.0], vec![out_t(r, Denom::Sym), out_t(l, Denom::Mel), out_t(mv - l, Denom::Mel), out_t(sv - r, Denom::Sym)], 0, data.clone()),
                    ));
                }
            }
        }
    }
    // withdrawals of liquidity tokens held: all, more than held cannot be built (balance), zero
    for (id, cdh, k) in &c.liq {
        let lv = cdh.coin_data.value.0;
        for amount in [0u128, 1, lv] {
            if amount > lv {
                continue;
            }
            // a withdrawal request has exactly one output; the remainder cannot be returned, so only amount == lv balances — the others are hostile shapes
            let t = tx_t(TxKind::LiqWithdraw, vec![*id, m0.0], vec![out_t(amount, k.liq_token_denom())], mv, k.to_bytes().to_vec());
            v.push((format!("withdraw[{}] {} of {}", k, amount, lv), t));
        }
    }
    // stake documents
    if let Some(s0) = c.sym.first() {
        let sv = s0.1.coin_data.value.0;
        let cur = c.height / 200_000;
        for es in [0u64, cur, cur + 1, u64::MAX] {
            for ee in [0u64, cur, cur + 1, cur + 2, u64::MAX] {
                for amt in [0u128, sv, sv + 1, u128::MAX] {
                    if !thorough && amt == sv + 1 {
                        continue;
                    }
                    v.push((format!("stake e_start={} e_end={} amount={}", es, ee, amt), tx_t(TxKind::Stake, vec![s0.0, m0.0], vec![out_t(sv, Denom::Sym), out_t(mv, Denom::Mel)], 0, stake_doc_bytes(1, es, ee, amt))));
                }
            }
        }
        for (name, data) in [("empty", vec![]), ("one-byte", vec![1]), ("garbage-100", vec![0xfe; 100])] {
            v.push((format!("stake doc {}", name), tx_t(TxKind::Stake, vec![s0.0, m0.0], vec![out_t(sv, Denom::Sym), out_t(mv, Denom::Mel)], 0, data.clone())));
            v.push((format!("stake doc {} no outputs", name), tx_t(TxKind::Stake, vec![s0.0, m0.0], vec![], mv, data)));
        }
    }
    // DoscMint: (difficulty, proof) grid
    let valid_proof = {
        let pz = tmelcrypt::hash_keyed(n.view().history(m0.1.height).map(|h| h.hash()).unwrap_or_default(), stdcode::serialize(&m0.0).unwrap());
        melpow::Proof::generate(&pz, 2, crate::refstf::LegacyHash).to_bytes()
    };
    let mut proofs: Vec<(&str, Vec<u8>)> = vec![("empty", vec![]), ("39B", vec![1; 39]), ("40-zero", vec![0; 40]), ("80-ff", vec![0xff; 80]), ("valid-d2", valid_proof.clone())];
    if valid_proof.len() >= 80 {
        let mut r = valid_proof.clone();
        r.drain(0..40);
        proofs.push(("valid-d2-first-unit-removed", r));
        let mut r2 = valid_proof.clone();
        let l = r2.len();
        r2.truncate(l - 40);
        proofs.push(("valid-d2-last-unit-removed", r2));
        proofs.push(("valid-d2-truncated-mid-unit", valid_proof[..valid_proof.len() - 13].to_vec()));
    }
    for d in [0u32, 1, 2, 3, 63, 64, 65, 100, 101, 127, 128, u32::MAX] {
        for (pn, p) in &proofs {
            for erg in [0u128, 1, 1 << 120] {
                if !thorough && erg == 1 && d > 3 {
                    continue;
                }
                v.push((
                    format!("doscmint d={} proof={} erg={}", d, pn, erg),
                    tx_t(TxKind::DoscMint, vec![m0.0], vec![out_t(mv, Denom::Mel), out_t(erg, Denom::Erg)], 0, stdcode::serialize(&(d, p.clone())).unwrap()),
                ));
            }
        }
    }
    for (name, data) in [("empty", vec![]), ("garbage", vec![0xab; 50]), ("huge-length-prefix", vec![0xfd, 0xff, 0xff, 0xff, 0xff, 0xff, 0xff, 0xff, 0xff])] {
        v.push((format!("doscmint data {}", name), tx_t(TxKind::DoscMint, vec![m0.0], vec![out_t(mv, Denom::Mel)], 0, data.clone())));
        v.push((format!("doscmint no inputs data {}", name), tx_t(TxKind::DoscMint, vec![], vec![out_t(1, Denom::Erg)], 0, data)));
    }
    // (e) covenants carried by the transaction (weighed for the fee even when unused)
    let heavy = heavy_covenants();
    for (name, cov) in &heavy {
        v.push((format!("covenant {}", name), mktx(TxKind::Normal, vec![m0.0], vec![out_t(mv, Denom::Mel)], 0, vec![cov_true().to_bytes(), cov.clone()], vec![])));
    }
    v.push((
        "two saturating covenants".into(),
        mktx(TxKind::Normal, vec![m0.0], vec![out_t(mv, Denom::Mel)], 0, vec![cov_true().to_bytes(), heavy[7].1.clone(), {
            let mut b = heavy[7].1.to_vec();
            b.push(0x09);
            b.into()
        }], vec![]),
    ));
    // the same covenant of weight about 0.6 * 2^128 (never executed) listed twice, three times, and next to a light one: the sum of
    // the weights exceeds 128 bits although each one fits
    {
        use OpCode::*;
        let mut ops = vec![Loop(40000, 8)];
        for b in (1..=7u16).rev() {
            ops.push(Loop(65535, b));
        }
        ops.push(Noop);
        let big = Covenant::from_ops(&ops).to_bytes();
        for (name, covs) in [
            ("the same 0.6*2^128-weight covenant twice", vec![cov_true().to_bytes(), big.clone(), big.clone()]),
            ("the same 0.6*2^128-weight covenant three times", vec![cov_true().to_bytes(), big.clone(), big.clone(), big.clone()]),
            ("one 0.6*2^128-weight covenant", vec![cov_true().to_bytes(), big.clone()]),
        ] {
            v.push((name.into(), mktx(TxKind::Normal, vec![m0.0], vec![out_t(mv, Denom::Mel)], 0, covs, vec![])));
        }
    }
    // (f) signatures
    for (name, sigs) in [("empty-sig", vec![Bytes::new()]), ("huge-sig", vec![Bytes::from(vec![1u8; 100_000])]), ("1000-sigs", (0..1000).map(|_| Bytes::from_static(b"x")).collect())] {
        let mut t = tx_t(TxKind::Normal, vec![m0.0], vec![out_t(mv, Denom::Mel)], 0, vec![]);
        t.sigs = sigs;
        v.push((format!("sigs {}", name), t));
    }
    // additional data / tx data sizes
    let mut t = tx_t(TxKind::Normal, vec![m0.0], vec![out_t(mv, Denom::Mel)], 0, vec![0; 200_000]);
    t.outputs[0].additional_data = vec![3u8; 100_000].into();
    v.push(("200kB data, 100kB additional data".into(), t));
    v
}

// ---------------------------------------------------------------------------------------------
// driving one hostile transaction

fn kindclass(label: &str) -> String {
    // feature for violation classes: the template name without its numeric parameters
    let mut s = String::new();
    for w in label.split(' ') {
        if w.chars().next().map(|c| c.is_ascii_digit()).unwrap_or(false) || w.contains('=') {
            continue;
        }
        if let Some(i) = w.find('[') {
            s.push_str(&w[..i]);
        } else {
            s.push_str(w);
        }
        s.push('-');
        if s.len() > 24 {
            break;
        }
    }
    s.trim_end_matches('-').to_string()
}

fn drive(run: &Run, base: &Node, label: &str, tx: &Transaction, neighbour: Option<&Transaction>, deltas: &[i8]) {
    let u = match &base.real {
        Real::Open(u) => u.clone(),
        _ => return,
    };
    let replay = json!({"base": base.replay_json(None), "hostile": label, "tx": tx_json(tx)});
    let kc = kindclass(label);
    let batches: Vec<(String, Vec<Transaction>)> = {
        let mut b = vec![("alone".to_string(), vec![tx.clone()])];
        if let Some(nb) = neighbour {
            b.push(("after-normal".into(), vec![nb.clone(), tx.clone()]));
            b.push(("before-normal".into(), vec![tx.clone(), nb.clone()]));
        }
        b
    };
    for (bn, batch) in batches {
        run.transition();
        let mut st = u.clone();
        let r = watched(&format!("apply_tx_batch:{}", label), &replay, || guard(|| st.apply_tx_batch(&batch)));
        run.validated();
        match r {
            Err(p) => {
                run.outcome("apply:panic");
                run.violation("C09", format!("apply_tx_batch/{}/{}", kc, p.class()), format!("apply_tx_batch([{}] {}) after [{}] panicked: {}", bn, label, base.path_str(), p.msg), replay.clone());
                continue;
            }
            Ok(Err(_)) => {
                run.outcome("apply:rejected");
                continue;
            }
            Ok(Ok(())) => run.outcome("apply:accepted"),
        }
        // accepted: the block must still seal, with and without a proposer action, and its successor must open
        let mut actions: Vec<Option<ProposerAction>> = vec![None];
        for d in deltas {
            actions.push(Some(ProposerAction { fee_multiplier_delta: *d, reward_dest: addr_true() }));
        }
        for act in actions {
            run.transition();
            let r = watched(&format!("seal:{}", label), &replay, || guard(|| st.clone().seal(act)));
            run.validated();
            match r {
                Err(p) => {
                    run.outcome("seal:panic");
                    run.violation("C09", format!("seal/{}/{}", kc, p.class()), format!("seal({:?}) after accepting [{}] {} on [{}] panicked: {}", act.map(|a| a.fee_multiplier_delta), bn, label, base.path_str(), p.msg), replay.clone());
                }
                Ok(s) => {
                    run.outcome("seal:ok");
                    if act.is_none() {
                        // successor opens, an empty block on top seals, and the block round-trips through apply_block on its parent
                        let r2 = watched(&format!("next_unsealed:{}", label), &replay, || guard(|| s.next_unsealed().seal(None).header()));
                        if let Err(p) = r2 {
                            run.violation("C09", format!("next-block/{}/{}", kc, p.class()), format!("the block after [{}] {} panicked: {}", bn, label, p.msg), replay.clone());
                        }
                    }
                }
            }
        }
    }
}

fn drive_block(run: &Run, parent: &Sealed, path: &str, label: &str, tx: &Transaction) {
    // apply_block with a block carrying the hostile transaction and an arbitrary header: must return Err (or Ok), never panic
    let mut hs = HashSet::new();
    hs.insert(tx.clone());
    let blk = Block { header: parent.header(), transactions: hs, proposer_action: Some(ProposerAction { fee_multiplier_delta: -128, reward_dest: addr_true() }) };
    let replay = json!({"parent": path, "hostile_block_with": label, "tx": tx_json(tx)});
    run.transition();
    let r = watched(&format!("apply_block:{}", label), &replay, || guard(|| parent.apply_block(&blk).is_ok()));
    run.validated();
    match r {
        Err(p) => run.violation("C09", format!("apply_block/{}/{}", kindclass(label), p.class()), format!("apply_block with [{}] on [{}] panicked: {}", label, path, p.msg), replay),
        Ok(_) => run.outcome("apply_block:returned"),
    }
}

// ---------------------------------------------------------------------------------------------
// base states

fn base_states(thorough: bool) -> Vec<(Node, Node)> {
    // (sealed parent, open child)
    let scratch = Run::new("scratch", "quick");
    let eng = Engine::new(&scratch);
    let mut v = vec![];
    let mut push = |sealed: Node| {
        if let StepOut::Next(o) = eng.step(&sealed, &Action::Open) {
            v.push((sealed, o));
        }
    };
    // Custom02 height 1, with and without fees
    let (_w, r) = root(NetID::Custom02, 0, true);
    push(r.clone());
    let (_w, rf) = root(NetID::Custom02, 65536, true);
    push(rf);
    // a state with a custom pool, liquidity tokens in the wallet, and (second) the same pool emptied by withdrawing everything
    let mut cfg = AlphaCfg::base();
    cfg.per_denom = 1;
    cfg.adversarial = false;
    cfg.pairs = false;
    cfg.faucets = false;
    cfg.deposits = true;
    cfg.withdrawals = true;
    let path = ["mint(", "seal(None)", "open", "deposit[MEL/C", "seal(None)", "open"];
    let mut cur = match eng.step(&r, &Action::Open) {
        StepOut::Next(o) => o,
        _ => return v,
    };
    let mut with_pool: Option<Node> = None;
    for want in path {
        let acts = actions(&cur, &cfg);
        let a = acts.iter().find(|a| a.label().starts_with(want) && (want != "deposit[MEL/C" || a.label().contains(":canonical")));
        match a.and_then(|a| match eng.step(&cur, a) {
            StepOut::Next(n) => Some(n),
            _ => None,
        }) {
            Some(n) => cur = n,
            None => break,
        }
        if want == "seal(None)" && cur.model.pools.len() > 3 {
            with_pool = Some(cur.clone());
        }
    }
    if let Some(p) = with_pool {
        push(p.clone());
        // withdraw everything, seal: the custom pool is now empty
        if let StepOut::Next(o) = eng.step(&p, &Action::Open) {
            let acts = actions(&o, &cfg);
            if let Some(a) = acts.iter().find(|a| a.label().starts_with("withdraw[MEL/C")) {
                if let StepOut::Next(n1) = eng.step(&o, a) {
                    if let StepOut::Next(n2) = eng.step(&n1, &Action::Seal(None)) {
                        push(n2);
                    }
                }
            }
        }
    }
    // mainnet around TIP-906 (830000) and TIP-909 (950000) boundaries, testnet around 500
    let mut boundary = |net: NetID, h: u64| {
        let (_w, r) = root(net, 0, net != NetID::Mainnet);
        if let StepOut::Next(j) = eng.step(&r, &Action::Jump(h)) {
            if let StepOut::Next(o) = eng.step(&j, &Action::Open) {
                v.push((j, o));
            }
        }
    };
    boundary(NetID::Mainnet, 829_998);
    boundary(NetID::Testnet, 498);
    if thorough {
        boundary(NetID::Mainnet, 42_698);
        boundary(NetID::Mainnet, 179_998);
        boundary(NetID::Mainnet, 199_998);
        boundary(NetID::Testnet, 499);
        let (_w, r8) = root(NetID::Custom08, 0, true);
        if let StepOut::Next(o) = eng.step(&r8, &Action::Open) {
            v.push((r8, o));
        }
    }
    v
}

/// Height-0 genesis (the path that seals a clone inside validation).
fn genesis_open_node() -> Node {
    let w = world_mel(NetID::Custom02, 1_000_000_000, 0);
    let sealed_dummy = w.genesis.clone().seal(None);
    let model = model_of(&sealed_dummy, &[CoinID::zero_zero()], &[], &[]);
    Node::new_root(Real::Open(w.genesis.clone()), crate::refstf::RefState { height: 0, pools: Default::default(), ..model }, "unsealed-genesis(height 0)".to_string(), json!({"root": "unsealed genesis, height 0"}), vec![])
}

// ---------------------------------------------------------------------------------------------
// child process: hostile covenants that may kill the process

/// `mcheck __child stf <which>`: spends a coin locked by a hostile covenant through the real apply_tx on a 2 MiB-stack thread.
pub fn child_main(args: &[String]) {
    let which = args[0].clone();
    if let Some(h) = which.strip_prefix("restart-at-") {
        // a node restarted far into the chain: its first calls (opening, sealing and applying an empty block, each with its inflator lookups)
        // on an ordinary 2 MiB thread stack, in a process that has seen no other height
        let h: u64 = h.parse().unwrap();
        let out = child::on_small_stack(move || {
            let r = guard(move || {
                let w = world_mel(NetID::Custom02, 1_000_000, 0);
                let g = w.genesis.clone().seal(None);
                let far = fabricate(&g, &w.db, NetID::Custom02, h, &[]);
                let start = Instant::now();
                let sealed = far.next_unsealed().seal(Some(action_dest(1)));
                let blk = sealed.to_block();
                let applied = far.apply_block(&blk).is_ok();
                let next = sealed.next_unsealed().seal(None).header().height.0;
                json!({"result": if applied { "accepted" } else { "rejected" }, "next_height": next, "secs": start.elapsed().as_secs_f64()})
            });
            match r {
                Ok(v) => v,
                Err(p) => json!({"result": "panic", "panic_class": p.class(), "panic_msg": p.msg}),
            }
        });
        println!("{}", out);
        return;
    }
    if let Some(m) = which.strip_prefix("underpaid-heavy-covenant-m") {
        // a coin locked by three nested loops of 65535 (about 2.8 x 10^14 steps, weight to match) spent by a transaction that pays
        // a fee of 1000 at a non-zero fee multiplier: the refusal for the fee must come without the covenant having been run
        // (finding AG: covenants were run first)
        let m: u128 = m.parse().unwrap();
        let out = child::on_small_stack(move || {
            let r = guard(move || {
                let cov = Covenant::from_ops(&[OpCode::Loop(65535, 3), OpCode::Loop(65535, 2), OpCode::Loop(65535, 1), OpCode::Noop, OpCode::PushI(1u8.into())]);
                let w = world(NetID::Custom02, out(cov.hash(), 1_000_000, Denom::Mel), 0, m, Default::default());
                let s = w.genesis.clone().seal(None);
                let mut u = s.next_unsealed();
                let t = mktx(TxKind::Normal, vec![CoinID::zero_zero()], vec![out_t(1_000_000 - 1000, Denom::Mel)], 1000, vec![cov.to_bytes()], vec![]);
                let start = Instant::now();
                let r = u.apply_tx(&t);
                json!({"result": if r.is_ok() { "accepted" } else { "rejected" }, "secs": start.elapsed().as_secs_f64(), "weight": cov.weight().to_string()})
            });
            match r {
                Ok(v) => v,
                Err(p) => json!({"result": "panic", "panic_class": p.class(), "panic_msg": p.msg}),
            }
        });
        println!("{}", out);
        return;
    }
    let out = child::on_small_stack(move || {
        let r = guard(move || {
            let ops: Vec<OpCode> = if let Some(k) = which.strip_prefix("vnest-") {
                let k: u16 = k.parse().unwrap();
                vec![OpCode::VEmpty, OpCode::Loop(k, 2), OpCode::VEmpty, OpCode::VPush, OpCode::VLength]
            } else if let Some(rest) = which.strip_prefix("bdouble-") {
                // bdouble-<k>-<consumer>: a one-byte string doubled k times (2^k bytes, shared structure), then one consuming opcode
                let (k, consumer) = rest.split_once('-').expect("bdouble-<k>-<consumer>");
                let k: usize = k.parse().unwrap();
                let mut p = vec![OpCode::PushB(vec![0x61])];
                for _ in 0..k {
                    p.extend([OpCode::Dup, OpCode::BAppend]);
                }
                p.extend(crate::props::c11::byte_consumers().into_iter().find(|c| c.0 == consumer).expect("consumer").1);
                p
            } else {
                hostile_lock_covenants().into_iter().find(|c| c.0 == which).expect("unknown covenant").1
            };
            let cov = Covenant::from_ops(&ops);
            let w = world(NetID::Custom02, out(cov.hash(), 1_000_000, Denom::Mel), 0, 0, Default::default());
            let s = w.genesis.clone().seal(None);
            let mut u = s.next_unsealed();
            let t = mktx(TxKind::Normal, vec![CoinID::zero_zero()], vec![out_t(1_000_000, Denom::Mel)], 0, vec![cov.to_bytes()], vec![]);
            let base = child::mem_reset();
            let start = Instant::now();
            let r = u.apply_tx(&t);
            json!({"result": if r.is_ok() { "accepted" } else { "rejected" }, "secs": start.elapsed().as_secs_f64(), "peak_bytes": child::mem_peak().saturating_sub(base), "weight": cov.weight().to_string()})
        });
        match r {
            Ok(v) => v,
            Err(p) => json!({"result": "panic", "panic_class": p.class(), "panic_msg": p.msg}),
        }
    });
    println!("{}", out);
}

/// Restarts far into the chain, each in a fresh process on a 2 MiB stack.  Returns false when one of them did not come back.
/// (Heights stay where the inflator table - 16 bytes per block, by design - fits the children's 6 GiB address-space limit.)
fn restart_children(run: &Run, thorough: bool) -> bool {
    let heights: Vec<u64> = if thorough { vec![1_000, 10_000, 100_000, 2_000_000, 21_949_998, 128_949_998, 150_582_829, 170_000_000] } else { vec![10_000, 2_000_000, 128_949_998] };
    run.states_add(heights.len() as u64);
    let ok = std::sync::atomic::AtomicBool::new(true);
    heights.par_iter().for_each(|h| {
        run.transition();
        let c = format!("restart-at-{}", h);
        let out = child::run_child(&["stf".to_string(), c.clone()], if thorough { 120.0 } else { 40.0 }, 6 << 30);
        run.validated();
        let replay = json!({"restart_at_height": h, "calls": ["from_block", "next_unsealed", "seal(Some)", "apply_block", "next_unsealed", "seal(None)"]});
        match out {
            ChildOutcome::Done(v) => {
                if v["result"] == "panic" {
                    ok.store(false, std::sync::atomic::Ordering::SeqCst);
                    run.violation("C09", format!("restart-far-into-the-chain/{}", v["panic_class"].as_str().unwrap_or("?")), format!("a node restarted at height {} panicked in its first block: {}", h, v["panic_msg"].as_str().unwrap_or("")), replay);
                } else if v["result"] != "accepted" {
                    run.outcome("restart-far:own-block-rejected(reported under C06/C08)");
                } else {
                    run.outcome("restart-far:first-blocks-built");
                }
            }
            ChildOutcome::Timeout(s) => {
                ok.store(false, std::sync::atomic::Ordering::SeqCst);
                run.violation("C09", "restart-far-into-the-chain/no-termination".into(), format!("a node restarted at height {} did not finish its first two blocks in {:.0} s", h, s), replay)
            }
            ChildOutcome::Signal(sig, err) => {
                ok.store(false, std::sync::atomic::Ordering::SeqCst);
                run.violation("C09", format!("restart-far-into-the-chain/process-killed-signal-{}", sig), format!("a node restarted at height {} was killed in its first block (signal {}: {})", h, sig, err.lines().last().unwrap_or("")), replay)
            }
            ChildOutcome::Broken(e) => run.machinery_failure(&format!("child {}: {}", c, e)),
        }
    });
    ok.load(std::sync::atomic::Ordering::SeqCst)
}

fn child_cases(run: &Run, thorough: bool) {
    let mut cases: Vec<String> = hostile_lock_covenants().iter().map(|c| c.0.to_string()).collect();
    for k in if thorough { vec![100u32, 1000, 10_000, 30_000, 65_535] } else { vec![1000, 65_535] } {
        cases.push(format!("vnest-{}", k));
    }
    // exponentially large byte strings (cheap to build: shared halves) handed to every consuming opcode, up to just below 2^64 bytes
    for k in if thorough { vec![30usize, 40, 50, 58, 62, 63] } else { vec![40usize, 63] } {
        for (c, _) in crate::props::c11::byte_consumers() {
            cases.push(format!("bdouble-{}-{}", k, c));
        }
    }
    for m in [100u128, 65536] {
        cases.push(format!("underpaid-heavy-covenant-m{}", m));
    }
    run.states_add(cases.len() as u64);
    let pool = rayon::ThreadPoolBuilder::new().num_threads(6).build().unwrap();
    pool.install(|| {
        cases.par_iter().for_each(|c| {
            run.transition();
            let out = child::run_child(&["stf".to_string(), c.clone()], if thorough { 60.0 } else { 20.0 }, 6 << 30);
            run.validated();
            let replay = json!({"spend_of_coin_locked_by": c});
            match out {
                ChildOutcome::Done(v) => {
                    if v["result"] == "panic" {
                        run.violation("C09", format!("covenant-execution/{}/{}", if c.starts_with("bdouble-") { c.splitn(3, '-').nth(2).map(|x| format!("bdouble-{}", x)).unwrap_or(c.clone()) } else { c.clone() }, v["panic_class"].as_str().unwrap_or("?")), format!("spending a coin locked by the covenant '{}' panicked: {}", c, v["panic_msg"].as_str().unwrap_or("")), replay);
                    } else {
                        run.outcome(&format!("hostile-covenant:{}", v["result"].as_str().unwrap_or("?")));
                    }
                }
                ChildOutcome::Timeout(s) => run.violation("C09", format!("covenant-execution/{}/no-termination", c), format!("spending a coin locked by '{}' did not finish in {:.0} s", c, s), replay),
                ChildOutcome::Signal(sig, err) => run.violation("C09", format!("covenant-execution/{}/process-killed-signal-{}", c, sig), format!("spending a coin locked by '{}' killed the process (signal {}: {})", c, sig, err), replay),
                ChildOutcome::Broken(e) => run.machinery_failure(&format!("child {}: {}", c, e)),
            }
        });
    });
}

/// One transaction spending coins whose values add up to 2^128 and more (the output side of this was finding J; the input side is
/// only reachable once faucets have put more than 2^128 units into circulation - the genesis supply is far below 2^127, every
/// single coin is within the maximum coin value): 255, 256 and 300 coins of 2^120 MEL from faucets, spent by one Normal
/// transaction with one small output, with one maximal output, and in another denomination.
fn inputs_adding_up_beyond_128_bits(run: &Run) {
    let w = world_mel(NetID::Custom02, 1_000_000, 0);
    for denom in [Denom::Mel, Denom::Sym] {
        let set_up = guard(|| {
            let mut u = w.genesis.clone().seal(None).next_unsealed();
            let mut ids = vec![];
            for i in 0..300u32 {
                let f = tx_t(TxKind::Faucet, vec![], vec![out_t(1 << 120, denom)], 0, format!("max-coin-{}", i).into_bytes());
                u.apply_tx(&f).ok()?;
                ids.push(f.output_coinid(0));
            }
            Some((u.seal(None).next_unsealed(), ids))
        });
        let (u, ids) = match set_up {
            Ok(Some(x)) => x,
            Ok(None) => {
                run.outcome("huge-inputs:set-up-not-accepted");
                continue;
            }
            Err(p) => {
                run.violation("C09", format!("apply_tx_batch/faucets-of-maximal-coins/{}", p.class()), format!("300 faucets of 2^120 {:?}: {}", denom, p.msg), json!({"setup": "300 faucets of 2^120"}));
                continue;
            }
        };
        for n in [255usize, 256, 300] {
            for (oname, outs) in [("one small output", vec![out_t(12345, denom)]), ("one maximal output", vec![out_t(1 << 120, denom)])] {
                let mut ins: Vec<CoinID> = ids[..n].to_vec();
                let mut outs = outs;
                if denom != Denom::Mel {
                    // a transaction needs no MEL input at fee 0; keep the shape minimal
                    outs.truncate(1);
                }
                ins.truncate(n);
                let tx = tx_t(TxKind::Normal, ins, outs, 0, vec![]);
                let label = format!("{} coins of 2^120 {} spent by one transaction with {}", n, crate::alphabet::dn(denom), oname);
                let replay = json!({"setup": format!("genesis[Custom02] ; 300 faucets of 2^120 {:?} ; seal ; open", denom), "hostile": label, "inputs": n});
                run.transition();
                let mut st = u.clone();
                let r = watched(&format!("apply_tx:{}", label), &replay, || guard(|| st.apply_tx(&tx)));
                run.validated();
                match r {
                    Err(p) => {
                        run.outcome("huge-inputs:panic");
                        run.violation("C09", format!("apply_tx_batch/inputs-adding-up-beyond-128-bits/{}", p.class().rsplitn(2, '/').last().unwrap_or("panic")), format!("apply_tx([{}]) panicked: {}", label, p.msg), replay);
                    }
                    Ok(Err(_)) => run.outcome("huge-inputs:rejected"),
                    Ok(Ok(())) => run.outcome("huge-inputs:accepted"),
                }
            }
        }
    }
}

/// Fees adding up beyond 128 bits: faucets (which mint their own fee) paying 2^120 each, as tips (fee multiplier 0) and as base
/// fees (a multiplier that makes the minimum about 2^120); every application, every seal (with and without a proposer action)
/// and the blocks after must return.  Finding AF: the tallies saturated silently and the sums at sealing then overflowed.
fn fees_adding_up_beyond_128_bits(run: &Run) {
    // (the multiplier of the second world makes the minimum fee of these faucets just under 2^120)
    let probe_weight = crate::refstf::ref_tx_weight(&tx_t(TxKind::Faucet, vec![], vec![out_t(1, Denom::Mel)], 1 << 120, vec![0x20; 200]));
    for (name, mult, data_len) in [("tips", 0u128, 0usize), ("base-fees", ((1u128 << 120) / probe_weight) << 16, 200)] {
        let w = world_mel(NetID::Custom02, 1_000_000, mult);
        let mut u = match guard(|| w.genesis.clone().seal(None).next_unsealed()) {
            Ok(u) => u,
            Err(_) => continue,
        };
        let mut accepted = 0u32;
        let mut stuck = false;
        for block in 0..2u32 {
            for i in 0..300u32 {
                let f = tx_t(TxKind::Faucet, vec![], vec![out_t(1, Denom::Mel)], 1 << 120, {
                    let mut d = format!("fee-{}-{}-{}", name, block, i).into_bytes();
                    d.resize(d.len().max(data_len), 0x20);
                    d
                });
                let replay = json!({"setup": format!("genesis[Custom02] fee_multiplier={}", mult), "hostile": format!("faucet number {} paying a fee of 2^120 ({})", block * 300 + i + 1, name)});
                run.transition();
                match watched(&format!("apply_tx:fee-{}", name), &replay, || guard(|| u.apply_tx(&f))) {
                    Err(p) => {
                        run.violation("C09", format!("apply_tx_batch/fees-adding-up-beyond-128-bits/{}/{}", name, p.class().rsplitn(2, '/').last().unwrap_or("panic")), format!("faucet {} with fee 2^120: {}", block * 300 + i + 1, p.msg), replay);
                        stuck = true;
                        break;
                    }
                    Ok(Ok(())) => accepted += 1,
                    Ok(Err(_)) => run.outcome("huge-fees:rejected"),
                }
                run.validated();
            }
            if stuck {
                break;
            }
            // seal under both kinds of action, go on from the one without
            let replay = json!({"setup": format!("genesis[Custom02] fee_multiplier={}", mult), "hostile": format!("{} faucets paying 2^120 each ({}), block {}", accepted, name, block + 1)});
            for act in [Some(ProposerAction { fee_multiplier_delta: 0, reward_dest: addr_true() }), None] {
                run.transition();
                match watched(&format!("seal:fee-{}", name), &replay, || guard(|| u.clone().seal(act))) {
                    Err(p) => {
                        run.violation("C09", format!("seal/fees-adding-up-beyond-128-bits/{}/{}", name, p.class().rsplitn(2, '/').last().unwrap_or("panic")), format!("seal({}) after {} faucets paying 2^120 each: {}", if act.is_some() { "Some" } else { "None" }, accepted, p.msg), replay.clone());
                        stuck = true;
                    }
                    Ok(s) => {
                        run.outcome("huge-fees:sealed");
                        if act.is_none() {
                            u = s.next_unsealed();
                        }
                    }
                }
                run.validated();
            }
            if stuck {
                break;
            }
        }
        run.outcome(&format!("huge-fees:{}:accepted={}", name, accepted));
    }
}

/// Several degenerate or boundary pool requests against one pool in the same block (each harmless alone).
fn pool_request_combinations(run: &Run, deltas: &[i8]) {
    let (_w, rootn) = root(NetID::Custom02, 0, true);
    let scratch = Run::new("scratch", "quick");
    let eng = Engine::new(&scratch);
    let open = match eng.step(&rootn, &Action::Open) {
        StepOut::Next(x) => x,
        _ => return,
    };
    let ms = PoolKey::new(Denom::Mel, Denom::Sym);
    let liq = ms.liq_token_denom();
    // a faucet hands out liquidity tokens of the built-in MEL/SYM pool (1e9 recorded) and MEL carriers for the requests
    // (a zero-valued withdrawal joined after the mutation scan: `value > 0` -> `>= 0` in the request filter survived)
    let amounts: [u128; 6] = [600_000_000, 600_000_000, 1_000_000_001, 1, 400_000_000, 0];
    let mut outs: Vec<CoinData> = amounts.iter().map(|a| out_t(*a, liq)).collect();
    for i in 0..10u128 {
        outs.push(out_t(1000 + i, Denom::Mel));
    }
    for i in 0..4u128 {
        outs.push(out_t(2000 + i, Denom::Sym));
    }
    let f = tx_t(TxKind::Faucet, vec![], outs, 0, b"liq-faucet".to_vec());
    let base = match eng.step(&open, &Action::Batch { label: "faucet(liquidity tokens of MEL/SYM)".into(), txs: vec![f.clone()], expect_ok: true }) {
        StepOut::Next(x) => x,
        _ => return,
    };
    let u = match &base.real {
        Real::Open(u) => u.clone(),
        _ => return,
    };
    let n_liq = amounts.len() as u8;
    let mut reqs: Vec<(String, Transaction)> = vec![];
    for (i, a) in amounts.iter().enumerate() {
        reqs.push((format!("withdraw {}", a), tx_t(TxKind::LiqWithdraw, vec![f.output_coinid(i as u8), f.output_coinid(n_liq + i as u8)], vec![out_t(*a, liq)], 1000 + i as u128, ms.to_bytes().to_vec())));
    }
    // swaps on both sides with zero, unit and full values
    for (j, (side, val)) in [(Denom::Mel, 0u128), (Denom::Mel, 1), (Denom::Sym, 0), (Denom::Sym, 2000)].iter().enumerate() {
        let (ins, outs) = if *side == Denom::Mel {
            let id = f.output_coinid(n_liq + 6 + j as u8);
            let v = 1000 + 6 + j as u128;
            (vec![id], vec![out_t(*val, Denom::Mel), out_t(v - val, Denom::Mel)])
        } else {
            let sid = f.output_coinid(n_liq + 10 + (j as u8 - 2));
            let sv = 2000 + (j as u128 - 2);
            let mid = f.output_coinid(n_liq + 6 + j as u8);
            let mv = 1000 + 6 + j as u128;
            (vec![sid, mid], vec![out_t(*val, Denom::Sym), out_t(sv - val.min(&sv), Denom::Sym), out_t(mv, Denom::Mel)])
        };
        reqs.push((format!("swap {} of {:?}", val, side), tx_t(TxKind::Swap, ins, outs, 0, ms.to_bytes().to_vec())));
    }
    run_request_subsets(run, deltas, base.replay_json(None), u, reqs);
}

/// Every subset of two or three of the given requests in one block: applied as a batch, sealed under every action, and the next
/// block sealed on top.
fn run_request_subsets(run: &Run, deltas: &[i8], base_replay: serde_json::Value, u: St, reqs: Vec<(String, Transaction)>) {
    // every subset of up to 3 requests in one block
    let n = reqs.len();
    let mut subsets: Vec<Vec<usize>> = vec![];
    for mask in 1u32..(1 << n) {
        if mask.count_ones() >= 2 && mask.count_ones() <= 3 {
            subsets.push((0..n).filter(|i| mask & (1 << i) != 0).collect());
        }
    }
    run.states_add(subsets.len() as u64);
    subsets.par_iter().for_each(|idx| {
        let label = idx.iter().map(|i| reqs[*i].0.clone()).collect::<Vec<_>>().join(" + ");
        let batch: Vec<Transaction> = idx.iter().map(|i| reqs[*i].1.clone()).collect();
        let replay = json!({"base": base_replay.clone(), "requests_in_one_block": label, "txs": batch.iter().map(tx_json).collect::<Vec<_>>()});
        run.transition();
        let mut st = u.clone();
        match watched(&format!("apply_tx_batch:{}", label), &replay, || guard(|| st.apply_tx_batch(&batch))) {
            Err(p) => run.violation("C09", format!("apply_tx_batch/pool-request-combination/{}", p.class()), format!("[{}]: {}", label, p.msg), replay.clone()),
            Ok(Err(_)) => run.outcome("combo:rejected"),
            Ok(Ok(())) => {
                run.validated();
                let mut acts: Vec<Option<ProposerAction>> = vec![None];
                acts.extend(deltas.iter().map(|d| Some(ProposerAction { fee_multiplier_delta: *d, reward_dest: addr_true() })));
                for act in acts {
                    run.transition();
                    match watched(&format!("seal:{}", label), &replay, || guard(|| st.clone().seal(act))) {
                        Err(p) => {
                            let kinds = if label.contains("withdraw") && label.contains("swap") { "withdraw+swap" } else if label.contains("withdraw") { "withdrawals" } else { "swaps" };
                            run.violation("C09", format!("seal/pool-request-combination/{}/{}", kinds, p.class()), format!("seal after [{}] in one block panicked: {}", label, p.msg), replay.clone());
                        }
                        Ok(s) => {
                            run.outcome("combo:sealed");
                            if let Err(p) = guard(|| s.next_unsealed().seal(None).header()) {
                                run.violation("C09", format!("next-block/pool-request-combination/{}", p.class()), format!("the block after [{}] panicked: {}", label, p.msg), replay.clone());
                            }
                        }
                    }
                }
            }
        }
    });
}

/// The same against a *user-created* pool (MEL against a custom token) whose whole liquidity N sits in one wallet coin, next to
/// liquidity tokens the pool never issued (faucet-minted: 1, N, N/2 + 1, N - 1): withdrawals that are each within N and
/// together beyond it, with and without the genuine coin, and swaps of zero, unit and larger amounts on both sides
/// (seed C09-r11-1: the bound on withdrawals moved from the block's total to the single request).
fn user_pool_request_combinations(run: &Run, deltas: &[i8]) {
    let w = world_mel(NetID::Custom02, 1_000_000, 0);
    let xd = Denom::Custom(melstructs::TxHash(tmelcrypt::hash_single(b"c09-user-pool-token")));
    let k = PoolKey::new(Denom::Mel, xd);
    let liq = k.liq_token_denom();
    let side_value = |d: Denom| if d == Denom::Mel { 1_000_000u128 } else { 2_000_000 };
    let res = guard(|| {
        let mut u1 = w.genesis.clone().seal(None).next_unsealed();
        let mut outs = vec![out_t(side_value(k.left()), k.left()), out_t(side_value(k.right()), k.right())];
        for i in 0..12u128 {
            outs.push(out_t(1000 + i, Denom::Mel));
        }
        outs.push(out_t(5000, xd));
        outs.push(out_t(5001, xd));
        let f1 = tx_t(TxKind::Faucet, vec![], outs, 0, b"user-pool-funds".to_vec());
        u1.apply_tx(&f1).ok()?;
        let s1 = u1.seal(None);
        let mut u2 = s1.next_unsealed();
        let dep = tx_t(TxKind::LiqDeposit, vec![f1.output_coinid(0), f1.output_coinid(1)], vec![out_t(side_value(k.left()), k.left()), out_t(side_value(k.right()), k.right())], 0, k.to_bytes().to_vec());
        u2.apply_tx(&dep).ok()?;
        let s2 = u2.seal(None);
        let n = s2.coin(dep.output_coinid(0)).filter(|c| c.coin_data.denom == liq)?.coin_data.value.0;
        let mut u3 = s2.next_unsealed();
        let forged: Vec<u128> = vec![1, n, n / 2 + 1, n - 1, 0];
        let f2 = tx_t(TxKind::Faucet, vec![], forged.iter().map(|a| out_t(*a, liq)).collect(), 0, b"user-pool-forged-liq".to_vec());
        u3.apply_tx(&f2).ok()?;
        Some((u3, f1, dep, f2, n, forged))
    });
    let (u3, f1, dep, f2, n, forged) = match res {
        Ok(Some(x)) => x,
        Ok(None) => {
            run.outcome("user-pool-combinations:set-up-not-accepted");
            return;
        }
        Err(p) => {
            run.violation("C09", format!("honest-setup/user-pool/{}", p.class()), format!("creating a user pool panicked: {}", p.msg), json!({"setup": "faucet ; seal ; deposit ; seal ; faucet"}));
            return;
        }
    };
    let carrier = |i: u8| (f1.output_coinid(2 + i), 1000 + i as u128);
    let mut reqs: Vec<(String, Transaction)> = vec![];
    reqs.push((format!("withdraw the genuine {}", n), tx_t(TxKind::LiqWithdraw, vec![dep.output_coinid(0), carrier(0).0], vec![out_t(n, liq)], carrier(0).1, k.to_bytes().to_vec())));
    for (i, a) in forged.iter().enumerate() {
        let c = carrier(1 + i as u8);
        reqs.push((format!("withdraw {} never issued", a), tx_t(TxKind::LiqWithdraw, vec![f2.output_coinid(i as u8), c.0], vec![out_t(*a, liq)], c.1, k.to_bytes().to_vec())));
    }
    for (j, val) in [0u128, 1, 500].iter().enumerate() {
        let c = carrier(6 + j as u8);
        reqs.push((format!("swap {} of MEL", val), tx_t(TxKind::Swap, vec![c.0], vec![out_t(*val, Denom::Mel), out_t(c.1 - val, Denom::Mel)], 0, k.to_bytes().to_vec())));
    }
    for (j, val) in [0u128, 5001].iter().enumerate() {
        let c = carrier(9 + j as u8);
        let xv = 5000 + j as u128;
        reqs.push((format!("swap {} of the token", val), tx_t(TxKind::Swap, vec![f1.output_coinid(14 + j as u8), c.0], vec![out_t(*val, xd), out_t(xv - val.min(&xv), xd), out_t(c.1, Denom::Mel)], 0, k.to_bytes().to_vec())));
    }
    run.set("user_pool_request_combinations", json!({"pool": "MEL / custom token, created by one deposit", "liquidity_issued": n.to_string(), "requests": reqs.iter().map(|r| r.0.clone()).collect::<Vec<_>>(), "subsets": "all of size 2 and 3"}));
    run_request_subsets(run, deltas, json!({"setup": "genesis[Custom02] ; faucet(funds) ; seal ; deposit[MEL/token] ; seal ; faucet(liquidity tokens never issued: 1, N, N/2+1, N-1)"}), u3, reqs);
}

fn confirm_garbage(run: &Run) {
    let mut stakes = BTreeMap::new();
    stakes.insert(melstructs::TxHash(HashVal([1; 32])), melstructs::StakeDoc { pubkey: key(1).0, e_start: 0, e_post_end: 3, syms_staked: CoinValue(u128::MAX / 2) });
    stakes.insert(melstructs::TxHash(HashVal([2; 32])), melstructs::StakeDoc { pubkey: key(2).0, e_start: 0, e_post_end: 3, syms_staked: CoinValue(u128::MAX / 2) });
    let w = world(NetID::Custom02, out_t(1, Denom::Mel), 0, 0, stakes);
    let s = w.genesis.clone().seal(None);
    let proofs: Vec<(&str, ConsensusProof)> = vec![
        ("empty", BTreeMap::new()),
        ("garbage-sig", [(key(1).0, Bytes::from(vec![9u8; 64]))].into_iter().collect()),
        ("empty-sig", [(key(1).0, Bytes::new())].into_iter().collect()),
        ("oversized-sig", [(key(1).0, Bytes::from(vec![9u8; 100_000]))].into_iter().collect()),
        ("both-valid-huge-stakes", [(key(1).0, Bytes::from(key(1).1.sign(&s.header().hash().0))), (key(2).0, Bytes::from(key(2).1.sign(&s.header().hash().0)))].into_iter().collect()),
        ("foreign-keys", (10..60u8).map(|i| (key(i).0, Bytes::from(key(i).1.sign(&s.header().hash().0)))).collect()),
    ];
    for (name, p) in proofs {
        run.transition();
        let r = guard(|| s.confirm(p.clone()).is_some());
        run.validated();
        match r {
            Err(e) => run.violation("C09", format!("confirm/{}/{}", name, e.class()), format!("confirm({}) panicked: {}", name, e.msg), json!({"proof": name})),
            Ok(_) => run.outcome("confirm:returned"),
        }
    }
}

/// Supplement, *sampling* (labelled so in the evidence): a node validates for several callers at once (mempool and block, two
/// chains).  One thread applies batches of faucets that each list a covenant nobody has seen before (1,500 distinct covenants;
/// thorough 6,000) while a second thread keeps applying single transactions to another chain and a third one seals blocks;
/// nothing may panic and every one of these valid transactions is accepted.  The interleaving is free-running.
fn concurrent_callers_sampling(run: &Run, thorough: bool) {
    use std::sync::atomic::{AtomicBool, AtomicU64, Ordering};
    let per_batch = 300usize;
    let batches = if thorough { 20 } else { 5 };
    let singles = if thorough { 6000usize } else { 1500 };
    let done = AtomicBool::new(false);
    let applied = AtomicU64::new(0);
    let problems: parking_lot::Mutex<Vec<(String, String)>> = parking_lot::Mutex::new(vec![]);
    let w_a = world_mel(NetID::Custom02, 1_000_000, 0);
    let w_b = world_mel(NetID::Custom03, 1_000_000, 0);
    let w_c = world_mel(NetID::Custom04, 1_000_000, 0);
    let note = |who: &str, r: Result<Result<(), melstf::StateError>, crate::guard::PanicInfo>| match r {
        Ok(Ok(())) => {
            applied.fetch_add(1, Ordering::Relaxed);
        }
        Ok(Err(e)) => problems.lock().push((format!("{}/rejected", who), e.to_string())),
        Err(p) => problems.lock().push((format!("{}/{}", who, p.class()), p.msg)),
    };
    std::thread::scope(|s| {
        s.spawn(|| {
            let mut st = w_a.genesis.clone().seal(None).next_unsealed();
            for b in 0..batches {
                let txs: Vec<Transaction> = (0..per_batch)
                    .map(|i| {
                        let k = (b * per_batch + i) as u64;
                        mktx(TxKind::Faucet, vec![], vec![out_t(1, Denom::Mel)], 0, vec![Covenant::from_ops(&[OpCode::PushI(k.into()), OpCode::PushI(1u8.into())]).to_bytes()], k.to_be_bytes().to_vec())
                    })
                    .collect();
                note("batches-of-new-covenants", guard(|| st.apply_tx_batch(&txs)));
            }
            // ... and then one at a time (a mempool): every call is a batch of its own, so whatever a batch does when it starts
            // (trimming a table that has grown) now happens a thousand times while the other callers are in mid-flight
            for i in 0..singles {
                let k = (batches * per_batch + i) as u64;
                let t = mktx(TxKind::Faucet, vec![], vec![out_t(1, Denom::Mel)], 0, vec![Covenant::from_ops(&[OpCode::PushI(k.into()), OpCode::PushI(1u8.into())]).to_bytes()], k.to_be_bytes().to_vec());
                note("single-faucets-with-new-covenants", guard(|| st.apply_tx(&t)));
            }
            // ... and a block's worth of transactions that each *spend* a coin locked by a covenant of its own (so every one of
            // them is parsed, weighed and run): the batch is long enough for the other callers to pass by in the middle of it
            let cov = |k: u64| Covenant::from_ops(&[OpCode::PushI((7_000_000 + k).into()), OpCode::PushI(1u8.into())]);
            let funds: Vec<Transaction> = (0..5u64).map(|f| mktx(TxKind::Faucet, vec![], (0..250u64).map(|i| out(cov(f * 250 + i).hash(), 10, Denom::Mel)).collect(), 0, vec![], vec![0xfd, f as u8])).collect();
            let mut fs = w_a.genesis.clone().seal(None).next_unsealed();
            note("funding-coins-under-covenants-of-their-own", guard(|| fs.apply_tx_batch(&funds)));
            if let Ok(sealed) = guard(|| fs.seal(None)) {
                let spends: Vec<Transaction> = (0..1250u64).map(|k| mktx(TxKind::Normal, vec![funds[(k / 250) as usize].output_coinid((k % 250) as u8)], vec![out_t(10, Denom::Mel)], 0, vec![cov(k).to_bytes()], vec![])).collect();
                for _ in 0..if thorough { 10 } else { 3 } {
                    let mut st2 = sealed.next_unsealed();
                    note("a-block-of-spends-under-covenants-of-their-own", guard(|| st2.apply_tx_batch(&spends)));
                }
            }
            done.store(true, Ordering::Release);
        });
        s.spawn(|| {
            let base = w_b.genesis.clone().seal(None).next_unsealed();
            let mut k = 0u64;
            while !done.load(Ordering::Acquire) {
                let mut st = base.clone();
                let t = mktx(TxKind::Normal, vec![CoinID::zero_zero()], vec![out_t(1_000_000, Denom::Mel)], 0, vec![cov_true().to_bytes(), Covenant::from_ops(&[OpCode::PushI((1_000_000 + k).into())]).to_bytes()], k.to_be_bytes().to_vec());
                note("single-transactions-on-another-chain", guard(|| st.apply_tx(&t)));
                k += 1;
            }
        });
        s.spawn(|| {
            let mut sealed = w_c.genesis.clone().seal(None);
            while !done.load(Ordering::Acquire) {
                match guard(|| sealed.next_unsealed().seal(Some(action_dest(2)))) {
                    Ok(n) => sealed = n,
                    Err(p) => {
                        problems.lock().push((format!("sealing-on-a-third-chain/{}", p.class()), p.msg));
                        break;
                    }
                }
            }
        });
    });
    let n = applied.load(Ordering::Relaxed);
    run.transitions_add(n);
    run.validated_add(n);
    let problems = problems.into_inner();
    run.set("concurrent_callers", json!({"kind": "sampling of schedules (free-running threads), not exhaustive", "distinct_covenants_in_batches": per_batch * batches, "single_applications_with_new_covenants": singles, "applications_accepted": n, "problems": problems.len()}));
    run.outcome(if problems.is_empty() { "concurrent-callers:nothing-panicked" } else { "concurrent-callers:problems" });
    if let Some((class, msg)) = problems.first() {
        run.violation("C09", format!("concurrent-callers/{}", class), format!("while one thread applied batches of faucets listing {} covenants never seen before, another applied single transactions to a second chain and a third sealed blocks on a third chain: {} ({} problem(s) in all)", per_batch * batches, msg, problems.len()), json!({"threads": 3, "distinct_covenants": per_batch * batches}));
    }
}

pub fn run(run: &'static Run) {
    let thorough = run.thorough();
    start_watchdog(run, Duration::from_secs(if thorough { 60 } else { 30 }));
    // the honest set-up sequence itself (genesis -> faucet -> seal) must not panic on any network
    for net in [NetID::Custom02, NetID::Custom08, NetID::Testnet, NetID::Mainnet] {
        run.transition();
        if let Err(p) = try_root(net, 0, net != NetID::Mainnet) {
            run.violation("C09", format!("honest-setup/{:?}/{}", net, p.class()), format!("genesis -> set-up faucet -> seal(None) on {:?} panicked: {}", net, p.msg), json!({"network": format!("{:?}", net)}));
        }
        run.validated();
    }
    if run.violation_count() > 0 {
        run.cap_hit("the honest set-up sequence panics; the hostile alphabet cannot be driven from it");
        return;
    }
    // restarts far into the chain come first, in child processes: what kills a process there would kill this one in the
    // scenarios at great heights below, and then there would be no report at all
    if !restart_children(run, thorough) {
        run.cap_hit("a node restarted far into the chain does not come back (reported above); the in-process exploration, which visits such heights too, is not run");
        return;
    }
    concurrent_callers_sampling(run, thorough);
    let deltas: Vec<i8> = if thorough { vec![-128, -127, -1, 0, 1, 127] } else { vec![-128, 127] };
    let mut bases = base_states(thorough);
    let g = genesis_open_node();
    bases.push((g.clone(), g));
    run.set("base_states", json!(bases.iter().map(|b| b.1.path_str()).collect::<Vec<_>>()));
    let mut total = 0u64;
    for (sealed, open) in &bases {
        let txs = hostile_txs(open, thorough);
        total += txs.len() as u64;
        run.states_add(txs.len() as u64);
        let neighbour = tx_alphabet(open, &AlphaCfg::base()).into_iter().find(|t| t.2 && t.0.starts_with("xfer")).map(|t| t.1);
        // the neighbour must not share inputs with the hostile transaction's first input where possible: use the second MEL coin
        let neighbour = coins_of(&open.model, Denom::Mel, 4).get(1).map(|c| tx_t(TxKind::Normal, vec![c.0], vec![out_t(c.1.coin_data.value.0, Denom::Mel)], 0, vec![0x4e])).or(neighbour);
        txs.par_iter().for_each(|(label, tx)| {
            drive(run, open, label, tx, neighbour.as_ref(), &deltas);
            if let Real::Sealed(p) = &sealed.real {
                drive_block(run, p, &sealed.path_str(), label, tx);
            }
        });
        // the zero-coin follow-up: spend a zero-valued MEL coin into 255 maximal outputs
        if let Real::Open(u) = &open.real {
            if let Some((_, zt)) = txs.iter().find(|t| t.0.starts_with("zero-coin")) {
                let mut st = u.clone();
                if guard(|| st.apply_tx(zt)).map(|r| r.is_ok()).unwrap_or(false) {
                    let outs: Vec<CoinData> = (0..255).map(|_| out_t(1 << 120, Denom::Mel)).collect();
                    let wrap = tx_t(TxKind::Normal, vec![zt.output_coinid(0)], outs, 1 << 120, vec![]);
                    let n2 = Node { real: Real::Open(st), ..open.clone() };
                    drive(run, &n2, "spend zero-valued coin into 255 x 2^120 + fee 2^120 (sums to 2^128)", &wrap, None, &deltas);
                }
            }
        }
    }
    run.set("hostile_transactions", json!(total));
    inputs_adding_up_beyond_128_bits(run);
    fees_adding_up_beyond_128_bits(run);
    pool_request_combinations(run, &deltas);
    user_pool_request_combinations(run, &deltas);
    // every transition of the state-graph scenarios is a totality check as well (the engine tags panics with C09): run the
    // liquidity scenarios of C16 (incl. the testnet history that creates and empties ERG/SYM before it becomes built-in) and
    // the request / spelling scenarios of C15 here, so that a panic on such a history is reported by this check
    // far heights: the halving count reaches the width of the shifted integer at block 128,950,000
    {
        let mut cfg = AlphaCfg::base();
        cfg.per_denom = 1;
        cfg.adversarial = false;
        cfg.pairs = false;
        cfg.faucets = false;
        cfg.mints = false;
        cfg.splits = false;
        cfg.burns = false;
        cfg.max_txs_per_block = 1;
        cfg.seal_actions = vec![None, Some(action_dest(3))];
        for (name, h) in [("custom02-far-height-21950000", 21_949_998u64), ("custom02-far-height-128950000", 128_949_998), ("custom02-far-height-150582831", 150_582_829)] {
            let mut s = sc(name, NetID::Custom02, 0, cfg.clone(), 5);
            s.pre = vec![Action::Jump(h)];
            let st = run_scenario(run, &s, 100_000);
            run.set(&format!("engine_scenario:{}", s.name), json!({"depth_bound_completed": st.depth_completed, "unique_states": st.states, "transitions": st.transitions}));
        }
    }
    // real-proof mints far into the chain, where the inflator has grown by more than a hundred bits
    // (the difficulty-20 proof takes its time: thorough tier; findings X and Y sat at 150,582,831 and 149,000,002)
    for (h, d) in if thorough { vec![(129_000_000u64, 14u32), (149_000_000, 20), (170_000_000, 14)] } else { vec![(129_000_000u64, 14u32)] } {
        crate::props::c18::run_world_at(run, NetID::Custom02, Some(h), &[1], &[(d, true)], false);
    }
    // honest histories across the activation of the coin counts (testnet 500, mainnet 830000): spending an address empty afterwards
    for mut sc in crate::props::c20::scenarios(false).into_iter().filter(|s| s.name == "testnet-activation" || s.name == "mainnet-activation-830000") {
        sc.depth = 5;
        let st = run_scenario(run, &sc, 200_000);
        run.set(&format!("engine_scenario:{}", sc.name), json!({"depth_bound_completed": st.depth_completed, "unique_states": st.states, "transitions": st.transitions}));
    }
    for sc in crate::props::c16::scenarios(false).into_iter().chain(crate::props::c15::scenarios(false).into_iter().take(2)) {
        let st = run_scenario(run, &sc, 400_000);
        run.set(&format!("engine_scenario:{}", sc.name), json!({"depth_bound_completed": st.depth_completed, "unique_states": st.states, "transitions": st.transitions}));
    }
    // reserves, deposits and swaps beyond 64 bits (products beyond 128 bits in the peg and in the pro-rata shares)
    // hundreds of requests of 2^120 against one pool in one block (swaps, deposits, withdrawals of tokens never issued: totals of
    // 255 x 2^120, exactly 2^128 and beyond) - the engine tags a panic at their seal with this property
    crate::props::c01::many_huge_requests(run, false);
    crate::props::c15::huge_amounts(run, false);
    crate::props::c16::huge_liquidity(run, false);
    crate::props::c16::lopsided_huge_pool(run);
    child_cases(run, thorough);
    confirm_garbage(run);
    run.sample(json!({"hostile": "swap[MEL/SYM:canonical] 0 of Mel", "calls": ["apply_tx_batch alone / before / after a normal transfer", "seal(None)", "seal(Some(-128))", "seal(Some(127))", "next block", "apply_block"], "oracle": "every call returns (Ok or Err) without panic, overflow, abort or exceeding the watchdog"}));
    run.assume("state precondition of the statement: no denomination's total supply exceeds 2^127 in any base state");
    run.assume("a call that exceeds the watchdog (30 s quick / 60 s thorough, for calls that normally take microseconds) is reported as non-termination and ends the run");
    let _ = Address::coin_destroy();
}
