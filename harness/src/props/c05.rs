//! C05 — fees: minimum fee enforced, fee pool / tips / proposer reward accounted exactly.
//! E3 grid over transaction shapes x fees around the threshold x fee multipliers, then E1
//! histories with and without proposer actions (oracles in stf.rs: fee-accounting, proposer-reward-coin,
//! fee-pool-after-reward).
use crate::alphabet::{action_dest, AlphaCfg};
use crate::guard::guard;
use crate::props::e1::*;
use crate::refstf::{ref_min_fee, ref_tx_weight};
use crate::report::Run;
use crate::world::*;
use bytes::Bytes;
use melstructs::{CoinData, CoinID, Denom, NetID, Transaction, TxKind};
use melvm::{opcode::OpCode, Covenant};
use rayon::prelude::*;
use serde_json::json;

fn extra_covenants() -> Vec<(&'static str, Option<Bytes>)> {
    vec![
        ("none", None),
        ("undecodable(w=0)", Some(Bytes::from_static(&[0xf2, 0x21]))),
        ("noop(w=1)", Some(Covenant::from_ops(&[OpCode::Noop]).to_bytes())),
        ("w=5", Some(Covenant::from_ops(&[OpCode::Noop, OpCode::Add]).to_bytes())),
        ("sigeok50(w=150)", Some(Covenant::from_ops(&[OpCode::SigEOk(50)]).to_bytes())),
        ("loop(w=10002)", Some(Covenant::from_ops(&[OpCode::Loop(10000, 1), OpCode::Noop]).to_bytes())),
        ("nested-loops(w~1e8)", Some(Covenant::from_ops(&[OpCode::Loop(10000, 2), OpCode::Loop(10000, 1), OpCode::Noop]).to_bytes())),
    ]
}

struct Fx {
    mult: u128,
    state: St,
    coins: Vec<(CoinID, u128)>,
}

fn fixture(mult: u128) -> Option<Fx> {
    let w = world_mel(NetID::Custom02, 1 << 100, mult);
    let g = w.genesis.clone().seal(None);
    let mut u = g.next_unsealed();
    // a faucet is exempt from the balance rule, so it can fund coins and pay its own fee at any multiplier
    let mut f = tx_t(TxKind::Faucet, vec![], vec![out_t(1 << 118, Denom::Mel), out_t((1 << 118) + 1, Denom::Mel), out_t((1 << 118) + 2, Denom::Mel)], 0, b"c05".to_vec());
    for _ in 0..4 {
        // comfortably above the minimum, so that the fixture does not depend on the threshold comparison under test
        f.fee = melstructs::CoinValue(ref_min_fee(&f, mult).saturating_add(if mult > 0 { 1000 } else { 0 }).min(1 << 120));
    }
    u.apply_tx(&f).ok()?;
    let s = u.seal(None);
    let coins = (0..3).map(|i| (f.output_coinid(i), f.outputs[i as usize].value.0)).collect();
    Some(Fx { mult, state: s.next_unsealed(), coins })
}

/// The genesis coin itself (2^120 MEL under the always-true covenant) at the given multiplier: nothing has to be accepted first.
fn fixture_genesis(mult: u128) -> Fx {
    let w = world_mel(NetID::Custom02, 1 << 120, mult);
    let g = w.genesis.clone().seal(None);
    Fx { mult, state: g.next_unsealed(), coins: vec![(CoinID::zero_zero(), 1 << 120)] }
}

fn build(fx: &Fx, n_in: usize, n_out: usize, extra: &Option<Bytes>, data_len: usize, fee: u128) -> Option<Transaction> {
    let ins: Vec<CoinID> = fx.coins.iter().take(n_in).map(|c| c.0).collect();
    let total: u128 = fx.coins.iter().take(n_in).map(|c| c.1).sum();
    if fee > total || fee > (1 << 120) {
        return None;
    }
    let rest = total - fee;
    let mut outs: Vec<CoinData> = vec![];
    if n_out == 0 {
        if rest != 0 {
            return None;
        }
    } else {
        // spread the remainder over n_out outputs, each within the maximum coin value
        let each = rest / n_out as u128;
        for i in 0..n_out {
            let v = if i == 0 { rest - each * (n_out as u128 - 1) } else { each };
            if v > (1 << 120) {
                return None;
            }
            outs.push(out_t(v, Denom::Mel));
        }
    }
    let mut covs = vec![cov_true().to_bytes()];
    if let Some(c) = extra {
        covs.push(c.clone());
    }
    Some(mktx(TxKind::Normal, ins, outs, fee, covs, vec![0x44; data_len]))
}

fn one_case(run: &Run, fx: &Fx, n_in: usize, n_out: usize, extra: &(&'static str, Option<Bytes>), data_len: usize, delta: i64) {
    // find the fixed point fee == min(tx with that fee), then move by delta
    let mut fee = 0u128;
    for _ in 0..6 {
        match build(fx, n_in, n_out, &extra.1, data_len, fee) {
            Some(t) => fee = ref_min_fee(&t, fx.mult),
            None => return,
        }
    }
    let fee = if delta < 0 { fee.checked_sub((-delta) as u128) } else { fee.checked_add(delta as u128) };
    let fee = match fee {
        Some(f) => f,
        None => return,
    };
    let tx = match build(fx, n_in, n_out, &extra.1, data_len, fee) {
        Some(t) => t,
        None => return,
    };
    run.transition();
    let min = ref_min_fee(&tx, fx.mult);
    let expect_ok = tx.fee.0 >= min;
    let mut st = fx.state.clone();
    let fp0 = st.verif_fee_pool().0;
    let tips0 = st.verif_tips().0;
    let got = guard(|| st.apply_tx(&tx));
    run.validated();
    let shape = format!("in={} out={} cov={} data={} delta={}", n_in, n_out, extra.0, data_len, delta);
    let replay = json!({"fee_multiplier": fx.mult.to_string(), "shape": shape, "fee": tx.fee.0.to_string(), "reference_min_fee": min.to_string(), "reference_weight": ref_tx_weight(&tx).to_string(), "tx": tx_json(&tx)});
    let mclass = if fx.mult == 0 { "m=0" } else if fx.mult <= 65536 { "m<=2^16" } else if fx.mult < (1 << 64) { "m<2^64" } else { "m>=2^64" };
    match got {
        Err(_) => run.outcome("panic(reported under C09)"),
        Ok(Ok(())) if !expect_ok => run.violation("C05", format!("underpaying-accepted/{}/cov={}", mclass, extra.0), format!("multiplier {} {}: fee {} < minimum {} but accepted", fx.mult, shape, tx.fee.0, min), replay),
        // (a rejection that is not about the fee - e.g. a covenant whose weight does not fit 128 bits makes the transaction
        // ill-formed - says nothing about the minimum)
        Ok(Err(e)) if expect_ok && !matches!(e, melstf::StateError::InsufficientFees(_)) => run.outcome(&format!("paying-rejected-for-another-reason:{}", e.to_string().split(':').next().unwrap_or("").chars().take(40).collect::<String>())),
        Ok(Err(e)) if expect_ok => run.violation("C05", format!("paying-rejected/{}/cov={}/delta={}", mclass, extra.0, delta.signum()), format!("multiplier {} {}: fee {} >= minimum {} but rejected: {}", fx.mult, shape, tx.fee.0, min, e), replay),
        Ok(Err(_)) => run.outcome("rejected-below-threshold"),
        Ok(Ok(())) => {
            run.outcome(if delta == 0 { "accepted-at-threshold" } else { "accepted-above-threshold" });
            let fp1 = st.verif_fee_pool().0;
            let tips1 = st.verif_tips().0;
            // the same body with a larger signature payload weighs more: paying only the smaller transaction's minimum is not enough
            // (the two transactions share their hash_nosigs, so anything memoised under that hash must not include the weight)
            if delta == 0 && fx.mult > 0 {
                let mut padded = tx.clone();
                padded.sigs = vec![vec![0x5au8; 3000].into()];
                let pmin = ref_min_fee(&padded, fx.mult);
                if pmin > padded.fee.0 {
                    run.transition();
                    let mut st2 = fx.state.clone();
                    let r = guard(|| st2.apply_tx(&padded));
                    run.validated();
                    if let Ok(Ok(())) = r {
                        run.violation(
                            "C05",
                            format!("underpaying-accepted/{}/same-body-larger-sigs", mclass),
                            format!("multiplier {} {}: after the unpadded transaction was validated, the same body with 3000 bytes of signatures paying {} (< its minimum {}) was accepted", fx.mult, shape, padded.fee.0, pmin),
                            json!({"fee_multiplier": fx.mult.to_string(), "shape": shape, "first": tx_json(&tx), "then": tx_json(&padded)}),
                        );
                    } else {
                        run.outcome("padded-sigs-underpaying:rejected");
                    }
                }
            }
            if fp1 != fp0.saturating_add(min) || tips1 != tips0.saturating_add(tx.fee.0 - min) {
                run.violation(
                    "C05",
                    format!("fee-split/{}/{}", mclass, if fp1 != fp0.saturating_add(min) { "fee_pool" } else { "tips" }),
                    format!("multiplier {} {}: fee {} min {}: fee pool {} -> {} tips {} -> {}", fx.mult, shape, tx.fee.0, min, fp0, fp1, tips0, tips1),
                    replay,
                );
            }
        }
    }
}

/// Covenant shapes whose weight depends on how loop bodies nest and overrun: [loop a n1; loop b n2; noop; hash 65535; pushi] for all n1, n2.
fn loop_shape_covenants() -> Vec<(String, Bytes)> {
    let mut v = vec![];
    for n1 in 0u16..=5 {
        for n2 in 0u16..=5 {
            let ops = vec![OpCode::Loop(3, n1), OpCode::Loop(5, n2), OpCode::Noop, OpCode::Hash(65535), OpCode::PushI(1u8.into())];
            v.push((format!("loop 3 {}; loop 5 {}; noop; hash 65535; pushi", n1, n2), Covenant::from_ops(&ops).to_bytes()));
        }
    }
    for n in [1u16, 2, 3, 4] {
        let ops = vec![OpCode::Loop(2, n), OpCode::Loop(2, n), OpCode::Loop(2, n), OpCode::Add, OpCode::Mul, OpCode::Hash(100)];
        v.push((format!("3 x loop 2 {}; add; mul; hash 100", n), Covenant::from_ops(&ops).to_bytes()));
    }
    v
}

/// One covenant per representative instruction (every opcode, boundary operands): the fee threshold sees every entry of the weight table.
fn single_opcode_covenants() -> Vec<(String, Bytes)> {
    use OpCode::*;
    let mut ops: Vec<OpCode> = vec![
        Noop, Add, Sub, Mul, Div, Rem, And, Or, Xor, Not, Eql, Lt, Gt, Shl, Shr, Store, Load, VRef, VAppend, VEmpty, VLength, VSlice, VSet, VPush, VCons, BRef, BAppend, BEmpty,
        BLength, BSlice, BSet, BPush, BCons, ItoB, BtoI, TypeQ, Dup, Jmp(1), Bez(1), Bnz(1), StoreImm(1), LoadImm(1), PushB(vec![1, 2, 3]), PushI(7u8.into()), PushIC(7u8.into()),
    ];
    for k in [0u8, 1, 127, 254, 255] {
        ops.push(Exp(k));
    }
    for n in [0u16, 1, 255, 256, 65534, 65535] {
        ops.push(Hash(n));
        ops.push(SigEOk(n));
    }
    let mut v: Vec<(String, Bytes)> = ops.into_iter().map(|o| (o.to_string(), Covenant::from_ops(&[o]).to_bytes())).collect();
    // the two standard signature covenants, and the same byte layouts with another operand in each operand-taking instruction
    // (same shape, other weight)
    for (name, std) in [("legacy-sig", cov_legacy(0)), ("new-sig", cov_new(1))] {
        let ops = std.to_ops();
        v.push((format!("standard {}", name), std.to_bytes()));
        // the standard covenant followed by further instructions (begins like it, weighs more)
        let mut longer = ops.clone();
        longer.extend([Loop(60000, 2), PushIC(1u8.into()), Hash(65535), And]);
        v.push((format!("standard {} followed by a heavy tail", name), Covenant::from_ops(&longer).to_bytes()));
        for i in 0..ops.len() {
            let alts: Vec<OpCode> = match &ops[i] {
                SigEOk(_) => [0u16, 31, 33, 65535].iter().map(|n| SigEOk(*n)).collect(),
                Hash(_) => [0u16, 31, 33, 65535].iter().map(|n| Hash(*n)).collect(),
                LoadImm(_) => vec![LoadImm(65535)],
                PushI(_) => vec![PushI(255u8.into())],
                PushIC(_) => vec![PushIC(255u8.into())],
                PushB(b) => vec![PushB(vec![0u8; b.len()]), PushB(vec![7u8; b.len() + 1])],
                _ => vec![],
            };
            for alt in alts {
                let mut o2 = ops.clone();
                o2[i] = alt.clone();
                v.push((format!("standard {} with instruction {} replaced by {}", name, i, alt), Covenant::from_ops(&o2).to_bytes()));
            }
        }
    }
    v
}

fn loop_shape_cases(run: &Run, fx: &Fx) {
    let mut shapes = loop_shape_covenants();
    shapes.extend(single_opcode_covenants());
    run.states_add(shapes.len() as u64);
    shapes.par_iter().for_each(|(name, cov)| {
        for delta in [-1i64, 0, 1] {
            // `one_case` takes a static label; the shape is carried in the replay through the transaction itself
            let extra: (&'static str, Option<Bytes>) = ("loop-shape", Some(cov.clone()));
            let _ = name;
            one_case(run, fx, 1, 1, &extra, 0, delta);
        }
    });
}

/// Batches of n transactions that all carry a covenant of their own and pay their minimum plus a small tip, applied as one
/// batch on rayon pools of 1 .. 16 workers (how a batch is spread over workers depends on its length and on the pool), and
/// the same batch with a last member paying one unit too little.  The engine's oracles compare fee pool and tips with the
/// reference after the batch.
fn large_fee_batches(run: &Run, thorough: bool) {
    // a multiple of 65536 (no minimum has a fraction) and two multipliers that are not: there the minimum of every member is
    // rounded down on its own, so the fee pool of a batch of n differs by up to n - 1 units from a pool credited with the rounded
    // minimum of the batch's total weight (seed C05-r13-2)
    for mult in [65536u128 * 3, 1_000_003, 99_991] {
        large_fee_batches_at(run, thorough, mult);
    }
}

fn large_fee_batches_at(run: &Run, thorough: bool, mult: u128) {
    use crate::stf::*;
    let (_w, rootn) = root(NetID::Custom02, mult, false);
    let eng = Engine::new(run);
    let open = match eng.step(&rootn, &Action::Open) {
        StepOut::Next(x) => x,
        _ => return,
    };
    let sizes: Vec<usize> = if thorough { vec![2, 3, 5, 7, 9, 17, 31, 33, 47, 63, 65, 100] } else { vec![3, 5, 9, 17, 33, 47] };
    let pools: Vec<rayon::ThreadPool> = [1usize, 2, 3, 4, 5, 16].iter().map(|n| rayon::ThreadPoolBuilder::new().num_threads(*n).build().unwrap()).collect();
    let mut batches = 0u64;
    for n in sizes {
        let mk = |i: usize, short: u128| {
            let cov = Covenant::from_ops(&[OpCode::Loop((i % 7 + 1) as u16, 1), OpCode::PushI((i as u64).into())]);
            let mut t = mktx(melstructs::TxKind::Faucet, vec![], vec![out_t(10 + i as u128, Denom::Mel)], 0, vec![cov.to_bytes()], vec![0x5f, (i >> 8) as u8, i as u8]);
            for _ in 0..4 {
                t.fee = melstructs::CoinValue(crate::refstf::ref_min_fee(&t, mult) + (i % 3) as u128 - short);
            }
            t
        };
        let honest: Vec<Transaction> = (0..n).map(|i| mk(i, 0)).collect();
        let mut short = honest.clone();
        // an index with i % 3 == 0 pays exactly the minimum; one unit less is too little
        let last = (n - 1) - (n - 1) % 3;
        short[last] = mk(last, 1);
        for pool in &pools {
            for (label, txs, ok) in [("pays", &honest, true), ("one member pays one unit too little", &short, false)] {
                let a = Action::Batch { label: format!("{} faucets with covenants of their own, {} ({} workers)", n, label, pool.current_num_threads()), txs: txs.clone(), expect_ok: ok };
                batches += 1;
                match pool.install(|| eng.step(&open, &a)) {
                    StepOut::Next(_) => run.outcome("large-fee-batch:accepted"),
                    StepOut::Rejected => run.outcome("large-fee-batch:rejected"),
                    StepOut::Pruned => run.outcome("large-fee-batch:engine-reported"),
                }
            }
        }
    }
    run.set(&format!("large_fee_batches_m{}", mult), json!({"fee_multiplier": mult.to_string(), "pool_sizes": [1, 2, 3, 4, 5, 16], "batches": batches}));
}

pub fn run(run: &Run) {
    let thorough = run.thorough();
    // two callers on chains with different fee multipliers, with melstf's own source under loom (every interleaving)
    crate::loomrun::stf_interleavings(run, "C05", &["two-callers"]);
    large_fee_batches(run, thorough);
    let mults: Vec<u128> = vec![0, 1, 2, 65535, 65536, 65537, 1_000_000, 1 << 40, 1 << 64, 1 << 90];
    let deltas: Vec<i64> = vec![-1000, -2, -1, 0, 1, 2, 1000];
    let covs = extra_covenants();
    let mut cases = vec![];
    for mi in 0..mults.len() {
        for n_in in 1..=3usize {
            for n_out in [0usize, 1, 2, 3, 255] {
                if !thorough && n_out == 255 && n_in != 1 {
                    continue;
                }
                for ci in 0..covs.len() {
                    for data_len in [0usize, 1, 100] {
                        if !thorough && data_len == 1 && ci > 1 {
                            continue;
                        }
                        for d in &deltas {
                            cases.push((mi, n_in, n_out, ci, data_len, *d));
                        }
                    }
                }
            }
        }
    }
    let fxs: Vec<Option<Fx>> = mults.iter().map(|m| fixture(*m)).collect();
    for (i, f) in fxs.iter().enumerate() {
        if f.is_none() {
            run.outcome(&format!("fixture-unavailable:m={}", mults[i]));
        }
    }
    run.states_add(cases.len() as u64);
    cases.par_iter().for_each(|(mi, n_in, n_out, ci, dl, d)| {
        if let Some(fx) = &fxs[*mi] {
            one_case(run, fx, *n_in, *n_out, &covs[*ci], *dl, *d);
        }
    });
    for (i, m) in mults.iter().enumerate() {
        if *m == 65536 || (thorough && *m == 1_000_000) {
            if let Some(fx) = &fxs[i] {
                loop_shape_cases(run, fx);
            }
        }
    }
    // where weight x multiplier leaves 128 bits the minimum fee saturates at 2^112 - 1: covenants of weight about 2^64, 2^96
    // and beyond 2^128 (4, 6 and 9 nested loops of 65535) and bulky transactions (70 kB / 140 kB of data), at multipliers up to 2^127
    {
        let nest = |k: usize| {
            let mut ops: Vec<OpCode> = (0..k).map(|i| OpCode::Loop(65535, (k - i) as u16)).collect();
            ops.push(OpCode::Noop);
            Covenant::from_ops(&ops).to_bytes()
        };
        let heavy: Vec<(&'static str, Option<Bytes>)> = vec![("nested-loops-x4(w~2^64)", Some(nest(4))), ("nested-loops-x6(w~2^96)", Some(nest(6))), ("nested-loops-x9(w>2^128)", Some(nest(9))), ("none", None)];
        let big_mults: Vec<u128> = vec![1 << 32, 1 << 48, 1 << 64, 1 << 100, 1 << 127];
        let big_fxs: Vec<Option<Fx>> = big_mults.iter().map(|m| fixture(*m)).collect();
        let mut sat_cases = vec![];
        for mi in 0..big_mults.len() {
            for ci in 0..heavy.len() {
                for dl in if heavy[ci].1.is_none() { vec![70_000usize, 140_000] } else { vec![0usize] } {
                    for d in [-1i64, 0, 1] {
                        sat_cases.push((mi, ci, dl, d));
                    }
                }
            }
        }
        run.states_add(sat_cases.len() as u64);
        sat_cases.par_iter().for_each(|(mi, ci, dl, d)| match &big_fxs[*mi] {
            Some(fx) => one_case(run, fx, 1, 1, &heavy[*ci], *dl, *d),
            None => run.outcome("saturating-minimum:fixture-unavailable"),
        });
        run.set("saturating_minimum_grid", json!({"multipliers": big_mults.iter().map(|m| m.to_string()).collect::<Vec<_>>(), "covenants": heavy.iter().map(|c| c.0).collect::<Vec<_>>(), "data_len_without_covenant": [70000, 140000], "fee_minus_min": [-1, 0, 1]}));
    }
    // Where weight x multiplier reaches 2^128 and beyond.  The statement's minimum is weight x multiplier / 65536 whatever the
    // size of the product: around the multiplier m* at which the product of a plain transfer first leaves 128 bits the minimum
    // (about 2^112) is still a payable amount, further out no fee a transaction can name pays it.  The fixture spends the genesis
    // coin (2^120 MEL) itself, so that it does not depend on a faucet being accepted at such a multiplier.
    {
        let probe = {
            let fx = fixture_genesis(1 << 100);
            build(&fx, 1, 1, &None, 0, 1 << 112).map(|t| ref_tx_weight(&t)).unwrap_or(1100)
        };
        let m_star = (u128::MAX / probe) + 1; // smallest multiplier with probe-weight x multiplier >= 2^128
        let mults: Vec<u128> = vec![1 << 110, 1 << 112, m_star - (1 << 100), m_star - 1, m_star, m_star + 1, m_star + (1 << 100), 1 << 117, 1 << 118, 1 << 120, 1 << 127, u128::MAX];
        let mut cases = 0u64;
        for m in &mults {
            let fx = fixture_genesis(*m);
            for d in [-1i64, 0, 1] {
                one_case(run, &fx, 1, 1, &("none", None), 0, d);
                cases += 1;
            }
            // explicit fees, whatever the fixed point does: every one of them is judged against the exact minimum
            for fee in [0u128, 1, (1 << 112) - 2, (1 << 112) - 1, 1 << 112, (1 << 112) + 1, 1 << 116, (1 << 120) - 1, 1 << 120] {
                cases += 1;
                let tx = match build(&fx, 1, 1, &None, 0, fee) {
                    Some(t) => t,
                    None => match build(&fx, 1, 0, &None, 0, fee) {
                        Some(t) => t,
                        None => continue,
                    },
                };
                run.transition();
                let min = ref_min_fee(&tx, *m);
                let mut st = fx.state.clone();
                let got = guard(|| st.apply_tx(&tx));
                run.validated();
                let replay = json!({"fee_multiplier": m.to_string(), "fee": fee.to_string(), "reference_min_fee": min.to_string(), "reference_weight": ref_tx_weight(&tx).to_string(), "tx": tx_json(&tx)});
                let region = if min == u128::MAX { "minimum-beyond-128-bits" } else if min > (1 << 120) { "minimum-above-every-fee" } else { "minimum-payable" };
                match got {
                    Err(_) => run.outcome("panic(reported under C09)"),
                    Ok(Ok(())) if fee < min => run.violation(
                        "C05",
                        format!("underpaying-accepted/product-beyond-128-bits/{}", region),
                        format!("multiplier {}: a transfer of weight {} paying {} was accepted; weight x multiplier / 65536 = {}", m, ref_tx_weight(&tx), fee, if min == u128::MAX { ">= 2^128".to_string() } else { min.to_string() }),
                        replay,
                    ),
                    Ok(Ok(())) => run.outcome(&format!("huge-multiplier:{}:accepted-at-or-above", region)),
                    Ok(Err(melstf::StateError::InsufficientFees(_))) if fee >= min => run.violation(
                        "C05",
                        format!("paying-rejected/product-beyond-128-bits/{}", region),
                        format!("multiplier {}: a transfer of weight {} paying {} >= minimum {} was refused for its fee", m, ref_tx_weight(&tx), fee, min),
                        replay,
                    ),
                    Ok(Err(_)) => run.outcome(&format!("huge-multiplier:{}:rejected", region)),
                }
            }
        }
        run.states_add(cases);
        run.set("product_beyond_128_bits_grid", json!({"multipliers": mults.iter().map(|m| m.to_string()).collect::<Vec<_>>(), "m_star": m_star.to_string(), "probe_weight": probe.to_string(), "fees": ["0", "1", "2^112-2", "2^112-1", "2^112", "2^112+1", "2^116", "2^120-1", "2^120"], "fee_minus_min": [-1, 0, 1]}));
    }
    run.set("loop_shape_covenants", json!(loop_shape_covenants().len()));
    run.set("grid", json!({"multipliers": mults.iter().map(|m| m.to_string()).collect::<Vec<_>>(), "inputs": [1, 2, 3], "outputs": [0, 1, 2, 3, 255], "extra_covenants": covs.iter().map(|c| c.0).collect::<Vec<_>>(), "data_len": [0, 1, 100], "fee_minus_min": deltas, "cases": cases.len()}));
    // histories: fee pool / tips / proposer reward over multi-block histories (engine oracles)
    let mut cfg = AlphaCfg::base();
    cfg.per_denom = 1;
    cfg.adversarial = false;
    cfg.pairs = false;
    cfg.splits = false;
    cfg.burns = false;
    cfg.mints = false;
    cfg.faucets = false;
    cfg.overpay = true;
    cfg.max_txs_per_block = 2;
    cfg.seal_actions = vec![
        None,
        Some(action_dest(7)),
        Some(melstructs::ProposerAction { fee_multiplier_delta: -128, reward_dest: addr_true() }),
        // the reward is owed whatever the destination says (here: the destruction address)
        Some(melstructs::ProposerAction { fee_multiplier_delta: 1, reward_dest: melstructs::Address::coin_destroy() }),
    ];
    for (name, fm, depth) in [("custom02-fm0", 0u128, if thorough { 10 } else { 8 }), ("custom02-fm65536", 65536, if thorough { 9 } else { 8 }), ("custom02-fm1e6", 1_000_000, if thorough { 9 } else { 7 })] {
        let scn = sc(name, NetID::Custom02, fm, cfg.clone(), depth);
        let st = run_scenario(run, &scn, 1_500_000);
        println!("  scenario {}: depth {} states {} transitions {}", name, st.depth_completed, st.states, st.transitions);
    }
    // other genesis configurations (non-empty initial fee pool: the first proposer reward comes out of it)
    for scn in genesis_scenarios(["custom02-genesis-sym-feepool-stake", "custom02-genesis-erg-fees-stakes", "custom02-genesis-huge-mel-feepool"], NetID::Custom02, &cfg, if thorough { 8 } else { 6 }) {
        let st = run_scenario(run, &scn, 1_500_000);
        println!("  scenario {}: depth {} states {} transitions {}", scn.name, st.depth_completed, st.states, st.transitions);
    }
    long_histories(run, thorough);
    // the repository's standard genesis configurations (mainnet: fee pool 6.5 * 10^12, multiplier 10^6; testnet: multiplier 100)
    run_std_genesis(run, if thorough { 8 } else { 6 });
    // very large fees: the reward coin is exact even when (fee pool >> 16) + tips approaches or exceeds the maximum coin value
    {
        use crate::stf::*;
        let (_w, rootn) = root(NetID::Custom02, 0, false);
        let eng = Engine::new(run);
        if let StepOut::Next(open) = eng.step(&rootn, &Action::Open) {
            let big = |tag: u8, fee: u128| tx_t(TxKind::Faucet, vec![], vec![out_t(1, Denom::Mel)], fee, vec![0xfe, tag]);
            for fees in [vec![1u128 << 119], vec![1 << 119, 1 << 119], vec![1 << 120], vec![1 << 120, 1 << 119], vec![(1 << 120) - 5, 7]] {
                let mut n = open.clone();
                let mut ok = true;
                for (i, f) in fees.iter().enumerate() {
                    match eng.step(&n, &Action::Batch { label: format!("faucet(fee={})", f), txs: vec![big(i as u8, *f)], expect_ok: true }) {
                        StepOut::Next(x) => n = x,
                        _ => {
                            ok = false;
                            break;
                        }
                    }
                }
                if ok {
                    for act in [Some(action_dest(4)), None] {
                        if let StepOut::Next(sealed) = eng.step(&n, &Action::Seal(act)) {
                            run.outcome("huge-fees:sealed");
                            // and the following block, sealed with an action, pays what is left exactly
                            if let StepOut::Next(o2) = eng.step(&sealed, &Action::Open) {
                                let _ = eng.step(&o2, &Action::Seal(Some(action_dest(5))));
                            }
                        }
                    }
                }
            }
        }
    }
    run.sample(json!({"fee_multiplier": "65536", "shape": "in=1 out=2 cov=sigeok50(w=150) data=100 delta=-1", "expected": "rejected: fee = minimum - 1"}));
    run.sample(json!({"path": ["genesis[Custom02]", "open", "overpay(coin)", "seal(delta=7,dest=..)"], "oracle": "reward coin = (fee pool of seal(None) >> 16) + tips; fee pool decreases by exactly the first part; next block's tips start at 0"}));
    run.assume("the reference weight uses the reference covenant weight (refvm.rs) and the stdcode length of the transaction");
}
