//! C20 — per-covenant coin counts always equal the number of unspent coins (state invariant on
//! every open and sealed state of the scenarios, plus testnet histories crossing the activation height).
use crate::alphabet::{action_dest, AlphaCfg};
use crate::props::e1::*;
use crate::report::Run;
use crate::stf::Action;
use melstructs::NetID;
use serde_json::json;

pub fn scenarios(thorough: bool) -> Vec<Scenario> {
    let mut base = AlphaCfg::base();
    base.max_txs_per_block = 2;
    base.seal_actions = vec![None, Some(action_dest(1))];
    let mut pools = crate::props::c01::pool_cfg();
    pools.seal_actions = vec![None, Some(action_dest(2))];
    pools.odd_shapes = true;
    let mut v = vec![
        sc("custom02-utxo", NetID::Custom02, 0, base.clone(), if thorough { 6 } else { 5 }),
        sc("custom02-pools", NetID::Custom02, 0, pools.clone(), if thorough { 8 } else { 6 }),
    ];
    // testnet: jump to 498, so that block 499 is the last one without counts and block 500 the first with them
    let mut t = sc("testnet-activation", NetID::Testnet, 0, base.clone(), if thorough { 7 } else { 6 });
    t.pre = vec![Action::Jump(498)];
    t.cfg.adversarial = false;
    t.cfg.pairs = false;
    v.push(t);
    // mainnet crosses its own activation height 830000 (root re-labelled at 829998)
    let mut mnet = sc("mainnet-activation-830000", NetID::Mainnet, 0, AlphaCfg::base(), if thorough { 6 } else { 5 });
    mnet.pre = vec![Action::Jump(829_998)];
    mnet.cfg.adversarial = false;
    mnet.cfg.pairs = false;
    // on mainnet the faucet alphabet holds the grandfathered transaction, which may be applied again and again (same coin, one count)
    mnet.cfg.faucets = true;
    v.push(mnet);
    // testnet after activation, still inside the legacy deposit window (< 978392): deposits and withdrawals settle with counts on
    let mut td = pools.clone();
    td.swaps = false;
    td.mints = false;
    td.overpay = false;
    let mut tds = sc("testnet-counted-legacy-deposits", NetID::Testnet, 0, td, if thorough { 8 } else { 6 });
    // cross the activation height by real blocks (a fabricated jump past it would skip the TIP-906 transition)
    tds.pre = vec![Action::Jump(498), Action::Open, Action::Seal(None), Action::Open, Action::Seal(None)];
    v.push(tds);
    // restarts: a state rebuilt from its block keeps counting (small alphabet, every sealed state may be restarted once)
    let mut rs = AlphaCfg::base();
    rs.per_denom = 1;
    rs.restarts = true;
    rs.adversarial = false;
    rs.pairs = false;
    rs.splits = false;
    rs.burns = false;
    rs.overpay = false;
    rs.faucets = false;
    rs.max_txs_per_block = 1;
    rs.seal_actions = vec![None, Some(action_dest(2))];
    v.push(sc("custom02-utxo-with-restarts", NetID::Custom02, 0, rs.clone(), if thorough { 9 } else { 7 }));
    let mut rp = pools.clone();
    rp.restarts = true;
    rp.swaps = false;
    rp.mints = false;
    rp.overpay = false;
    rp.odd_shapes = false;
    rp.max_txs_per_block = 1;
    rp.seal_actions = vec![None];
    v.push(sc("custom02-pools-with-restarts", NetID::Custom02, 0, rp, if thorough { 9 } else { 7 }));
    v.extend(genesis_scenarios(["custom02-genesis-sym-feepool-stake", "custom02-genesis-erg-fees-stakes", "custom02-genesis-huge-mel-feepool"], NetID::Custom02, &pools, if thorough { 7 } else { 5 }));
    if thorough {
        let mut tp = sc("testnet-activation-pools", NetID::Testnet, 0, pools, 8);
        tp.pre = vec![Action::Jump(498)];
        v.push(tp);
        v.push(sc("custom08-utxo", NetID::Custom08, 0, base, 6));
    }
    v
}

pub fn run(run: &Run) {
    // the counts are part of the coin tree, hence of the header: batches whose members create and spend coins under one covenant
    // hash with apply_tx_batch itself under loom (the header must be the sequential one under every interleaving)
    crate::loomrun::stf_interleavings(run, "C20", &["chain", "chain-reversed", "independent", "shared-second-input"]);
    long_histories(run, run.thorough());
    // several withdrawals of one block settled against the same pool: several new coins at one address in one settlement
    crate::props::c15::user_pool_emptied_by_several_withdrawals(run, run.thorough());
    crate::props::c16::custom_pool_withdrawals(run, run.thorough());
    for sc in scenarios(run.thorough()) {
        sample_alphabet(run, &sc);
        let st = run_scenario(run, &sc, 2_000_000);
        println!("  scenario {}: depth {} states {} transitions {}", sc.name, st.depth_completed, st.states, st.transitions);
    }
    run.sample(json!({"path": ["genesis[Testnet]", "jump(498)", "open", "split(coin)", "seal(None)", "open"], "oracle": "after next_unsealed at height 500 every covenant hash's count equals its number of coins; before, no count entries exist"}));
    run.assume("coin and count entries are told apart by decoding the raw tree values (CoinDataHeight vs u64)");
}
