//! C14 — a state is confirmed only by valid signatures from a >2/3 stake majority.  E3: all
//! small stake distributions x every subset of signers x signature variants.
use crate::guard::guard;
use crate::report::Run;
use crate::world::*;
use bytes::Bytes;
use melstructs::{CoinValue, ConsensusProof, NetID, StakeDoc, TxHash};
use rayon::prelude::*;
use serde_json::json;
use std::collections::BTreeMap;
use tmelcrypt::HashVal;

#[derive(Clone, Debug)]
struct StakeSpec {
    key: u8,
    weight: u128,
    e_start: u64,
    e_post_end: u64,
}

fn stake_map(specs: &[StakeSpec]) -> BTreeMap<TxHash, StakeDoc> {
    specs
        .iter()
        .enumerate()
        .map(|(i, s)| {
            (
                TxHash(HashVal(*blake3::hash(&[b"stake".as_ref(), &[i as u8]].concat()).as_bytes())),
                StakeDoc { pubkey: key(s.key).0, e_start: s.e_start, e_post_end: s.e_post_end, syms_staked: CoinValue(s.weight) },
            )
        })
        .collect()
}

fn check_distribution(run: &Run, specs: &[StakeSpec], epoch: u64, label: &str) {
    check_distribution_at(run, specs, epoch, label, false);
    if epoch > 0 {
        // the same epoch entered by a real block (the stake set is pruned of expired stakes on the way), not by re-labelling
        check_distribution_at(run, specs, epoch, label, true);
    }
}

fn check_distribution_at(run: &Run, specs: &[StakeSpec], epoch: u64, label: &str, crossed: bool) {
    let w = world(NetID::Custom02, out_t(1000, melstructs::Denom::Mel), 0, 0, stake_map(specs));
    let mut sealed = w.genesis.clone().seal(None);
    if epoch > 0 && !crossed {
        sealed = fabricate(&sealed, &w.db, NetID::Custom02, epoch * 200_000, &[]);
    }
    if epoch > 0 && crossed {
        // walk through the earlier epoch boundaries as well, so that every expiry is pruned when a real chain would prune it
        for e in 1..=epoch {
            let before = fabricate(&sealed, &w.db, NetID::Custom02, e * 200_000 - 1, &[]);
            sealed = match guard(|| before.next_unsealed().seal(None)) {
                Ok(s) => s,
                Err(p) => {
                    run.outcome(&format!("crossing-panics(reported under C09):{}", p.msg));
                    return;
                }
            };
        }
    }
    let label = &format!("{}{}", label, if crossed { "/entered-by-a-real-block" } else { "" });
    let hh = sealed.header().hash();
    let keys: Vec<u8> = {
        let mut k: Vec<u8> = specs.iter().map(|s| s.key).collect();
        k.sort();
        k.dedup();
        k
    };
    let active = |s: &StakeSpec| s.e_start <= epoch && epoch < s.e_post_end;
    let total: u128 = specs.iter().filter(|s| active(s)).map(|s| s.weight).sum();
    if total == 0 {
        return;
    }
    let power = |k: u8| -> u128 { specs.iter().filter(|s| s.key == k && active(s)).map(|s| s.weight).sum() };
    let n = keys.len();
    run.state();
    let mut confirms = vec![false; 1 << n];
    for mask in 0u32..(1 << n) {
        let signers: Vec<u8> = (0..n).filter(|i| mask & (1 << i) != 0).map(|i| keys[i]).collect();
        let present: u128 = signers.iter().map(|k| power(*k)).sum();
        let mut proof: ConsensusProof = BTreeMap::new();
        for k in &signers {
            let (pk, sk) = key(*k);
            proof.insert(pk, Bytes::from(sk.sign(&hh.0)));
        }
        let desc = json!({"stakes": specs.iter().map(|s| json!([s.key, s.weight.to_string(), s.e_start, s.e_post_end])).collect::<Vec<_>>(), "epoch": epoch, "signers": signers, "label": label});
        // variant 1: all valid
        run.transition();
        let got = guard(|| sealed.confirm(proof.clone()).is_some());
        // (unbounded arithmetic: 3 x present and 2 x total leave 128 bits from 2^126.4 and 2^127 on)
        let (p3, t2) = (num::BigUint::from(present) * 3u32, num::BigUint::from(total) * 2u32);
        let ratio = if p3 > t2 {
            "above"
        } else if p3 < t2 {
            "below"
        } else {
            "equal"
        };
        match got {
            Err(p) => run.violation("C14", format!("confirm-panics/{}", p.class()), p.msg.clone(), desc.clone()),
            Ok(got) => {
                run.validated();
                confirms[mask as usize] = got;
                run.outcome(&format!("valid/{}/{}", ratio, got));
                if ratio == "above" && !got {
                    let kind = if mask + 1 == (1 << n) { "unanimous" } else { "supermajority" };
                    run.violation("C14", format!("rejects-{}", kind), format!("signers hold {}/{} (> 2/3) but confirm returned None", present, total), desc.clone());
                }
                if ratio == "below" && got {
                    let kind = if mask == 0 { "empty-proof" } else { "minority" };
                    run.violation("C14", format!("confirms-{}", kind), format!("signers hold {}/{} (< 2/3) but confirm returned Some", present, total), desc.clone());
                }
            }
        }
        // variants with an invalid signature: must never confirm
        if !signers.is_empty() {
            let (pk0, _) = key(signers[0]);
            let mut bad: Vec<(&str, ConsensusProof)> = vec![];
            let mut p1 = proof.clone();
            let mut sig = p1[&pk0].to_vec();
            sig[5] ^= 0x40;
            p1.insert(pk0, sig.into());
            bad.push(("bitflip", p1));
            let mut p2 = proof.clone();
            p2.insert(pk0, Bytes::new());
            bad.push(("empty-sig", p2));
            let mut p3 = proof.clone();
            p3.insert(pk0, Bytes::from(vec![0u8; 64]));
            bad.push(("zero-sig", p3));
            let mut p4 = proof.clone();
            p4.insert(pk0, Bytes::from(vec![7u8; 200]));
            bad.push(("oversized-sig", p4));
            // signature over something else (the header hash with one bit changed)
            let mut other = hh.0;
            other[0] ^= 1;
            let mut p5 = proof.clone();
            p5.insert(pk0, Bytes::from(key(signers[0]).1.sign(&other)));
            bad.push(("wrong-message", p5));
            if signers.len() >= 2 {
                let (pk1, _) = key(signers[1]);
                let mut p6 = proof.clone();
                let a = p6[&pk0].clone();
                let b = p6[&pk1].clone();
                p6.insert(pk0, b);
                p6.insert(pk1, a);
                bad.push(("swapped", p6));
            }
            // a foreign key with an invalid signature
            let mut p7 = proof.clone();
            p7.insert(key(200).0, Bytes::from(key(201).1.sign(&hh.0)));
            bad.push(("foreign-invalid", p7));
            for (name, pr) in bad {
                run.transition();
                match guard(|| sealed.confirm(pr.clone()).is_some()) {
                    Err(p) => run.violation("C14", format!("confirm-panics/{}", p.class()), p.msg.clone(), desc.clone()),
                    Ok(true) => {
                        run.validated();
                        run.violation("C14", format!("confirms-with-invalid-signature/{}", name), format!("a proof containing an invalid signature ({}) confirmed", name), desc.clone())
                    }
                    Ok(false) => {
                        run.validated();
                        run.outcome("invalid-sig/rejected")
                    }
                }
            }
        }
        // a valid signature by a key without stake must not change the verdict
        let mut pf = proof.clone();
        let (fpk, fsk) = key(202);
        pf.insert(fpk, Bytes::from(fsk.sign(&hh.0)));
        run.transition();
        if let Ok(g2) = guard(|| sealed.confirm(pf.clone()).is_some()) {
            run.validated();
            if g2 != confirms[mask as usize] && ratio != "equal" {
                run.violation("C14", "foreign-valid-signature-changes-verdict".into(), format!("adding a valid signature of a non-staker changed {} -> {}", confirms[mask as usize], g2), desc.clone());
            }
        }
    }
    // monotonicity over all subset pairs A ⊂ B
    for a in 0u32..(1 << n) {
        for b in 0u32..(1 << n) {
            if a & b == a && a != b && confirms[a as usize] && !confirms[b as usize] {
                run.violation(
                    "C14",
                    "not-monotone".into(),
                    format!("subset {:b} confirms but superset {:b} does not", a, b),
                    json!({"stakes": specs.iter().map(|s| json!([s.key, s.weight.to_string(), s.e_start, s.e_post_end])).collect::<Vec<_>>(), "epoch": epoch, "a": a, "b": b}),
                );
            }
        }
    }
}

pub fn run(run: &Run) {
    let max_n = if run.thorough() { 7 } else { 6 };
    let weights = [1u128, 2, 3];
    // all weight vectors for n = 1..max_n, one stake per key, active in epoch 0
    let mut dists: Vec<(Vec<StakeSpec>, u64, String)> = vec![];
    for n in 1..=max_n {
        let mut idx = vec![0usize; n];
        loop {
            let specs: Vec<StakeSpec> = (0..n).map(|i| StakeSpec { key: i as u8, weight: weights[idx[i]], e_start: 0, e_post_end: 2 }).collect();
            dists.push((specs, 0, format!("n={}", n)));
            let mut i = 0;
            loop {
                if i == n {
                    break;
                }
                idx[i] += 1;
                if idx[i] < weights.len() {
                    break;
                }
                idx[i] = 0;
                i += 1;
            }
            if i == n {
                break;
            }
        }
    }
    // several stakes per key
    for (w0, w1, w2) in [(1u128, 1u128, 1u128), (1, 2, 3), (3, 3, 1), (2, 2, 5)] {
        dists.push((
            vec![
                StakeSpec { key: 0, weight: w0, e_start: 0, e_post_end: 2 },
                StakeSpec { key: 0, weight: w1, e_start: 0, e_post_end: 3 },
                StakeSpec { key: 1, weight: w2, e_start: 0, e_post_end: 2 },
                StakeSpec { key: 2, weight: 1, e_start: 0, e_post_end: 2 },
            ],
            0,
            "two-stakes-one-key".into(),
        ));
    }
    // stakes outside the state's epoch (state fabricated in epoch 1 and 2)
    for epoch in [1u64, 2] {
        for (w0, w1, w2, w3) in [(5u128, 1u128, 1u128, 1u128), (1, 5, 1, 1), (1, 1, 5, 1), (3, 3, 3, 3), (100, 1, 1, 1), (1, 1, 1, 100)] {
            dists.push((
                vec![
                    StakeSpec { key: 0, weight: w0, e_start: 0, e_post_end: 1 },
                    StakeSpec { key: 1, weight: w1, e_start: 1, e_post_end: 2 },
                    StakeSpec { key: 2, weight: w2, e_start: 0, e_post_end: 3 },
                    StakeSpec { key: 3, weight: w3, e_start: 2, e_post_end: 4 },
                ],
                epoch,
                format!("epoch-{}-mixed", epoch),
            ));
        }
    }
    // a key that staked again: its first stake has expired (and is pruned when the epoch is entered by a real block), the second is active
    for epoch in [1u64, 2, 3] {
        for (w0, w1, w2) in [(5u128, 5u128, 3u128), (1, 1, 1), (1, 3, 2), (4, 1, 2)] {
            dists.push((
                vec![
                    StakeSpec { key: 0, weight: w0, e_start: 0, e_post_end: 1 },
                    StakeSpec { key: 0, weight: w1, e_start: 1, e_post_end: 10 },
                    StakeSpec { key: 1, weight: w2, e_start: 0, e_post_end: 10 },
                    StakeSpec { key: 2, weight: 1, e_start: 0, e_post_end: 2 },
                    StakeSpec { key: 2, weight: 1, e_start: 2, e_post_end: 10 },
                ],
                epoch,
                format!("epoch-{}-restaked", epoch),
            ));
        }
    }
    // large weights (near the SYM supply scale)
    dists.push((
        vec![
            StakeSpec { key: 0, weight: 1 << 100, e_start: 0, e_post_end: 2 },
            StakeSpec { key: 1, weight: 1 << 100, e_start: 0, e_post_end: 2 },
            StakeSpec { key: 2, weight: (1 << 100) + 1, e_start: 0, e_post_end: 2 },
        ],
        0,
        "large".into(),
    ));
    // voting power at the top of the 128-bit range: totals of 2^127 - 1, 2^127, 2^127 + 1 and 2^128 - 1, where three times the
    // signers' power and twice the total no longer fit 128 bits (the total itself still does)
    for (name, ws) in [
        ("2^127-1", vec![(1u128 << 126) - 1, 1 << 126]),
        ("2^127", vec![1u128 << 126, 1 << 126]),
        ("2^127+1", vec![1u128 << 126, 1 << 126, 1]),
        ("2^127-in-three", vec![(1u128 << 126) - 1, 1 << 125, (1 << 125) + 1]),
        ("2^128-1", vec![1u128 << 127, (1 << 127) - 1]),
        ("2^128-1-in-three", vec![(1u128 << 127) - 1, 1 << 126, 1 << 126]),
    ] {
        dists.push((ws.iter().enumerate().map(|(i, w)| StakeSpec { key: i as u8, weight: *w, e_start: 0, e_post_end: 2 }).collect(), 0, format!("total-{}", name)));
    }
    run.set("distributions", json!(dists.len()));
    run.set("max_stakers", json!(max_n));
    run.set("weights", json!(["1", "2", "3"]));
    dists.par_iter().for_each(|(specs, epoch, label)| check_distribution(run, specs, *epoch, label));
    run.sample(json!({"stakes": [[0, "1", 0, 2], [1, "1", 0, 2], [2, "1", 0, 2]], "signers": [0, 1, 2], "expected": "Some (unanimous)"}));
    run.sample(json!({"stakes": [[0, "1", 0, 2], [1, "1", 0, 2], [2, "1", 0, 2]], "signers": [], "expected": "None (empty proof)"}));
    run.assume("states with stakes come from GenesisConfig.stakes; epoch 1/2 states are fabricated at heights 200000/400000 with the same stake set");
}
