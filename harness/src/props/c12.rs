//! C12 — covenant bytecode encoding is a bijection.  Exhaustive enumeration (E2), public API only.
use crate::guard::guard;
use crate::refvm::{ref_decode, ref_encode, ref_weight};
use crate::report::{hx, Run};
use melvm::{opcode::OpCode, Covenant};
use rayon::prelude::*;
use serde_json::json;

fn first_bad_opcode(b: &[u8]) -> String {
    // feature used in violation classes: the opcode byte at which reference decoding stops (or the first byte)
    let mut rest = b;
    let mut last = b.first().copied();
    loop {
        if rest.is_empty() {
            break;
        }
        last = Some(rest[0]);
        // find longest prefix decodable as exactly one instruction
        let mut adv = None;
        for l in 1..=rest.len().min(40) {
            if let Some(v) = ref_decode(&rest[..l]) {
                if v.len() == 1 {
                    adv = Some(l);
                    break;
                }
            }
        }
        match adv {
            Some(l) => rest = &rest[l..],
            None => break,
        }
    }
    last.map(|x| format!("0x{:02x}", x)).unwrap_or_else(|| "empty".into())
}

/// The oracle for one byte string.  Returns a short outcome label.
pub fn check_bytes(run: &Run, b: &[u8]) -> &'static str {
    run.transition();
    let real = guard(|| Covenant::from_bytes(b));
    let reference = ref_decode(b);
    let replay = json!({"kind": "bytes", "bytes_hex": hx(b)});
    let real = match real {
        Err(p) => {
            run.violation("C12", format!("decode-panic/op={}/{}", first_bad_opcode(b), p.class()), format!("from_bytes({}) panicked: {}", hx(b), p.msg), replay);
            return "panic";
        }
        Ok(r) => r,
    };
    run.validated();
    match (real, reference) {
        (Err(_), None) => "reject",
        (Ok(c), None) => {
            // accepted although the reference rejects: still demand the round trip, which is what the property states
            let re = guard(|| c.to_bytes());
            let same = matches!(&re, Ok(x) if x.as_ref() == b);
            if !same {
                run.violation(
                    "C12",
                    format!("decode-not-injective/op={}", first_bad_opcode(b)),
                    format!("from_bytes({}) succeeds but re-encodes to {:?}", hx(b), re.map(|x| hx(&x))),
                    replay,
                );
            } else {
                run.violation("C12", format!("decode-accepts-what-reference-rejects/op={}", first_bad_opcode(b)), format!("from_bytes({}) = {:?}", hx(b), c.to_ops()), replay);
            }
            "accept-unexpected"
        }
        (Err(e), Some(ops)) => {
            run.violation("C12", format!("decode-rejects-valid/op={}", first_bad_opcode(b)), format!("from_bytes({}) = Err({}) but the reference decodes {:?}", hx(b), e, ops), replay);
            "reject-unexpected"
        }
        (Ok(c), Some(ops)) => {
            if c.to_ops() != ops {
                run.violation("C12", format!("decode-differs/op={}", first_bad_opcode(b)), format!("from_bytes({}) = {:?}, reference {:?}", hx(b), c.to_ops(), ops), replay.clone());
            }
            match guard(|| c.to_bytes()) {
                Ok(re) if re.as_ref() == b => {}
                other => run.violation(
                    "C12",
                    format!("roundtrip-bytes/op={}", first_bad_opcode(b)),
                    format!("to_bytes(from_bytes({})) = {:?}", hx(b), other.map(|x| hx(&x))),
                    replay.clone(),
                ),
            }
            // hash and weight are the same whether computed from bytes or from instructions
            let from_ops = Covenant::from_ops(&ops);
            if let (Ok(h1), Ok(h2)) = (guard(|| c.hash()), guard(|| from_ops.hash())) {
                if h1 != h2 || h1.0 != tmelcrypt::hash_single(b) {
                    run.violation("C12", format!("hash-differs/op={}", first_bad_opcode(b)), format!("hash from bytes/ops differ for {}", hx(b)), replay.clone());
                }
            }
            // the decoded program equals the program rebuilt from its own bytes / instructions, also after it has been hashed
            if let (Ok(Ok(again)), Ok(rebuilt)) = (guard(|| Covenant::from_bytes(b)), guard(|| Covenant::from_ops(&c.to_ops()))) {
                if again != c || rebuilt != c {
                    run.violation("C12", format!("program-equality/op={}", first_bad_opcode(b)), format!("a program decoded from {} is not equal to a fresh decode / rebuild of itself (after hash())", hx(b)), replay.clone());
                }
            }
            let w1 = guard(|| c.weight());
            let w2 = guard(|| from_ops.weight());
            let w3 = guard(|| melvm::covenant_weight_from_bytes(b));
            match (w1, w2, w3) {
                (Ok(a), Ok(bb), Ok(cc)) => {
                    if a != bb || a != cc {
                        run.violation("C12", format!("weight-differs/op={}", first_bad_opcode(b)), format!("weights {} {} {} for {}", a, bb, cc, hx(b)), replay.clone());
                    }
                    if ops.len() <= 64 && a != ref_weight(&ops) {
                        run.violation("C12", format!("weight-vs-reference/op={}", first_bad_opcode(b)), format!("weight {} reference {} for {}", a, ref_weight(&ops), hx(b)), replay);
                    }
                }
                _ => run.violation("C12", format!("weight-panic/op={}", first_bad_opcode(b)), format!("weight panicked for {}", hx(b)), replay),
            }
            "accept"
        }
    }
}

/// The oracle for one instruction list.
pub fn check_ops(run: &Run, ops: &[OpCode]) -> &'static str {
    run.transition();
    let replay = json!({"kind": "ops", "ops": ops.iter().map(|o| o.to_string()).collect::<Vec<_>>()});
    let feat = ops.iter().map(|o| o.to_string().split(' ').next().unwrap().to_string()).collect::<Vec<_>>().join("+");
    let expected = ref_encode(ops);
    // encode each instruction through the fallible public encoder
    let mut enc: Result<Vec<u8>, ()> = Ok(vec![]);
    for op in ops {
        let mut buf = vec![];
        match guard(|| op.encode(&mut buf)) {
            Err(p) => {
                run.violation("C12", format!("encode-panic/{}", feat), format!("encode panicked: {}", p.msg), replay);
                return "panic";
            }
            Ok(Err(_)) => {
                enc = Err(());
                break;
            }
            Ok(Ok(())) => {
                if let Ok(v) = enc.as_mut() {
                    v.extend(buf)
                }
            }
        }
    }
    run.validated();
    match (enc, expected) {
        (Err(()), None) => "unrepresentable",
        (Err(()), Some(_)) => {
            run.violation("C12", format!("encode-rejects-representable/{}", feat), format!("{:?}", ops), replay);
            "bad"
        }
        (Ok(b), None) => {
            run.violation("C12", format!("encode-accepts-unrepresentable/{}", feat), format!("{:?} -> {}", ops, hx(&b)), replay);
            "bad"
        }
        (Ok(b), Some(e)) => {
            if b != e {
                run.violation("C12", format!("encode-differs/{}", feat), format!("{:?} -> {} (reference {})", ops, hx(&b), hx(&e)), replay.clone());
            }
            match guard(|| Covenant::from_bytes(&b)) {
                Ok(Ok(c)) if c.to_ops() == ops => {
                    let via = Covenant::from_ops(ops);
                    if guard(|| via.to_bytes()).map(|x| x.to_vec()) != Ok(b.clone()) || via != c {
                        run.violation("C12", format!("roundtrip-ops/{}", feat), format!("from_ops/to_bytes disagree for {:?}", ops), replay);
                    }
                }
                other => run.violation("C12", format!("roundtrip-ops/{}", feat), format!("decode(encode({:?})) = {:?}", ops, other.map(|r| r.map(|c| c.to_ops()).map_err(|e| e.to_string()))), replay),
            }
            "roundtrip"
        }
    }
}

fn rep_ops() -> Vec<OpCode> {
    use OpCode::*;
    let u16s = [0u16, 1, 255, 256, 65535];
    let mut v = vec![
        Noop, Add, Sub, Mul, Div, Rem, And, Or, Xor, Not, Eql, Lt, Gt, Shl, Shr, Store, Load, VRef, VAppend, VEmpty, VLength, VSlice, VSet, VPush, VCons, BRef, BAppend, BEmpty,
        BLength, BSlice, BSet, BPush, BCons, ItoB, BtoI, TypeQ, Dup,
    ];
    for k in [0u8, 1, 127, 255] {
        v.push(Exp(k));
    }
    for n in u16s {
        v.extend([Hash(n), SigEOk(n), StoreImm(n), LoadImm(n), Bez(n), Bnz(n), Jmp(n)]);
    }
    for a in [0u16, 1, 65535] {
        for b in [0u16, 1, 256, 65535] {
            v.push(Loop(a, b));
        }
    }
    for l in [0usize, 1, 2, 32, 254, 255, 256, 257, 1000] {
        v.push(PushB(vec![0xab; l]));
    }
    let one = ethnum::U256::ONE;
    let ints = vec![
        ethnum::U256::ZERO,
        one,
        ethnum::U256::from(255u32),
        ethnum::U256::from(256u32),
        ethnum::U256::from(65535u32),
        ethnum::U256::from(65536u32),
        one << 64,
        one << 128,
        (one << 248) - one,
        one << 248,
        one << 255,
        ethnum::U256::MAX,
    ];
    for i in ints {
        v.push(PushI(i));
        v.push(PushIC(i));
    }
    v
}

pub fn run(run: &Run) {
    let thorough = run.thorough();
    run.set("alphabet", json!("byte strings over {0x00..0xff}; instruction lists over one representative per OpCode variant with boundary operands"));
    // (a) every byte string of length <= 3; thorough adds every 4-byte string starting with an operand-taking opcode
    let mut n_strings: u64 = 0;
    check_bytes(run, &[]);
    run.state();
    n_strings += 1;
    let operand_ops: Vec<u8> = vec![0x15, 0x30, 0x32, 0x42, 0x43, 0xa0, 0xa1, 0xa2, 0xb0, 0xf0, 0xf1, 0xf2];
    let counts: Vec<(u64, std::collections::BTreeMap<&'static str, u64>)> = (0u16..=255)
        .into_par_iter()
        .map(|b0| {
            let b0 = b0 as u8;
            let mut n = 0u64;
            let mut hist = std::collections::BTreeMap::new();
            let mut note = |o: &'static str| *hist.entry(o).or_insert(0u64) += 1;
            note(check_bytes(run, &[b0]));
            n += 1;
            for b1 in 0u16..=255 {
                let b1 = b1 as u8;
                note(check_bytes(run, &[b0, b1]));
                n += 1;
                for b2 in 0u16..=255 {
                    let b2 = b2 as u8;
                    note(check_bytes(run, &[b0, b1, b2]));
                    n += 1;
                    // thorough: all 4-byte strings that begin with an instruction that takes operands
                    if thorough && operand_ops.contains(&b0) {
                        for b3 in 0u16..=255 {
                            note(check_bytes(run, &[b0, b1, b2, b3 as u8]));
                            n += 1;
                        }
                    }
                }
            }
            (n, hist)
        })
        .collect();
    for (n, h) in counts {
        n_strings += n;
        for (k, v) in h {
            run.outcome_n(&format!("bytes:{}", k), v);
        }
    }
    run.states_add(n_strings - 1);
    run.set("byte_strings_len_le_3", json!(n_strings));
    run.set("len3_complete", json!(true));
    run.set("len4_with_operand_opcode_prefix_complete", json!(thorough));
    // (b) every opcode byte x operand-length class
    let mut n_b = 0u64;
    for op in 0u16..=255 {
        let op = op as u8;
        for total in 0..=40usize {
            for fill in [0x00u8, 0x01, 0x20, 0xff] {
                let mut s = vec![op];
                s.extend(std::iter::repeat(fill).take(total));
                run.outcome(&format!("oplen:{}", check_bytes(run, &s)));
                // trailing valid opcode / trailing invalid byte
                let mut t = s.clone();
                t.push(0x09);
                check_bytes(run, &t);
                let mut u = s.clone();
                u.push(0x0a);
                check_bytes(run, &u);
                n_b += 3;
            }
        }
    }
    // (c) PushIC: every length byte x leading digit byte x trailing
    for len in 0u16..=255 {
        for lead in [0x00u8, 0x01, 0x7f, 0x80, 0xff] {
            for have in [len as usize, (len as usize).saturating_sub(1), len as usize + 1, 0] {
                let mut s = vec![0xf2, len as u8];
                if have > 0 {
                    s.push(lead);
                    s.extend(std::iter::repeat(0x11).take(have - 1));
                }
                run.outcome(&format!("pushic:{}", check_bytes(run, &s)));
                n_b += 1;
            }
        }
    }
    // PushB: every length byte with payload of exactly / one less / one more
    for len in 0u16..=255 {
        for have in [len as usize, (len as usize).saturating_sub(1), len as usize + 1] {
            let mut s = vec![0xf0, len as u8];
            s.extend(std::iter::repeat(0x5a).take(have));
            run.outcome(&format!("pushb:{}", check_bytes(run, &s)));
            n_b += 1;
        }
    }
    run.states_add(n_b);
    // (d) instruction lists
    let reps = rep_ops();
    let mut n_ops = 0u64;
    for a in &reps {
        run.outcome(&format!("ops:{}", check_ops(run, std::slice::from_ref(a))));
        n_ops += 1;
    }
    let pairs: Vec<(usize, usize)> = (0..reps.len()).flat_map(|i| (0..reps.len()).map(move |j| (i, j))).collect();
    let outcomes: Vec<&'static str> = pairs.par_iter().map(|(i, j)| check_ops(run, &[reps[*i].clone(), reps[*j].clone()])).collect();
    for o in outcomes {
        run.outcome(&format!("ops:{}", o));
        n_ops += 1;
    }
    if thorough {
        // triples over a thinner representative set
        let thin: Vec<OpCode> = reps.iter().enumerate().filter(|(i, _)| i % 3 == 0).map(|(_, o)| o.clone()).collect();
        let tn = thin.len();
        let triples: Vec<(usize, usize, usize)> = (0..tn).flat_map(|i| (0..tn).flat_map(move |j| (0..tn).map(move |k| (i, j, k)))).collect();
        let outs: Vec<&'static str> = triples.par_iter().map(|(i, j, k)| check_ops(run, &[thin[*i].clone(), thin[*j].clone(), thin[*k].clone()])).collect();
        for o in outs {
            run.outcome(&format!("ops3:{}", o));
            n_ops += 1;
        }
    }
    run.states_add(n_ops);
    // (e) structured longer strings: the standard signature covenants alone, with instructions appended and with an unknown opcode
    // appended (a recogniser by prefix must agree with the decoder), and programs around 65536 instructions (16-bit counts)
    {
        let mut long: Vec<Vec<u8>> = vec![];
        for std in [crate::world::cov_legacy(0).to_bytes().to_vec(), crate::world::cov_new(1).to_bytes().to_vec()] {
            long.push(std.clone());
            for tail in [vec![OpCode::Noop], vec![OpCode::Loop(60000, 2), OpCode::PushIC(1u8.into()), OpCode::Hash(65535), OpCode::And]] {
                let mut b = std.clone();
                b.extend_from_slice(&Covenant::from_ops(&tail).to_bytes());
                long.push(b);
            }
            let mut b = std.clone();
            b.push(0x00);
            long.push(b);
            let mut b = std.clone();
            b.truncate(b.len() - 1);
            long.push(b);
        }
        for n in [65_535usize, 65_536, 65_537, 70_000, 131_073] {
            for tail in [vec![], vec![0xf2u8, 0x00], vec![0xf2, 0x01, 0x01], vec![0xf0, 0x05, 0x01]] {
                let mut b = vec![0x09u8; n];
                b.extend_from_slice(&tail);
                long.push(b);
            }
        }
        let outs: Vec<&'static str> = long.par_iter().map(|b| check_bytes(run, b)).collect();
        for o in &outs {
            run.outcome(&format!("structured:{}", o));
        }
        run.states_add(long.len() as u64);
        run.set("structured_long_strings", json!(long.len()));
    }
    run.set("instruction_lists", json!(n_ops));
    run.set("representative_instructions", json!(reps.len()));
    run.sample(json!({"bytes_hex": "f20100", "expected": "rejected (non-canonical PushIC)"}));
    run.sample(json!({"bytes_hex": "b000010002", "expected": "Loop(1,2) round-trips"}));
    run.sample(json!({"ops": ["pushb <256 bytes>"], "expected": "encode returns Err (not representable)"}));
    run.assume("reference codec (harness/src/refvm.rs) transcribes the opcode table of DESIGN.md appendix C");
}

pub fn replay(run: &Run, v: &serde_json::Value) {
    match v["kind"].as_str() {
        Some("bytes") => {
            let b = hex::decode(v["bytes_hex"].as_str().unwrap_or("")).unwrap_or_default();
            println!("replay bytes {} -> {}", hx(&b), check_bytes(run, &b));
        }
        _ => println!("replay of instruction lists: re-run the check (the enumeration is deterministic)"),
    }
}
