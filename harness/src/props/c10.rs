//! C10 — MelVM executes exactly the specified semantics, deterministically.
//! E2: exhaustive enumeration of short programs over reduced alphabets, operand sweeps per opcode,
//! control-flow skeletons and environment conversion, each in lock-step with the reference VM.
use crate::guard::guard;
use crate::refvm::{env_heap, RefEnv, RV};
use crate::report::Run;
use crate::vmrun::{lockstep, opname, prog_str};
use crate::world::*;
use ethnum::U256;
use melstructs::{BlockHeight, CoinDataHeight, CoinID, CoinValue, Denom, Header, NetID, Transaction, TxKind};
use melvm::{opcode::OpCode, Covenant, CovenantEnv, VerifExecutor};
use num::BigUint;
use rayon::prelude::*;
use serde_json::json;
use std::collections::BTreeMap;
use tmelcrypt::HashVal;

pub fn sample_tx() -> Transaction {
    let (_, sk) = key(1);
    mktx(
        TxKind::Normal,
        vec![CoinID::zero_zero(), CoinID { txhash: HashVal([7; 32]).into(), index: 3 }],
        vec![out_t(10, Denom::Mel), out(cov_legacy(1).hash(), 5, Denom::Sym), out_t(1, Denom::Custom(HashVal([9; 32]).into())), out_t(7, Denom::NewCustom)],
        42,
        vec![cov_true().to_bytes(), cov_legacy(1).to_bytes()],
        b"hello".to_vec(),
    )
    .signed_ed25519(sk)
}

pub fn sample_header() -> Header {
    Header {
        network: NetID::Custom02,
        previous: HashVal([1; 32]),
        height: BlockHeight(77),
        history_hash: HashVal([2; 32]),
        coins_hash: HashVal([3; 32]),
        transactions_hash: HashVal([4; 32]),
        fee_pool: CoinValue(1234),
        fee_multiplier: 5678,
        dosc_speed: 91011,
        pools_hash: HashVal([5; 32]),
        stakes_hash: HashVal([6; 32]),
    }
}

pub fn sample_env() -> RefEnv {
    RefEnv {
        parent_coinid: CoinID { txhash: HashVal([7; 32]).into(), index: 3 },
        parent_cdh: CoinDataHeight { coin_data: out(cov_legacy(1).hash(), 555, Denom::Erg), height: BlockHeight(60) },
        spender_index: 1,
        last_header: sample_header(),
    }
}

fn heaps() -> Vec<(&'static str, BTreeMap<u16, RV>)> {
    let mut nested = BTreeMap::new();
    nested.insert(0, RV::int(5));
    nested.insert(1, RV::Bytes(vec![1, 2, 3]));
    nested.insert(2, RV::Vector(vec![RV::int(1), RV::Bytes(vec![9]), RV::Vector(vec![])]));
    vec![("empty", BTreeMap::new()), ("env", env_heap(&sample_tx(), Some(&sample_env()))), ("nested", nested)]
}

fn pi(n: u128) -> OpCode {
    OpCode::PushI(U256::from(n))
}

fn alphabets() -> Vec<(&'static str, Vec<OpCode>)> {
    use OpCode::*;
    let arith = vec![
        pi(0), pi(1), pi(2), PushI(U256::MAX), PushI(U256::ONE << 255), PushIC(U256::from(3u8)), PushIC(U256::MAX), Add, Sub, Mul, Div, Rem, And, Or, Xor, Not, Eql, Lt, Gt, Shl, Shr, Exp(0), Exp(1), Exp(255), Dup,
    ];
    let data = vec![
        pi(0), pi(1), pi(2), PushB(vec![]), PushB(vec![0xaa]), PushB(vec![0x11; 32]), VEmpty, BEmpty, VPush, VCons, VRef, VSet, VAppend, VSlice, VLength, BPush, BCons, BRef,
        BSet, BAppend, BSlice, BLength, Dup, TypeQ, ItoB, BtoI, Hash(0), Hash(32),
    ];
    let control = vec![
        pi(0), pi(1), pi(2), Dup, Add, Noop, Jmp(0), Jmp(1), Jmp(2), Bez(0), Bez(1), Bez(2), Bnz(0), Bnz(1), Bnz(2), Loop(0, 1), Loop(1, 1), Loop(2, 1), Loop(2, 2), Loop(3, 2),
        Loop(2, 0), Loop(2, 3), Store, Load, StoreImm(0), LoadImm(0), LoadImm(1), VEmpty, VPush,
    ];
    // skeletons: `pushi 1` makes every execution of an instruction visible as stack depth
    let mut skel = vec![pi(1), Jmp(0), Jmp(1), Jmp(2), Jmp(3), Bnz(0), Bnz(1), Bnz(2)];
    for i in [1u16, 2, 3] {
        for n in [0u16, 1, 2, 3, 4] {
            skel.push(Loop(i, n));
        }
    }
    vec![("arith", arith), ("data", data), ("control", control), ("skeleton", skel)]
}

fn class_of(prefix: &str, d: &crate::vmrun::Divergence) -> String {
    format!("{}/{}", prefix, d.class)
}

/// Full oracle for one program on one heap.
pub fn check_program(run: &Run, prog: &[OpCode], heap_name: &str, heap: &BTreeMap<u16, RV>, public_api: bool) -> &'static str {
    run.transition();
    let replay = json!({"program": prog.iter().map(|o| o.to_string()).collect::<Vec<_>>(), "bytes_hex": crate::refvm::ref_encode(prog).map(hex::encode), "heap": heap_name});
    let r = lockstep(prog, heap, 200_000, true);
    run.validated();
    if let Some(d) = &r.divergence {
        run.violation("C10", class_of("lockstep", d), format!("program [{}] on heap '{}': {}", prog_str(prog), heap_name, d.what), replay);
        return "diverged";
    }
    if r.capped {
        return "capped";
    }
    if public_api {
        // the public entry point agrees with the stepped execution, twice (determinism)
        let env: Vec<melvm::Value> = (0..heap.len() as u16).map(|i| heap[&i].to_real()).collect();
        let cov = Covenant::from_ops(prog);
        let a = guard(|| cov.debug_execute(&env));
        let b = guard(|| cov.debug_execute(&env));
        match (a, b) {
            (Ok(a), Ok(b)) => {
                let a = a.map(|v| RV::from_real(&v));
                let b = b.map(|v| RV::from_real(&v));
                if a != b {
                    run.violation("C10", "nondeterministic-result".into(), format!("program [{}] gave two different results", prog_str(prog)), replay);
                    return "nondet";
                }
                if a != r.result {
                    run.violation(
                        "C10",
                        format!("public-result-differs/last={}", prog.last().map(opname).unwrap_or_default()),
                        format!("program [{}]: debug_execute {:?} stepped/reference {:?}", prog_str(prog), a.map(|x| x.show()), r.result.as_ref().map(|x| x.show())),
                        replay,
                    );
                    return "public-differs";
                }
            }
            (Err(p), _) | (_, Err(p)) => {
                run.violation("C10", format!("execute-panics/{}", p.class()), format!("program [{}]: {}", prog_str(prog), p.msg), replay);
                return "panic";
            }
        }
    }
    if r.result.is_some() {
        "value"
    } else {
        "fail"
    }
}

fn enumerate(run: &Run, name: &str, alpha: &[OpCode], max_len: usize, heaps: &[(&'static str, BTreeMap<u16, RV>)]) -> u64 {
    let k = alpha.len();
    // all programs of length 1..=max_len, parallel over the first two symbols
    let firsts: Vec<Vec<usize>> = {
        let mut v: Vec<Vec<usize>> = (0..k).map(|a| vec![a]).collect();
        if max_len >= 2 {
            v.extend((0..k).flat_map(|a| (0..k).map(move |b| vec![a, b])));
        }
        v
    };
    let total: u64 = firsts
        .par_iter()
        .map(|prefix| {
            let mut count = 0u64;
            let mut hist: BTreeMap<&'static str, u64> = BTreeMap::new();
            let mut do_prog = |idx: &[usize]| {
                let prog: Vec<OpCode> = idx.iter().map(|i| alpha[*i].clone()).collect();
                for (hn, h) in heaps {
                    let o = check_program(run, &prog, hn, h, *hn != "env");
                    *hist.entry(o).or_insert(0) += 1;
                }
                count += 1;
            };
            if prefix.len() == 1 {
                do_prog(prefix);
            } else {
                // prefix of length 2, then all suffixes of length 0..=max_len-2
                let mut stack: Vec<Vec<usize>> = vec![prefix.clone()];
                while let Some(p) = stack.pop() {
                    do_prog(&p);
                    if p.len() < max_len {
                        for s in 0..k {
                            let mut q = p.clone();
                            q.push(s);
                            stack.push(q);
                        }
                    }
                }
            }
            for (o, n) in hist {
                run.outcome_n(&format!("{}:{}", name, o), n);
            }
            count
        })
        .sum();
    total
}

pub fn boundary_values() -> Vec<(String, RV)> {
    let one = BigUint::from(1u8);
    let mut v: Vec<(String, RV)> = vec![];
    for n in [0u128, 1, 2, 3, 4, 31, 32, 33, 34, 64, 65, 66, 127, 128, 255, 256, 65535, 65536] {
        v.push((format!("int {}", n), RV::int(n)));
    }
    v.push(("int 2^128-1".into(), RV::Int((&one << 128usize) - &one)));
    v.push(("int 2^128".into(), RV::Int(&one << 128usize)));
    v.push(("int 2^255-1".into(), RV::Int((&one << 255usize) - &one)));
    v.push(("int 2^255".into(), RV::Int(&one << 255usize)));
    v.push(("int 2^256-1".into(), RV::Int((&one << 256usize) - &one)));
    for l in [0usize, 1, 31, 33, 65] {
        v.push((format!("bytes len {}", l), RV::Bytes((0..l).map(|i| (i * 7 + 3) as u8).collect())));
    }
    let (pk, sk) = key(3);
    let msg = blake3::hash(b"c10 message").as_bytes().to_vec();
    let sig = sk.sign(&msg);
    v.push(("bytes msg32".into(), RV::Bytes(msg.clone())));
    v.push(("bytes pk32".into(), RV::Bytes(pk.0.to_vec())));
    v.push(("bytes sig64".into(), RV::Bytes(sig.clone())));
    let mut badsig = sig;
    badsig[0] ^= 1;
    v.push(("bytes badsig64".into(), RV::Bytes(badsig)));
    v.push(("bytes len 32 ff".into(), RV::Bytes(vec![0xff; 32])));
    for l in [0usize, 1, 2, 33] {
        v.push((format!("vec len {}", l), RV::Vector((0..l).map(|i| RV::int(i as u128 + 10)).collect())));
    }
    v.push(("vec nested".into(), RV::Vector(vec![RV::Vector(vec![RV::int(1)]), RV::Bytes(vec![1, 2]), RV::int(3)])));
    v
}

fn sweep_ops() -> Vec<(OpCode, usize)> {
    use OpCode::*;
    let mut v: Vec<(OpCode, usize)> = vec![
        (Add, 2), (Sub, 2), (Mul, 2), (Div, 2), (Rem, 2), (And, 2), (Or, 2), (Xor, 2), (Eql, 2), (Lt, 2), (Gt, 2), (Shl, 2), (Shr, 2), (Not, 1), (Store, 2), (Load, 1),
        (VRef, 2), (VAppend, 2), (VLength, 1), (VSlice, 3), (VSet, 3), (VPush, 2), (VCons, 2), (BRef, 2), (BAppend, 2), (BLength, 1), (BSlice, 3), (BSet, 3), (BPush, 2),
        (BCons, 2), (ItoB, 1), (BtoI, 1), (TypeQ, 1), (Dup, 1), (Bez(1), 1), (Bnz(1), 1), (StoreImm(7), 1),
    ];
    for k in [0u8, 1, 2, 7, 8, 127, 254, 255] {
        v.push((Exp(k), 2));
    }
    for n in [0u16, 1, 31, 32, 33, 64, 65, 65535] {
        v.push((Hash(n), 1));
    }
    for n in [0u16, 31, 32, 33, 65535] {
        v.push((SigEOk(n), 3));
    }
    v
}

/// All operand tuples from the boundary set for one opcode; operands are pushed from the heap.
fn operand_sweep(run: &Run, op: &OpCode, arity: usize, vals: &[(String, RV)], heap: &BTreeMap<u16, RV>) -> u64 {
    let n = vals.len();
    let total = n.pow(arity as u32);
    (0..total)
        .into_par_iter()
        .map(|mut t| {
            let mut prog = vec![];
            let mut names = vec![];
            for _ in 0..arity {
                let i = t % n;
                t /= n;
                prog.push(OpCode::LoadImm(100 + i as u16));
                names.push(vals[i].0.clone());
            }
            prog.push(op.clone());
            // a trailing instruction so that jumps have somewhere to go and the result is observable
            prog.push(OpCode::PushI(U256::from(9u8)));
            run.transition();
            let r = lockstep(&prog, heap, 1000, true);
            run.validated();
            if let Some(d) = &r.divergence {
                let types: Vec<&str> = names.iter().map(|s| s.split(' ').next().unwrap()).collect();
                run.violation(
                    "C10",
                    format!("operand-sweep/{}/types={}", d.class, types.join(",")),
                    format!("{} with operands (pushed first..last) {:?}: {}", op, names, d.what),
                    json!({"op": op.to_string(), "operands_pushed_in_order": names}),
                );
            }
            1u64
        })
        .sum()
}

fn env_conversion(run: &Run) -> u64 {
    // (iv) Value::from(tx / header / coin data) against the hand-written expected heap
    let mut n = 0;
    let kinds = [TxKind::Normal, TxKind::Stake, TxKind::DoscMint, TxKind::Swap, TxKind::LiqDeposit, TxKind::LiqWithdraw, TxKind::Faucet];
    let denoms = [Denom::Mel, Denom::Sym, Denom::Erg, Denom::NewCustom, Denom::Custom(HashVal([0xcd; 32]).into())];
    for kind in kinds {
        for (di, denom) in denoms.iter().enumerate() {
            for n_in in [0usize, 1, 3] {
                for n_sig in [0usize, 2] {
                    let mut tx = sample_tx();
                    tx.kind = kind;
                    tx.inputs = (0..n_in).map(|i| CoinID { txhash: HashVal([i as u8 + 1; 32]).into(), index: (i * 100) as u8 }).collect();
                    tx.outputs[1].denom = *denom;
                    tx.outputs[1].additional_data = vec![di as u8; di].into();
                    tx.outputs[0].value = CoinValue(1u128 << (di * 30));
                    tx.fee = CoinValue(u128::MAX >> (di * 13));
                    tx.sigs = (0..n_sig).map(|i| vec![i as u8; 64].into()).collect();
                    tx.data = vec![0x42; n_in * 20].into();
                    for with_env in [false, true] {
                        let mut env = sample_env();
                        env.parent_cdh.coin_data.denom = *denom;
                        env.parent_cdh.coin_data.value = CoinValue(u128::MAX >> di);
                        env.parent_cdh.coin_data.additional_data = vec![1, 2, 3].into();
                        env.spender_index = (n_in * 50) as u64;
                        env.last_header.network = if di % 2 == 0 { NetID::Mainnet } else { NetID::Testnet };
                        env.last_header.fee_multiplier = u128::MAX - di as u128;
                        let real_env = CovenantEnv {
                            parent_coinid: env.parent_coinid,
                            parent_cdh: env.parent_cdh.clone(),
                            spender_index: env.spender_index as u8,
                            last_header: env.last_header,
                        };
                        run.transition();
                        let real = guard(|| VerifExecutor::new_from_env(vec![], tx.clone(), if with_env { Some(real_env.clone()) } else { None }));
                        let expected = env_heap(&tx, if with_env { Some(&env) } else { None });
                        match real {
                            Err(p) => run.violation("C10", format!("env-conversion-panics/{}", p.class()), p.msg, json!({"tx": tx_json(&tx)})),
                            Ok(ex) => {
                                run.validated();
                                let got: BTreeMap<u16, RV> = ex.heap.iter().map(|(k, v)| (*k, RV::from_real(v))).collect();
                                if got != expected {
                                    let slot = (0u16..=10).find(|k| got.get(k) != expected.get(k));
                                    run.violation(
                                        "C10",
                                        format!("env-heap-differs/slot={:?}", slot),
                                        format!("heap slot {:?}: real {:?} expected {:?}", slot, slot.and_then(|s| got.get(&s)).map(|x| x.show()), slot.and_then(|s| expected.get(&s)).map(|x| x.show())),
                                        json!({"tx": tx_json(&tx), "with_env": with_env}),
                                    );
                                }
                            }
                        }
                        n += 1;
                    }
                }
            }
        }
    }
    n
}

/// `mcheck __child c10exec <alphabet index>`: every program of up to three instructions over one alphabet, one after the other on
/// one thread, through `Covenant::execute(transaction, environment)` - the entry point consensus uses - against the reference
/// interpreter on the environment heap.  What one execution leaves behind on its thread (a re-used interpreter, a spare stack)
/// is met by the next one; a program that runs away takes this child with it, not the check.
pub fn child_main(args: &[String]) {
    use crate::refvm::RefVm;
    let ai: usize = args.first().and_then(|s| s.parse().ok()).unwrap_or(0);
    let (name, alpha) = alphabets().into_iter().nth(ai).expect("alphabet index");
    let heap = env_heap(&sample_tx(), Some(&sample_env()));
    let e = sample_env();
    let real_env = CovenantEnv { parent_coinid: e.parent_coinid, parent_cdh: e.parent_cdh.clone(), spender_index: e.spender_index as u8, last_header: e.last_header };
    let tx = sample_tx();
    let k = alpha.len();
    let mut n = 0u64;
    let mut idx: Vec<usize> = vec![0];
    let out = loop {
        let prog: Vec<OpCode> = idx.iter().map(|i| alpha[*i].clone()).collect();
        let mut vm = RefVm::new(prog.clone(), heap.clone());
        let mut ok = true;
        let mut steps = 0;
        while !vm.done() {
            steps += 1;
            if steps > 200_000 || vm.step().is_none() {
                ok = false;
                break;
            }
        }
        if steps <= 200_000 {
            let want = if ok { vm.stack.pop() } else { None };
            let got = match guard(|| Covenant::from_ops(&prog).execute(&tx, Some(real_env.clone()))) {
                Ok(v) => v.map(|v| RV::from_real(&v)),
                Err(p) => break json!({"alphabet": name, "programs": n, "mismatch": {"program": prog_str(&prog), "got": format!("panic: {}", p.msg), "want": want.map(|x| x.show())}}),
            };
            n += 1;
            if got != want {
                break json!({"alphabet": name, "programs": n, "mismatch": {"program": prog_str(&prog), "got": got.map(|x| x.show()), "want": want.map(|x| x.show())}});
            }
        }
        // next program in length-lexicographic order
        let mut pos = idx.len();
        let mut done = false;
        loop {
            if pos == 0 {
                if idx.len() == 3 {
                    done = true;
                } else {
                    idx = vec![0; idx.len() + 1];
                }
                break;
            }
            pos -= 1;
            if idx[pos] + 1 < k {
                idx[pos] += 1;
                for j in pos + 1..idx.len() {
                    idx[j] = 0;
                }
                break;
            }
        }
        if done {
            break json!({"alphabet": name, "programs": n});
        }
    };
    println!("{}", out);
}

/// Runs the four children of `child_main` (3 GiB of address space and two minutes each).
fn execute_sequences(run: &Run) {
    let names: Vec<&'static str> = alphabets().iter().map(|a| a.0).collect();
    let results: Vec<(usize, crate::child::ChildOutcome)> = (0..names.len()).into_par_iter().map(|i| (i, crate::child::run_child(&["c10exec".to_string(), i.to_string()], 120.0, 3 << 30))).collect();
    let mut total = 0u64;
    for (i, r) in results {
        match r {
            crate::child::ChildOutcome::Done(v) => {
                let n = v["programs"].as_u64().unwrap_or(0);
                total += n;
                run.transitions_add(n);
                run.validated_add(n);
                if !v["mismatch"].is_null() {
                    run.violation(
                        "C10",
                        "execute-differs-from-reference/in-a-sequence".into(),
                        format!("alphabet {}: after {} programs executed one after the other through Covenant::execute on one thread, [{}] gives {} - the reference gives {}", names[i], n, v["mismatch"]["program"].as_str().unwrap_or(""), v["mismatch"]["got"], v["mismatch"]["want"]),
                        json!({"alphabet": names[i], "programs_before": n, "mismatch": v["mismatch"]}),
                    );
                } else {
                    run.outcome_n("execute-sequence:agrees", n);
                }
            }
            crate::child::ChildOutcome::Timeout(t) => {
                run.outcome("execute-sequence:child-timed-out");
                run.violation("C11", "execute-sequence/no-termination-within-deadline".into(), format!("alphabet {}: the sequence of all programs of up to three instructions through Covenant::execute did not finish within {:.0} s (each program weighs a few dozen units)", names[i], t), json!({"alphabet": names[i]}));
            }
            crate::child::ChildOutcome::Signal(sig, msg) => {
                run.outcome("execute-sequence:child-killed");
                run.violation("C11", format!("execute-sequence/process-killed-signal-{}", sig), format!("alphabet {}: the sequence of all programs of up to three instructions through Covenant::execute killed its process (3 GiB of address space): {}", names[i], msg), json!({"alphabet": names[i]}));
            }
            crate::child::ChildOutcome::Broken(b) => run.machinery_failure(&format!("C10 execute-sequence child {}: {}", names[i], b)),
        }
    }
    run.set("execute_sequences", json!({"what": "every program of <= 3 instructions per alphabet, one after the other on one thread of a child process, through Covenant::execute on the environment heap against the reference interpreter", "programs": total}));
}

/// Supplement, *sampling* (labelled so in the evidence): covenants are executed by many validation threads at once, so
/// "a deterministic function of bytecode, transaction and environment" includes "whatever the other threads are executing".
/// Twelve threads run the same pool of signature-checking and hashing programs (tens of thousands of distinct operands,
/// half of the signatures invalid by one flipped bit) in different orders; every result is compared with the reference
/// interpreter's, computed beforehand on one thread.  Interleavings are free-running - this is not an exhaustive exploration.
fn concurrent_executions(run: &Run, thorough: bool) {
    use crate::refvm::RefVm;
    use OpCode::*;
    let n: u32 = if thorough { 40_000 } else { 8_000 };
    let (pk, sk) = key(1);
    let mut cases: Vec<(Vec<OpCode>, Option<RV>, &'static str)> = Vec::with_capacity(n as usize * 2);
    for i in 0..n {
        let msg = (i as u64).to_be_bytes().to_vec();
        let sig: Vec<u8> = sk.sign(&msg).to_vec();
        let mut bad = sig.clone();
        bad[(i as usize) % 64] ^= 1 << (i % 8);
        let chosen = if i % 2 == 0 { sig } else { bad };
        cases.push((vec![PushB(chosen), PushB(pk.0.to_vec()), PushB(msg.clone()), SigEOk(32)], None, "sigeok"));
        if i % 4 == 0 {
            cases.push((vec![PushB(msg), Hash(64)], None, "hash"));
        }
    }
    let empty = BTreeMap::new();
    // reference verdicts, sequentially, by the reference interpreter alone
    for c in cases.iter_mut() {
        let mut vm = RefVm::new(c.0.clone(), empty.clone());
        let mut ok = true;
        while !vm.done() {
            if vm.step().is_none() {
                ok = false;
                break;
            }
        }
        c.1 = if ok { vm.stack.pop() } else { None };
    }
    let threads = 12usize;
    let wrong = std::sync::atomic::AtomicU64::new(0);
    let first: parking_lot::Mutex<Option<(usize, String)>> = parking_lot::Mutex::new(None);
    let barrier = std::sync::Barrier::new(threads);
    std::thread::scope(|s| {
        for t in 0..threads {
            let (cases, wrong, first, barrier) = (&cases, &wrong, &first, &barrier);
            s.spawn(move || {
                barrier.wait();
                let len = cases.len();
                // every thread walks the whole pool, from its own offset and with its own stride (odd strides are coprime to
                // nothing in particular; two passes with different strides cover every case twice per thread)
                // first a small pool hammered many times (what one execution leaves in a process-wide table is met again soon,
                // by all threads), then the whole pool twice
                let small = 512.min(len);
                let mut order: Vec<usize> = Vec::with_capacity(small * 40 + len * 2);
                for pass in 0..40usize {
                    for j in 0..small {
                        order.push((j * (2 * pass + 1) + t * 37 + pass) % small);
                    }
                }
                for (pass, stride) in [(0usize, 1usize), (1, 7919)] {
                    for j in 0..len {
                        order.push((j * stride + t * (len / threads) + pass) % len);
                    }
                }
                {
                    for i in order {
                        let c = &cases[i];
                        let got = guard(|| Covenant::from_ops(&c.0).debug_execute(&[])).ok().flatten().map(|v| RV::from_real(&v));
                        run.transition();
                        run.validated();
                        if got != c.1 {
                            wrong.fetch_add(1, std::sync::atomic::Ordering::Relaxed);
                            first.lock().get_or_insert((i, format!("{:?} (reference {:?})", got.map(|x| x.show()), c.1.as_ref().map(|x| x.show()))));
                        }
                    }
                }
            });
        }
    });
    let w = wrong.load(std::sync::atomic::Ordering::Relaxed);
    run.set("concurrent_executions", json!({"kind": "sampling of schedules (free-running threads), not exhaustive", "threads": threads, "distinct_programs": cases.len(), "executions": (cases.len() * 2 + 512 * 40) * threads, "small_pool": {"programs": 512, "passes": 40}, "wrong_results": w}));
    if let Some((i, what)) = first.into_inner() {
        let c = &cases[i];
        run.violation(
            "C10",
            format!("concurrent-execution-differs/{}", c.2),
            format!("{} of {} executions on {} concurrent threads gave a result other than the reference, e.g. [{}]: {}", w, cases.len() * threads * 2, threads, prog_str(&c.0), what),
            json!({"program": c.0.iter().map(|o| o.to_string()).collect::<Vec<_>>(), "threads": threads}),
        );
    }
    run.outcome(if w == 0 { "concurrent-executions:all-equal-the-reference" } else { "concurrent-executions:deviating" });
}

pub fn run(run: &Run) {
    let thorough = run.thorough();
    let hs = heaps();
    let mut alpha_desc = vec![];
    for (name, alpha) in alphabets() {
        let max_len = match (name, thorough) {
            ("arith", false) => 4,
            ("arith", true) => 5,
            ("data", false) => 4,
            ("data", true) => 5,
            ("control", false) => 4,
            ("control", true) => 5,
            ("skeleton", false) => 4,
            ("skeleton", true) => 5,
            _ => 3,
        };
        let n = enumerate(run, name, &alpha, max_len, &hs);
        run.states_add(n);
        alpha_desc.push(json!({"alphabet": name, "symbols": alpha.iter().map(|o| o.to_string()).collect::<Vec<_>>(), "max_len_completed": max_len, "programs": n}));
    }
    run.set("program_enumeration", json!(alpha_desc));
    run.set("initial_heaps", json!(["empty", "env (transaction + covenant environment)", "nested data"]));
    // operand sweeps
    let vals = boundary_values();
    let mut heap = BTreeMap::new();
    for (i, (_, v)) in vals.iter().enumerate() {
        heap.insert(100 + i as u16, v.clone());
    }
    let mut sweeps = 0u64;
    for (op, arity) in sweep_ops() {
        if !thorough && arity == 3 && !matches!(op, OpCode::SigEOk(32) | OpCode::VSlice | OpCode::BSlice | OpCode::VSet | OpCode::BSet) {
            continue;
        }
        sweeps += operand_sweep(run, &op, arity, &vals, &heap);
    }
    run.states_add(sweeps);
    run.set("operand_sweep_cases", json!(sweeps));
    run.set("boundary_values", json!(vals.iter().map(|v| v.0.clone()).collect::<Vec<_>>()));
    // strings longer than a 16-bit count can express (built by doubling inside the VM) under the length-bounded and indexed opcodes
    {
        use OpCode::*;
        let empty: BTreeMap<u16, RV> = BTreeMap::new();
        let mut long_cases = 0u64;
        for k in [15u16, 16, 17] {
            let build = vec![PushB(vec![7]), Loop(k, 2), Dup, BAppend];
            let tails: Vec<Vec<OpCode>> = vec![
                vec![Hash(65535)],
                vec![Hash(65534)],
                vec![Hash(32)],
                vec![BLength],
                vec![StoreImm(50), pi(65535), LoadImm(50), BRef],
                vec![StoreImm(50), pi(65536), LoadImm(50), BRef],
                vec![StoreImm(50), pi(0), pi(65536), LoadImm(50), BSlice, BLength],
                vec![StoreImm(50), PushB(vec![0; 64]), PushB(vec![1; 32]), LoadImm(50), SigEOk(65535)],
                vec![StoreImm(50), LoadImm(50), PushB(vec![1; 32]), PushB(vec![0; 64]), SigEOk(65535)],
                vec![StoreImm(50), PushB(vec![0; 64]), LoadImm(50), PushB(vec![2; 5]), SigEOk(65535)],
                vec![BtoI],
                vec![Dup, BAppend, BLength],
            ];
            for t in tails {
                let mut p = build.clone();
                p.extend(t);
                run.outcome(&format!("long-string:{}", check_program(run, &p, "empty", &empty, true)));
                long_cases += 1;
            }
        }
        run.states_add(long_cases);
        run.set("long_string_programs", json!({"doublings": [15, 16, 17], "cases": long_cases}));
    }
    execute_sequences(run);
    concurrent_executions(run, thorough);
    let envs = env_conversion(run);
    run.states_add(envs);
    run.set("env_conversion_cases", json!(envs));
    run.sample(json!({"program": "pushi 2; pushi 1; sub", "expected": "stack top = 2^256-1 (x=top=1, y=2 => x - y wraps)"}));
    run.sample(json!({"program": "loop 2 1; pushi 1", "expected": "pushes 1 twice"}));
    run.sample(json!({"op": "exp 7", "operands": ["int 256 (9 bits)", "int 2"], "expected": "fails: exponent has more than 8 significant bits"}));
    run.assume("reference interpreter harness/src/refvm.rs encodes DESIGN.md appendix C; shifts reduce the amount mod 256 (implementation-defined point)");
    run.assume("the interpreter is sequential; what concurrent executions share (process-wide memos) is only sampled (concurrent_executions), not explored");
}

pub fn replay(run: &Run, v: &serde_json::Value) {
    if let Some(hexs) = v["bytes_hex"].as_str() {
        if let Some(ops) = hex::decode(hexs).ok().and_then(|b| crate::refvm::ref_decode(&b)) {
            let hs = heaps();
            let hn = v["heap"].as_str().unwrap_or("empty");
            let h = hs.iter().find(|(n, _)| *n == hn).unwrap_or(&hs[0]);
            println!("replay [{}] on heap {} -> {}", prog_str(&ops), h.0, check_program(run, &ops, h.0, &h.1, h.0 != "env"));
            return;
        }
    }
    println!("this case has no byte encoding; re-run the check (the enumeration is deterministic)");
}
