//! C16 — built-in pools always exist with reserves; liquidity tokens stay fully backed.
use crate::alphabet::AlphaCfg;
use crate::alphabet::actions;
use crate::props::e1::*;
use crate::stf::*;
use crate::world::{out_t, tx_t};
use crate::report::Run;
use melstructs::{Denom, NetID, PoolKey, Transaction};
use serde_json::json;

fn cfg_liquidity() -> AlphaCfg {
    let mut c = crate::props::c01::pool_cfg();
    c.transfers = false;
    c.overpay = false;
    c.mints = true;
    c.swaps = true;
    c.max_txs_per_block = 2;
    c.seal_actions = vec![None];
    c
}

/// Deposits and withdrawals only, on two pools, three requests per block: several requests per pool interleaved with another pool's.
fn cfg_two_pools() -> AlphaCfg {
    let mut c = cfg_liquidity();
    c.swaps = false;
    c.mints = false;
    c.max_txs_per_block = 3;
    c.only_pools = Some(vec![PoolKey::new(Denom::Mel, Denom::Sym), PoolKey::new(Denom::Mel, Denom::Erg)]);
    c
}

/// Testnet before TIP-902: the ERG/SYM pool does not exist yet and can be created, and emptied, by users before it becomes built-in at 500.
fn cfg_ergsym_before_902() -> AlphaCfg {
    let mut c = cfg_liquidity();
    c.swaps = false;
    c.mints = false;
    c.max_txs_per_block = 1;
    c.only_pools = Some(vec![PoolKey::new(Denom::Erg, Denom::Sym)]);
    c.jump_to = Some(498);
    c
}

pub fn scenarios(thorough: bool) -> Vec<Scenario> {
    let mut v = vec![sc("custom02-liquidity", NetID::Custom02, 0, cfg_liquidity(), if thorough { 11 } else { 8 })];
    v.push(sc("custom02-two-pools-three-requests-per-block", NetID::Custom02, 0, cfg_two_pools(), if thorough { 11 } else { 10 }));
    v.push(sc("testnet-ergsym-before-tip902", NetID::Testnet, 0, cfg_ergsym_before_902(), if thorough { 13 } else { 11 }));
    // near-requests (a deposit with its sides exchanged, a withdrawal with change to another address) among the genuine ones
    let mut odd = cfg_liquidity();
    odd.odd_shapes = true;
    odd.swaps = false;
    v.push(sc("custom02-liquidity-with-near-requests", NetID::Custom02, 0, odd, if thorough { 9 } else { 7 }));
    // liquidity tokens are coins like any other: moved, moved on within the batch, and claimed twice within the batch (hostile pairs)
    let mut mv = cfg_liquidity();
    mv.transfers = true;
    mv.pairs = true;
    mv.swaps = false;
    mv.mints = false;
    mv.per_denom = 1;
    mv.max_txs_per_block = 3;
    v.push(sc("custom02-liquidity-tokens-moved-and-claimed-twice", NetID::Custom02, 0, mv.clone(), if thorough { 7 } else { 6 }));
    // the same from a state in which the wallet holds *all* the liquidity of a pool of its own (a second copy of its tokens
    // then exceeds the pool's record at once)
    let mut own = sc("custom02-own-pool-tokens-moved-and-claimed-twice", NetID::Custom02, 0, mv.clone(), if thorough { 5 } else { 4 });
    own.setup_labels = vec!["open", "mint(", "seal(None)", "open", "deposit[MEL/C", "seal(None)"];
    v.push(own);
    // with fees, hostile members (a transfer that pays too little, ...) and refusals followed: what a refused attempt to move
    // liquidity tokens leaves behind is met by the next seal
    let mut fr = mv;
    fr.adversarial = true;
    fr.pairs = false;
    fr.max_txs_per_block = 2;
    let mut frs = sc("custom02-fees-liquidity-tokens-refusals-followed", NetID::Custom02, 65536, fr.clone(), if thorough { 7 } else { 6 });
    frs.follow_rejected = true;
    v.push(frs);
    let mut fro = sc("custom02-fees-own-pool-tokens-refusals-followed", NetID::Custom02, 65536, fr, if thorough { 5 } else { 4 });
    fro.follow_rejected = true;
    fro.setup_labels = vec!["open", "mint(", "seal(None)", "open", "deposit[MEL/C", "seal(None)"];
    v.push(fro);
    v.extend(genesis_scenarios(["custom02-genesis-sym-feepool-stake", "custom02-genesis-erg-fees-stakes", "custom02-genesis-huge-mel-feepool"], NetID::Custom02, &cfg_liquidity(), if thorough { 8 } else { 6 }));
    if thorough {
        v.push(sc("testnet-liquidity", NetID::Testnet, 0, cfg_liquidity(), 8));
        v.push(sc("mainnet-liquidity", NetID::Mainnet, 0, cfg_liquidity(), 8));
        v.push(sc("custom02-liquidity-fees", NetID::Custom02, 65536, cfg_liquidity(), 8));
    }
    v
}

/// A custom pool whose liquidity is entirely held by the wallet in two coins, next to liquidity tokens of a built-in pool; from there
/// every block of up to three withdrawal requests (each in two hash variants) is explored.
pub fn custom_pool_withdrawals(run: &Run, thorough: bool) {
    let (_w, rootn) = root(NetID::Custom02, 0, true);
    let scratch = Run::new("scratch", "quick");
    let mut cfg = cfg_liquidity();
    cfg.swaps = false;
    cfg.max_txs_per_block = 3;
    // (the swap makes the reserves uneven, so that pro-rata shares have fractional parts)
    let prefix = ["open", "mint(", "seal(None)", "open", "deposit[MEL/C", "deposit-small[MEL/C", "deposit[MEL/SYM:canonical]", "seal(None)", "open", "deposit-small[MEL/C", "seal(None)", "open", "swap[MEL/C", "seal(None)"];
    let mut prefix_cfg = cfg.clone();
    prefix_cfg.swaps = true;
    let start = match advance_by_labels(&scratch, rootn, &prefix_cfg, &prefix) {
        Some(n) => n,
        None => {
            run.outcome("custom-pool-prefix-unavailable");
            return;
        }
    };
    let mut c2 = cfg.clone();
    c2.deposits = false;
    c2.mints = false;
    c2.request_variants = true;
    let eng = Engine::new(run);
    if let StepOut::Next(o) = Engine::new(&scratch).step(&start, &Action::Open) {
        run.set("alphabet_after_custom_pool_prefix", json!(actions(&o, &c2).iter().map(|a| a.label()).collect::<Vec<_>>()));
        run.set("wallet_after_custom_pool_prefix", json!(crate::alphabet::wallet(&o.model).iter().map(|(id, c)| format!("{} {} {}", id, c.coin_data.value.0, crate::alphabet::dn(c.coin_data.denom))).collect::<Vec<_>>()));
        run.set("path_of_custom_pool_prefix", json!(o.path_str()));
    }
    let acts = move |n: &Node| actions(n, &c2);
    let visit = |_n: &Node| {};
    let st = bfs(&eng, vec![start], if thorough { 8 } else { 5 }, 500_000, &acts, &visit);
    run.set("scenario:custom-pool-withdrawals", json!({"prefix": prefix, "depth_bound_completed": st.depth_completed, "unique_states": st.states, "transitions": st.transitions}));
    println!("  scenario custom-pool-withdrawals: depth {} states {} transitions {}", st.depth_completed, st.states, st.transitions);
}

/// Liquidity tokens of the built-in pools that the pools never issued (a faucet can mint any denomination off mainnet):
/// withdrawals that, alone or together in one block, claim all of a built-in pool's recorded liquidity.
pub fn unissued_liquidity_tokens(run: &Run, thorough: bool) {
    let (_w, rootn) = root(NetID::Custom02, 0, true);
    let mut eng = Engine::new(run);
    // the faucet below breaks the backing invariant by construction (faucets are not among the histories C16 quantifies over);
    // what is checked here is the first half of the property: the built-in pools keep non-zero reserves
    eng.check_backing = false;
    let open = match eng.step(&rootn, &Action::Open) {
        StepOut::Next(x) => x,
        _ => return,
    };
    let mut outs = vec![];
    for k in [PoolKey::new(Denom::Mel, Denom::Sym), PoolKey::new(Denom::Mel, Denom::Erg), PoolKey::new(Denom::Erg, Denom::Sym)] {
        for a in [600_000_000u128, 400_000_000, 1_000_000_000] {
            outs.push(out_t(a, k.liq_token_denom()));
        }
    }
    for i in 0..12u128 {
        outs.push(out_t(500 + i, Denom::Mel));
    }
    let f = tx_t(melstructs::TxKind::Faucet, vec![], outs, 0, b"unissued-liq".to_vec());
    let start = match eng.step(&open, &Action::Batch { label: "faucet(liquidity tokens of the three built-in pools)".into(), txs: vec![f], expect_ok: true }) {
        StepOut::Next(x) => x,
        _ => {
            run.outcome("unissued-liquidity:faucet-rejected");
            return;
        }
    };
    let mut cfg = cfg_liquidity();
    cfg.swaps = false;
    cfg.deposits = false;
    cfg.mints = false;
    cfg.max_txs_per_block = 3;
    let acts = move |n: &Node| actions(n, &cfg);
    let visit = |_n: &Node| {};
    let st = bfs(&eng, vec![start], if thorough { 8 } else { 5 }, 300_000, &acts, &visit);
    run.set("scenario:unissued-liquidity-tokens", json!({"depth_bound_completed": st.depth_completed, "unique_states": st.states, "transitions": st.transitions}));
    println!("  scenario unissued-liquidity-tokens: depth {} states {} transitions {}", st.depth_completed, st.states, st.transitions);
}

/// Deposits and withdrawals of amounts near the maximum coin value (2^110, 2^100) into the built-in MEL/SYM pool, several per block.
pub fn huge_liquidity(run: &Run, thorough: bool) {
    let rootn = root_huge(NetID::Custom02);
    let mut cfg = cfg_liquidity();
    cfg.mints = false;
    cfg.swaps = false;
    cfg.max_txs_per_block = 3;
    cfg.only_pools = Some(vec![PoolKey::new(Denom::Mel, Denom::Sym)]);
    let eng = Engine::new(run);
    let c2 = cfg.clone();
    let acts = move |n: &Node| actions(n, &c2);
    let visit = |_n: &Node| {};
    let st = bfs(&eng, vec![rootn], if thorough { 9 } else { 7 }, 400_000, &acts, &visit);
    run.set("scenario:custom02-huge-liquidity", json!({"depth_bound_completed": st.depth_completed, "unique_states": st.states, "transitions": st.transitions}));
    println!("  scenario custom02-huge-liquidity: depth {} states {} transitions {}", st.depth_completed, st.states, st.transitions);
}

/// A pool created with lopsided reserves (2^120 against 1) and then given a deposit of 2^120 on both sides: the liquidity minted
/// for the second deposit, 2^120 x sqrt(2^240 / 2^120), does not fit 128 bits.  Every liquidity token handed out must still be
/// backed by the pool's record.
pub fn lopsided_huge_pool(run: &Run) {
    use melstructs::TxKind;
    let big: u128 = 1 << 120;
    let (_w, rootn) = root(NetID::Custom02, 0, false);
    let eng = Engine::new(run);
    let fund = tx_t(TxKind::Faucet, vec![], vec![out_t(big, Denom::Mel), out_t(big, Denom::Mel), out_t(5000, Denom::Mel), out_t(5001, Denom::Mel), out_t(5002, Denom::Mel)], 0, vec![0x10, 0x9d]);
    let mint = tx_t(TxKind::Normal, vec![fund.output_coinid(2)], vec![out_t(5000, Denom::Mel), out_t(1, Denom::NewCustom), out_t(big, Denom::NewCustom), out_t(big, Denom::NewCustom)], 0, vec![0x9e]);
    let token = Denom::Custom(mint.hash_nosigs());
    let pool = PoolKey::new(Denom::Mel, token);
    let dep_a = tx_t(TxKind::LiqDeposit, vec![fund.output_coinid(0), mint.output_coinid(1)], vec![out_t(big, Denom::Mel), out_t(1, token)], 0, pool.to_bytes().to_vec());
    let dep_b = tx_t(TxKind::LiqDeposit, vec![fund.output_coinid(1), mint.output_coinid(2)], vec![out_t(big, Denom::Mel), out_t(big, token)], 0, pool.to_bytes().to_vec());
    let liq = pool.liq_token_denom();
    let script: Vec<Action> = vec![
        Action::Open,
        Action::Batch { label: "faucet of two coins of 2^120 MEL".into(), txs: vec![fund.clone()], expect_ok: true },
        Action::Batch { label: "mint of a token: coins of 1, 2^120 and 2^120".into(), txs: vec![mint.clone()], expect_ok: true },
        Action::Seal(None),
        Action::Open,
        Action::Batch { label: "deposit of 2^120 MEL against 1 token (creates the pool)".into(), txs: vec![dep_a.clone()], expect_ok: true },
        Action::Seal(None),
        Action::Open,
        Action::Batch { label: "deposit of 2^120 MEL and 2^120 tokens".into(), txs: vec![dep_b.clone()], expect_ok: true },
        Action::Seal(None),
        Action::Open,
        // the first provider redeems; then the second one
        Action::Batch { label: "first provider withdraws its 2^120 liquidity tokens".into(), txs: vec![tx_t(TxKind::LiqWithdraw, vec![dep_a.output_coinid(0), fund.output_coinid(3)], vec![out_t(big, liq), out_t(5001, Denom::Mel)], 0, pool.to_bytes().to_vec())], expect_ok: true },
        Action::Seal(None),
        Action::Open,
        Action::Seal(None),
    ];
    let mut node = rootn;
    let mut taken = 0;
    for a in &script {
        match eng.step(&node, a) {
            StepOut::Next(n) => {
                node = n;
                taken += 1;
            }
            StepOut::Rejected => run.outcome(&format!("lopsided-huge-pool:step-refused:{}", a.label())),
            StepOut::Pruned => {
                run.outcome("lopsided-huge-pool:engine-reported");
                break;
            }
        }
    }
    run.states_add(taken);
    let p = node.model.pools.get(&pool).map(|p| json!({"lefts": p.lefts.to_string(), "rights": p.rights.to_string(), "liqs": p.liqs.to_string()}));
    run.set("scenario:lopsided-huge-pool", json!({"steps_taken": taken, "of": script.len(), "pool_at_the_end": p}));
    println!("  scenario lopsided-huge-pool: {} of {} steps", taken, script.len());
}

/// Histories of one user pool at the edge of its 128-bit liquidity record: created lopsided (2^k against 1), then given two
/// further deposits from a small grid, one block each - among them the ones where every single mint fits 128 bits but the record
/// plus the mint does not - and finally the first provider redeems.  Every state goes through the engine's oracles (liquidity
/// tokens in coins <= the pool's record, reserves non-zero, lock-step with the reference settlement).
pub fn huge_pool_histories(run: &Run, thorough: bool) {
    use melstructs::TxKind;
    let creations: Vec<(u128, u128)> = if thorough { vec![(1 << 100, 1), (1 << 110, 1), (1 << 118, 1), (1 << 120, 1), (1 << 118, 3)] } else { vec![(1 << 110, 1), (1 << 118, 1), (1 << 120, 1)] };
    let deposits: Vec<(u128, u128)> = if thorough { vec![(1 << 60, 1), (1 << 68, 1 << 68), (1 << 93, 1 << 93), (1 << 120, 1 << 120), (1 << 119, 1 << 10), (1 << 80, 1 << 100)] } else { vec![(1 << 68, 1 << 68), (1 << 93, 1 << 93), (1 << 120, 1 << 120), (1 << 60, 1)] };
    let eng = Engine::new(run);
    let mut histories = 0u64;
    let mut settled_all = 0u64;
    for (ci, c) in creations.iter().enumerate() {
        for (i1, d1) in deposits.iter().enumerate() {
            for (i2, d2) in deposits.iter().enumerate() {
                let (_w, rootn) = root(NetID::Custom02, 0, false);
                let tag = vec![0x10, 0xa0, ci as u8, i1 as u8, i2 as u8];
                let fund = tx_t(TxKind::Faucet, vec![], vec![out_t(c.0, Denom::Mel), out_t(d1.0, Denom::Mel), out_t(d2.0, Denom::Mel), out_t(5000, Denom::Mel), out_t(5001, Denom::Mel)], 0, tag.clone());
                let mint = tx_t(TxKind::Normal, vec![fund.output_coinid(3)], vec![out_t(5000, Denom::Mel), out_t(c.1, Denom::NewCustom), out_t(d1.1, Denom::NewCustom), out_t(d2.1, Denom::NewCustom)], 0, tag.clone());
                let token = Denom::Custom(mint.hash_nosigs());
                let pool = PoolKey::new(Denom::Mel, token);
                let side = |mel: u128, tok: u128| if pool.left() == Denom::Mel { vec![out_t(mel, Denom::Mel), out_t(tok, token)] } else { vec![out_t(tok, token), out_t(mel, Denom::Mel)] };
                let ins = |k: u8| if pool.left() == Denom::Mel { vec![fund.output_coinid(k), mint.output_coinid(k + 1)] } else { vec![mint.output_coinid(k + 1), fund.output_coinid(k)] };
                let dep = |k: u8, a: (u128, u128)| tx_t(TxKind::LiqDeposit, ins(k), side(a.0, a.1), 0, pool.to_bytes().to_vec());
                let (da, db, dc) = (dep(0, *c), dep(1, *d1), dep(2, *d2));
                let liq = pool.liq_token_denom();
                let mut script: Vec<Action> = vec![
                    Action::Open,
                    Action::Batch { label: format!("faucet of MEL coins {} / {} / {}", c.0, d1.0, d2.0), txs: vec![fund.clone()], expect_ok: true },
                    Action::Batch { label: format!("mint of a token: coins of {} / {} / {}", c.1, d1.1, d2.1), txs: vec![mint.clone()], expect_ok: true },
                    Action::Seal(None),
                ];
                for (name, d) in [("creating deposit", &da), ("second deposit", &db), ("third deposit", &dc)] {
                    script.push(Action::Open);
                    script.push(Action::Batch { label: format!("{} {}:{}", name, d.outputs[0].value.0, d.outputs[1].value.0), txs: vec![d.clone()], expect_ok: true });
                    script.push(Action::Seal(None));
                }
                let mut node = rootn;
                let mut taken = 0u64;
                let mut ended = false;
                for a in &script {
                    match eng.step(&node, a) {
                        StepOut::Next(n) => {
                            node = n;
                            taken += 1;
                        }
                        StepOut::Rejected => run.outcome("huge-pool-history:step-refused"),
                        StepOut::Pruned => {
                            run.outcome("huge-pool-history:engine-reported");
                            ended = true;
                            break;
                        }
                    }
                }
                if !ended {
                    // the first provider redeems whatever its deposit coin has become (a liquidity token if the deposit was settled)
                    let held = node.model.coins.get(&da.output_coinid(0)).map(|c| (c.coin_data.denom, c.coin_data.value.0));
                    if let Some((d, v)) = held {
                        if d == liq && v > 0 {
                            let wd = tx_t(TxKind::LiqWithdraw, vec![da.output_coinid(0), fund.output_coinid(4)], vec![out_t(v, liq), out_t(5001, Denom::Mel)], 0, pool.to_bytes().to_vec());
                            for a in [Action::Open, Action::Batch { label: "first provider withdraws".into(), txs: vec![wd], expect_ok: true }, Action::Seal(None), Action::Open, Action::Seal(None)] {
                                match eng.step(&node, &a) {
                                    StepOut::Next(n) => {
                                        node = n;
                                        taken += 1;
                                    }
                                    StepOut::Rejected => run.outcome("huge-pool-history:step-refused"),
                                    StepOut::Pruned => {
                                        run.outcome("huge-pool-history:engine-reported");
                                        break;
                                    }
                                }
                            }
                        }
                    }
                    let tokens: u128 = [&da, &db, &dc].iter().filter_map(|d| node.model.coins.get(&d.output_coinid(0))).filter(|c| c.coin_data.denom == liq).count() as u128;
                    if tokens >= 2 {
                        settled_all += 1;
                    }
                }
                run.states_add(taken);
                histories += 1;
            }
        }
    }
    run.set("scenario:huge-pool-histories", json!({"creations": creations.iter().map(|c| format!("{}:{}", c.0, c.1)).collect::<Vec<_>>(), "deposits": deposits.iter().map(|c| format!("{}:{}", c.0, c.1)).collect::<Vec<_>>(), "histories": histories, "histories_with_two_or_more_providers_holding_tokens_at_the_end": settled_all}));
    println!("  scenario huge-pool-histories: {} histories", histories);
}

/// Testnet (and, in the thorough tier, Mainnet) before TIP-902: a user creates ERG/SYM with a deposit that mints *more* liquidity
/// than the default record of a built-in pool (5e9 against 1e9), the chain then crosses the height at which ERG/SYM becomes
/// built-in, and the holder withdraws.  The pool that becomes built-in is the one that exists (seed C16-r12-1 put the default
/// pool in its place at the activation height: 5e9 tokens in coins against a record of 1e9).  Small deposits through the
/// activation are in the scenario `testnet-ergsym-before-tip902`.
fn ergsym_created_large_before_activation(run: &Run, thorough: bool) {
    use melstructs::TxKind;
    let eng = Engine::new(run);
    for (net, below) in if thorough { vec![(NetID::Testnet, 498u64), (NetID::Mainnet, 179_998)] } else { vec![(NetID::Testnet, 498u64)] } {
        let (_w, rootn) = root(net, 0, net != NetID::Mainnet);
        if net == NetID::Mainnet {
            continue; // no faucet on mainnet: amounts of this size cannot be funded there
        }
        let k = PoolKey::new(Denom::Erg, Denom::Sym);
        let big: u128 = 5_000_000_000;
        let fund = tx_t(TxKind::Faucet, vec![], vec![out_t(big, k.left()), out_t(big, k.right()), out_t(1000, Denom::Mel), out_t(1001, Denom::Mel)], 0, b"c16-ergsym-funds".to_vec());
        let dep = tx_t(TxKind::LiqDeposit, vec![fund.output_coinid(0), fund.output_coinid(1), fund.output_coinid(2)], vec![out_t(big, k.left()), out_t(big, k.right()), out_t(1000, Denom::Mel)], 0, k.to_bytes().to_vec());
        let wd = tx_t(TxKind::LiqWithdraw, vec![dep.output_coinid(0), fund.output_coinid(3)], vec![out_t(big, k.liq_token_denom())], 1001, k.to_bytes().to_vec());
        let mut steps = vec![
            Action::Open,
            Action::Batch { label: "faucet(5e9 ERG, 5e9 SYM)".into(), txs: vec![fund.clone()], expect_ok: true },
            Action::Seal(None),
            Action::Open,
            Action::Batch { label: "deposit[ERG/SYM] 5e9 : 5e9 before TIP-902".into(), txs: vec![dep.clone()], expect_ok: true },
            Action::Seal(None),
            Action::Jump(below),
        ];
        for _ in 0..4 {
            steps.push(Action::Open);
            steps.push(Action::Seal(None));
        }
        steps.push(Action::Open);
        steps.push(Action::Batch { label: "withdraw[ERG/SYM] all 5e9 after TIP-902".into(), txs: vec![wd.clone()], expect_ok: true });
        steps.push(Action::Seal(None));
        // the same pool asked for all of its liquidity *before* the activation (two blocks below it), and the activation then
        // crossed: whatever the request leaves of the pool is what becomes built-in - a pool left at 0 : 0 is not created anew
        // (seed C16-r13-2 let a user empty ERG/SYM as long as TIP-902 was not active)
        let mut early = vec![
            Action::Open,
            Action::Batch { label: "faucet(5e9 ERG, 5e9 SYM)".into(), txs: vec![fund.clone()], expect_ok: true },
            Action::Seal(None),
            Action::Open,
            Action::Batch { label: "deposit[ERG/SYM] 5e9 : 5e9 before TIP-902".into(), txs: vec![dep.clone()], expect_ok: true },
            Action::Seal(None),
            Action::Jump(below - 2),
            Action::Open,
            Action::Batch { label: "withdraw[ERG/SYM] all 5e9 two blocks before TIP-902".into(), txs: vec![wd.clone()], expect_ok: true },
            Action::Seal(None),
        ];
        for _ in 0..5 {
            early.push(Action::Open);
            early.push(Action::Seal(None));
        }
        for (vname, steps) in [("withdrawn-after", steps), ("withdrawn-before", early)] {
            let mut node = rootn.clone();
            let mut taken = 0;
            for a in &steps {
                match eng.step(&node, a) {
                    StepOut::Next(n) => {
                        node = n;
                        taken += 1;
                    }
                    StepOut::Rejected => run.outcome("ergsym-large-before-activation:step-rejected"),
                    StepOut::Pruned => {
                        run.outcome("ergsym-large-before-activation:engine-reported");
                        break;
                    }
                }
            }
            run.set(&format!("scripted:ergsym-created-large-before-activation:{}:{:?}", vname, net), json!({"steps": steps.len(), "taken": taken, "final_height": node.model.height}));
        }
    }
}

/// A pool whose reserves are small next to its recorded liquidity (created at 10^6 MEL : 1 token, then 999 tokens sold in), and
/// withdrawals so small that their share of both reserves rounds to zero - alone and next to a large one.  The tokens of such a
/// request are burnt like any other's (two zero-valued coins come back); seed C16-r12-2 left the request's coin in place while
/// the pool's record had already been debited.
pub fn withdrawals_whose_share_rounds_to_zero(run: &Run) {
    use melstructs::{CoinID, TxKind};
    let eng = Engine::new(run);
    let (_w, rootn) = root(NetID::Custom02, 0, false);
    let genesis_value = match rootn.model.coins.get(&CoinID::zero_zero()) {
        Some(c) => c.coin_data.value.0,
        None => return,
    };
    // block 1: the funds - the deposit's MEL, MEL carriers, and three coins of a new token (1, 999, 5000)
    let mut outs = vec![out_t(1_000_000, Denom::Mel)];
    for i in 0..6u128 {
        outs.push(out_t(1000 + i, Denom::Mel));
    }
    outs.extend([out_t(1, Denom::NewCustom), out_t(999, Denom::NewCustom), out_t(5000, Denom::NewCustom)]);
    let spent: u128 = 1_000_000 + (0..6u128).map(|i| 1000 + i).sum::<u128>();
    outs.push(out_t(genesis_value - spent, Denom::Mel));
    let fund = tx_t(TxKind::Normal, vec![CoinID::zero_zero()], outs, 0, b"c16-zero-share".to_vec());
    let token = Denom::Custom(fund.hash_nosigs());
    let k = PoolKey::new(Denom::Mel, token);
    let (mel_first, side) = (k.left() == Denom::Mel, |d: Denom, mel: u128, tok: u128| if d == Denom::Mel { mel } else { tok });
    let _ = mel_first;
    let dep_in = if k.left() == Denom::Mel { vec![fund.output_coinid(0), fund.output_coinid(7)] } else { vec![fund.output_coinid(7), fund.output_coinid(0)] };
    let dep = tx_t(TxKind::LiqDeposit, dep_in, vec![out_t(side(k.left(), 1_000_000, 1), k.left()), out_t(side(k.right(), 1_000_000, 1), k.right())], 0, k.to_bytes().to_vec());
    let swap = tx_t(TxKind::Swap, vec![fund.output_coinid(8), fund.output_coinid(1)], vec![out_t(999, token), out_t(1000, Denom::Mel)], 0, k.to_bytes().to_vec());
    let mut node = rootn;
    let mut ok = true;
    for a in [
        Action::Open,
        Action::Batch { label: "funds and a new token".into(), txs: vec![fund.clone()], expect_ok: true },
        Action::Seal(None),
        Action::Open,
        Action::Batch { label: "deposit 10^6 MEL : 1 token (a new pool)".into(), txs: vec![dep.clone()], expect_ok: true },
        Action::Seal(None),
        Action::Open,
        Action::Batch { label: "swap 999 tokens in".into(), txs: vec![swap.clone()], expect_ok: true },
        Action::Seal(None),
    ] {
        match eng.step(&node, &a) {
            StepOut::Next(n) => node = n,
            _ => {
                ok = false;
                break;
            }
        }
    }
    if !ok {
        run.outcome("zero-share-withdrawals:set-up-not-completed");
        return;
    }
    // the liquidity coin (output 0 of the deposit after settlement) is cut into 100, 50, 500000 and the rest
    let liq = k.liq_token_denom();
    let liq_total = match node.model.coins.get(&dep.output_coinid(0)) {
        Some(c) if c.coin_data.denom == liq => c.coin_data.value.0,
        _ => {
            run.outcome("zero-share-withdrawals:no-liquidity-coin");
            return;
        }
    };
    if liq_total < 600_000 {
        run.outcome("zero-share-withdrawals:liquidity-smaller-than-expected");
        return;
    }
    let cut = tx_t(TxKind::Normal, vec![dep.output_coinid(0), fund.output_coinid(2)], vec![out_t(100, liq), out_t(50, liq), out_t(500_000, liq), out_t(liq_total - 500_151, liq), out_t(1001, Denom::Mel), out_t(1, liq)], 0, vec![]);
    let wd = |i: u8, v: u128, carrier: u8| tx_t(TxKind::LiqWithdraw, vec![cut.output_coinid(i), fund.output_coinid(carrier)], vec![out_t(v, liq)], 1000 + carrier as u128 - 1, k.to_bytes().to_vec());
    let mut base = node;
    for a in [Action::Open, Action::Batch { label: "liquidity coin cut into 100 / 50 / 500000 / rest".into(), txs: vec![cut.clone()], expect_ok: true }, Action::Seal(None), Action::Open] {
        match eng.step(&base, &a) {
            StepOut::Next(n) => base = n,
            _ => {
                run.outcome("zero-share-withdrawals:cut-not-accepted");
                return;
            }
        }
    }
    let blocks: Vec<(&str, Vec<Transaction>)> = vec![
        ("withdraw 100 alone", vec![wd(0, 100, 3)]),
        ("withdraw 100 and 50", vec![wd(0, 100, 3), wd(1, 50, 4)]),
        ("withdraw 100 next to 500000", vec![wd(0, 100, 3), wd(2, 500_000, 5)]),
        ("withdraw 500000 alone", vec![wd(2, 500_000, 5)]),
        // the smallest request there is: one token (the mutation scan's `value > 0` -> `value > 1` in the request filter survived)
        ("withdraw 1 alone", vec![wd(5, 1, 6)]),
        ("withdraw 1 next to 100", vec![wd(5, 1, 6), wd(0, 100, 3)]),
    ];
    for (name, txs) in blocks {
        run.state();
        let mut n = base.clone();
        let mut done = true;
        for t in txs {
            match eng.step(&n, &Action::Batch { label: format!("{} [{}]", name, crate::world::txid(&t)), txs: vec![t], expect_ok: true }) {
                StepOut::Next(x) => n = x,
                _ => {
                    done = false;
                    break;
                }
            }
        }
        if !done {
            run.outcome("zero-share-withdrawals:request-not-accepted");
            continue;
        }
        match eng.step(&n, &Action::Seal(None)) {
            StepOut::Next(s) => {
                run.outcome("zero-share-withdrawals:sealed");
                // and the block after
                if let StepOut::Next(o) = eng.step(&s, &Action::Open) {
                    let _ = eng.step(&o, &Action::Seal(None));
                }
            }
            _ => run.outcome("zero-share-withdrawals:engine-reported-at-seal"),
        }
    }
}

pub fn run(run: &Run) {
    withdrawals_whose_share_rounds_to_zero(run);
    ergsym_created_large_before_activation(run, run.thorough());
    long_histories(run, run.thorough());
    huge_liquidity(run, run.thorough());
    lopsided_huge_pool(run);
    huge_pool_histories(run, run.thorough());
    unissued_liquidity_tokens(run, run.thorough());
    custom_pool_withdrawals(run, run.thorough());
    for sc in scenarios(run.thorough()) {
        sample_alphabet(run, &sc);
        let st = run_scenario(run, &sc, 2_000_000);
        println!("  scenario {}: depth {} states {} transitions {}", sc.name, st.depth_completed, st.states, st.transitions);
    }
    run.sample(json!({"path": ["genesis[Custom02]", "open", "mint(coin)", "seal(None)", "open", "deposit[MEL/Cxxxx:canonical]", "seal(None)", "open", "withdraw[MEL/Cxxxx](liq coin)", "seal(None)"], "oracle": "MEL/SYM, MEL/ERG (and ERG/SYM) exist with non-zero reserves; sum of liquidity-token coins <= pool.liqs for every pool"}));
    run.assume("the sum of liquidity tokens is taken over the raw coin tree of the real state");
}
