//! C16 — built-in pools always exist with reserves; liquidity tokens stay fully backed.
use crate::alphabet::AlphaCfg;
use crate::props::e1::*;
use crate::report::Run;
use melstructs::NetID;
use serde_json::json;

fn cfg_liquidity() -> AlphaCfg {
    let mut c = crate::props::c01::pool_cfg();
    c.transfers = false;
    c.overpay = false;
    c.mints = true;
    c.swaps = true;
    c.max_txs_per_block = 2;
    c.seal_actions = vec![None];
    c
}

pub fn scenarios(thorough: bool) -> Vec<Scenario> {
    let mut v = vec![sc("custom02-liquidity", NetID::Custom02, 0, cfg_liquidity(), if thorough { 11 } else { 8 })];
    if thorough {
        v.push(sc("testnet-liquidity", NetID::Testnet, 0, cfg_liquidity(), 8));
        v.push(sc("mainnet-liquidity", NetID::Mainnet, 0, cfg_liquidity(), 8));
        v.push(sc("custom02-liquidity-fees", NetID::Custom02, 65536, cfg_liquidity(), 8));
    }
    v
}

pub fn run(run: &Run) {
    for sc in scenarios(run.thorough()) {
        sample_alphabet(run, &sc);
        let st = run_scenario(run, &sc, 2_000_000);
        println!("  scenario {}: depth {} states {} transitions {}", sc.name, st.depth_completed, st.states, st.transitions);
    }
    run.sample(json!({"path": ["genesis[Custom02]", "open", "mint(coin)", "seal(None)", "open", "deposit[MEL/Cxxxx:canonical]", "seal(None)", "open", "withdraw[MEL/Cxxxx](liq coin)", "seal(None)"], "oracle": "MEL/SYM, MEL/ERG (and ERG/SYM) exist with non-zero reserves; sum of liquidity-token coins <= pool.liqs for every pool"}));
    run.assume("the sum of liquidity tokens is taken over the raw coin tree of the real state");
}
