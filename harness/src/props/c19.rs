//! C19 — faucets: never on mainnet, and at most once anywhere.
use crate::alphabet::AlphaCfg;
use crate::props::e1::*;
use crate::report::Run;
use crate::stf::*;
use crate::world::*;
use melstructs::{CoinData, CoinValue, Denom, NetID, Transaction, TxKind};
use serde_json::json;

pub fn grandfathered() -> Transaction {
    Transaction {
        kind: TxKind::Faucet,
        inputs: vec![],
        outputs: vec![CoinData { value: CoinValue::from_millions(1001u64), denom: Denom::Mel, covhash: "t3ew4xh2yts8j1a8vzdfpbkzzvb5gz3sn7s9jw7qc9djrph2wpg52g".parse().unwrap(), additional_data: vec![].into() }],
        data: hex::decode("202fb0573b6dfe780f249bec6069bb39dbccb7ed9536c0480e20e1e29050f430").unwrap().into(),
        fee: CoinValue::from_millions(1001u64),
        covenants: vec![],
        sigs: vec![],
    }
}

fn faucets() -> Vec<(String, Transaction)> {
    // the same faucet body carrying other signatures: signatures are not part of a transaction's identity (hash_nosigs)
    let mut a_sig = tx_t(TxKind::Faucet, vec![], vec![out_t(1000, Denom::Mel)], 0, vec![1]);
    a_sig.sigs = vec![vec![7u8; 64].into()];
    let mut g_sig = grandfathered();
    g_sig.sigs = vec![vec![9u8; 64].into(), vec![].into()];
    vec![
        ("faucet-a".into(), tx_t(TxKind::Faucet, vec![], vec![out_t(1000, Denom::Mel)], 0, vec![1])),
        ("faucet-b(2 outputs,fee)".into(), tx_t(TxKind::Faucet, vec![], vec![out_t(5, Denom::Sym), out_t(6, Denom::Erg)], 9, vec![2])),
        ("faucet-c(no outputs)".into(), tx_t(TxKind::Faucet, vec![], vec![], 0, vec![3])),
        ("faucet-grandfathered".into(), grandfathered()),
        ("faucet-a/other-sigs".into(), a_sig),
        ("faucet-grandfathered/other-sigs".into(), g_sig),
        // a faucet that also spends a coin (the genesis coin, locked by the always-true covenant): still a faucet
        ("faucet-d(spends the genesis coin)".into(), tx_t(TxKind::Faucet, vec![melstructs::CoinID::zero_zero()], vec![out_t(77, Denom::Mel)], 0, vec![4])),
    ]
}

fn acts(n: &Node, jump_to: u64) -> Vec<Action> {
    if !n.is_open() {
        let mut v = vec![Action::Open];
        if n.salt == 0 {
            v.push(Action::Restart);
        }
        if n.model.height < jump_to {
            v.push(Action::Jump(jump_to));
        }
        return v;
    }
    let mut v = vec![];
    let fs = faucets();
    if n.model.block_txs.len() < 3 {
        for (l, t) in &fs {
            v.push(Action::Batch { label: l.clone(), txs: vec![t.clone()], expect_ok: false });
            v.push(Action::Batch { label: format!("[{l} , {l}]"), txs: vec![t.clone(), t.clone()], expect_ok: false });
        }
        v.push(Action::Batch { label: "[faucet-a , faucet-a/other-sigs]".into(), txs: vec![fs[0].1.clone(), fs[4].1.clone()], expect_ok: false });
        v.push(Action::Batch { label: "[faucet-grandfathered/other-sigs , faucet-grandfathered]".into(), txs: vec![fs[5].1.clone(), fs[3].1.clone()], expect_ok: false });
        v.push(Action::Batch { label: "[faucet-grandfathered , faucet-a]".into(), txs: vec![fs[3].1.clone(), fs[0].1.clone()], expect_ok: false });
        v.push(Action::Batch { label: "[faucet-a , faucet-b]".into(), txs: vec![fs[0].1.clone(), fs[1].1.clone()], expect_ok: false });
        v.push(Action::Batch { label: "[faucet-b , faucet-grandfathered , faucet-a]".into(), txs: vec![fs[1].1.clone(), fs[3].1.clone(), fs[0].1.clone()], expect_ok: false });
    }
    // the marker a faucet leaves behind cannot be spent (nothing hashes to its address, whatever its value): were it spent, the
    // faucet could be applied again
    if let Some((cid, cdh)) = n.model.coins.iter().find(|(_, d)| d.coin_data.covhash == addr_true() && d.coin_data.denom == Denom::Mel && d.coin_data.value.0 > 0) {
        for (mid, _) in n.model.coins.iter().filter(|(_, d)| d.coin_data.value.0 == 0 && d.coin_data.covhash == melstructs::Address(tmelcrypt::HashVal::default())).take(2) {
            let t = tx_t(TxKind::Normal, vec![*cid, *mid], vec![out_t(cdh.coin_data.value.0, Denom::Mel)], 0, vec![0x6d]);
            v.push(Action::Batch { label: format!("spend-faucet-marker({})", hex::encode(&mid.txhash.0[..2])), txs: vec![t], expect_ok: false });
        }
    }
    v.push(Action::Seal(None));
    v
}

/// Large batches: n distinct faucets of which one appears twice (the second copy carrying a stray signature), the two copies at
/// chosen positions - next to each other, far apart, first and last, around the middle - applied as one batch on rayon pools of
/// 1, 2, 4 and 16 workers (how a large batch is cut into pieces depends on its length and on the pool).  Must be rejected; the
/// same batch without the second copy must be accepted.
fn large_batches_with_one_faucet_twice(run: &Run, thorough: bool) {
    let nets: Vec<NetID> = if thorough { vec![NetID::Custom02, NetID::Testnet, NetID::Custom08] } else { vec![NetID::Custom02] };
    let sizes: Vec<usize> = if thorough { vec![33, 64, 130, 160, 257, 400, 1030] } else { vec![33, 130, 160, 400] };
    let pools: Vec<rayon::ThreadPool> = [1usize, 2, 4, 16].iter().map(|n| rayon::ThreadPoolBuilder::new().num_threads(*n).build().unwrap()).collect();
    let mut cases = 0u64;
    for net in nets {
        let (_w, rootn) = root(net, 0, false);
        let parent = match &rootn.real {
            Real::Sealed(s) => s.clone(),
            _ => continue,
        };
        let st = parent.next_unsealed();
        for &n in &sizes {
            let distinct: Vec<Transaction> = (0..n).map(|i| tx_t(melstructs::TxKind::Faucet, vec![], vec![out_t(1 + i as u128, melstructs::Denom::Mel)], 0, vec![0x1f, (i >> 8) as u8, i as u8])).collect();
            let positions: Vec<(usize, usize)> = vec![(0, 1), (3, n - 30), (10, n / 2 + 22), (0, n - 1), (n / 2 - 1, n / 2), (n / 4, 3 * n / 4), (n - 2, n - 1)];
            for pool in &pools {
                // control: all distinct
                run.transition();
                let ok = pool.install(|| {
                    let mut c = st.clone();
                    crate::guard::guard(|| c.apply_tx_batch(&distinct))
                });
                run.validated();
                match ok {
                    Ok(Ok(())) => run.outcome("large-batch:distinct-faucets-accepted"),
                    Ok(Err(_)) => run.outcome("large-batch:distinct-faucets-rejected(statement is only-if: recorded)"),
                    Err(_) => run.outcome("large-batch:panic(reported under C09)"),
                }
                for &(i, j) in &positions {
                    if i >= j || j >= n {
                        continue;
                    }
                    let mut batch = distinct.clone();
                    let mut twin = distinct[i].clone();
                    twin.sigs = vec![bytes::Bytes::from(vec![3u8; 64])];
                    batch[j] = twin;
                    cases += 1;
                    run.transition();
                    let r = pool.install(|| {
                        let mut c = st.clone();
                        crate::guard::guard(|| c.apply_tx_batch(&batch))
                    });
                    run.validated();
                    match r {
                        Ok(Ok(())) => run.violation(
                            "C19",
                            format!("accepts-faucet-twice-in-a-large-batch/pool={}", if pool.current_num_threads() == 1 { "1" } else { ">1" }),
                            format!("a batch of {} faucets on genesis[{:?}] in which the faucet at position {} appears again at position {} (with another signature) was accepted on a pool of {} worker(s)", n, net, i, j, pool.current_num_threads()),
                            json!({"network": format!("{:?}", net), "batch_size": n, "positions": [i, j], "workers": pool.current_num_threads(), "faucet": tx_json(&distinct[i])}),
                        ),
                        Ok(Err(_)) => run.outcome("large-batch:faucet-twice-rejected"),
                        Err(_) => run.outcome("large-batch:panic(reported under C09)"),
                    }
                }
            }
        }
    }
    run.set("large_batches_with_one_faucet_twice", json!({"sizes": sizes, "pool_sizes": [1, 2, 4, 16], "cases": cases}));
}

pub fn run(run: &Run) {
    let thorough = run.thorough();
    // one faucet twice in one batch with apply_tx_batch itself under loom (every parallel site, every cut, every interleaving)
    crate::loomrun::stf_interleavings(run, "C19", &["faucet-twice", "faucet-spends-and-rival"]);
    let nets = [NetID::Mainnet, NetID::Testnet, NetID::Custom02, NetID::Custom03, NetID::Custom04, NetID::Custom05, NetID::Custom06, NetID::Custom07, NetID::Custom08];
    let depth = if thorough { 11 } else { 9 };
    for net in nets {
        if false && !thorough && matches!(net, NetID::Custom03 | NetID::Custom04 | NetID::Custom05 | NetID::Custom06 | NetID::Custom07) {
            // quick tier: the custom networks share one code path; Custom02 and Custom08 stand for them
            continue;
        }
        let (_w, rootn) = root(net, 0, false);
        let mut eng = Engine::new(run);
        eng.continue_after_mismatch = true;
        // testnet: stay below the 500 activation height (a fabricated jump across it would skip the TIP-906 transition)
        let jump_to = if net == NetID::Testnet { 300 } else { 5000 };
        let a = move |n: &Node| acts(n, jump_to);
        let visit = |_n: &Node| {};
        let st = bfs(&eng, vec![rootn], depth, 1_000_000, &a, &visit);
        run.set(&format!("scenario:{:?}", net), json!({"depth_bound_completed": st.depth_completed, "unique_states": st.states, "transitions": st.transitions}));
        println!("  network {:?}: depth {} states {} transitions {}", net, st.depth_completed, st.states, st.transitions);
    }
    // testnet: a faucet applied before the TIP-906 activation height is still a duplicate after the chain has crossed it
    {
        let (_w, rootn) = root(NetID::Testnet, 0, false);
        let mut eng = Engine::new(run);
        eng.continue_after_mismatch = true;
        let fs = faucets();
        let mut pre: Vec<Action> = vec![Action::Open];
        pre.push(Action::Batch { label: "[faucet-a , faucet-b]".into(), txs: vec![fs[0].1.clone(), fs[1].1.clone()], expect_ok: true });
        pre.extend([Action::Seal(None), Action::Jump(498), Action::Open, Action::Seal(None), Action::Open, Action::Seal(None)]);
        let mut node = Some(rootn);
        for a in &pre {
            node = match node.as_ref().map(|n| eng.step(n, a)) {
                Some(StepOut::Next(x)) => Some(x),
                _ => None,
            };
        }
        match node {
            Some(n) => {
                let a = move |n: &Node| acts(n, 0);
                let visit = |_n: &Node| {};
                let st = bfs(&eng, vec![n], if thorough { 6 } else { 4 }, 500_000, &a, &visit);
                run.set("scenario:Testnet-across-activation-500", json!({"depth_bound_completed": st.depth_completed, "unique_states": st.states, "transitions": st.transitions}));
                println!("  testnet across 500: depth {} states {} transitions {}", st.depth_completed, st.states, st.transitions);
            }
            None => run.outcome("testnet-across-activation:prefix-not-accepted"),
        }
    }
    large_batches_with_one_faucet_twice(run, thorough);
    let _ = AlphaCfg::base();
    run.set("faucet_shapes", json!(faucets().iter().map(|f| f.0.clone()).collect::<Vec<_>>()));
    run.sample(json!({"path": ["genesis[Custom02]", "open", "faucet-a", "seal(None)", "restart", "open", "faucet-a"], "oracle": "second application anywhere is rejected; on mainnet only the grandfathered hash may be accepted"}));
    run.assume("acceptance of the grandfathered transaction on mainnet is recorded, not demanded (the statement allows it)");
}
