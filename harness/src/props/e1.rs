//! Scenarios of the E1 engine shared by C01, C02, C05, C13, C15, C16, C19, C20 (and C09 for panics).
use crate::alphabet::*;
use crate::report::Run;
use crate::stf::*;
use crate::world::*;
use melstructs::{CoinID, Denom, NetID, PoolKey, Transaction, TxKind};
use serde_json::json;
use std::sync::Arc;

/// Root node: genesis of `net` with `value` MEL under the always-true covenant, plus a set-up faucet
/// block that gives the wallet coins of every built-in denomination.  Returns the sealed block-0 node.
pub fn root(net: NetID, fee_mult: u128, with_wallet: bool) -> (World, Node) {
    match try_root(net, fee_mult, with_wallet) {
        Ok(x) => x,
        Err(p) => {
            // an honest genesis -> faucet -> seal sequence panicked inside the code under test: no scenario can be built on it.
            // C09 reports this as a violation (it calls try_root itself); for every other check it is a machinery exit, not a verdict.
            eprintln!("MACHINERY-FAILURE the honest set-up sequence (genesis, set-up faucet, seal) panicked in the code under test: {} [{}]", p.msg, p.frame);
            std::process::exit(2);
        }
    }
}

pub fn try_root(net: NetID, fee_mult: u128, with_wallet: bool) -> Result<(World, Node), crate::guard::PanicInfo> {
    crate::guard::guard(|| root_unguarded(net, fee_mult, with_wallet))
}

fn root_unguarded(net: NetID, fee_mult: u128, with_wallet: bool) -> (World, Node) {
    root_variant_unguarded(net, fee_mult, with_wallet, 0)
}

/// Other genesis configurations (the property statements quantify over them): the initial coin in another denomination or very
/// large, a non-empty initial fee pool, stakes present from block 0.
pub fn genesis_world(net: NetID, fee_mult: u128, variant: u8) -> World {
    use melstructs::StakeDoc;
    use std::collections::BTreeMap;
    let stake = |i: u8, e_start: u64, e_post_end: u64, syms: u128| {
        (melstructs::TxHash(tmelcrypt::hash_single(&[b'g', i])), StakeDoc { pubkey: key(i).0, e_start, e_post_end, syms_staked: melstructs::CoinValue(syms) })
    };
    match variant {
        0 => world_mel(net, 1_000_000_000, fee_mult),
        1 => world(net, out_t(1_000_000_000, Denom::Sym), 1 << 40, fee_mult, BTreeMap::from([stake(1, 0, 2, 1000)])),
        2 => world(net, out_t(1_000_000_000, Denom::Erg), 12_345, fee_mult, BTreeMap::from([stake(1, 0, 1, 5), stake(2, 1, 3, 7)])),
        3 => world(net, out_t(1 << 100, Denom::Mel), 1 << 100, fee_mult, BTreeMap::new()),
        // a fee pool beyond the maximum coin value (the fee pool is a tally, not a coin: nothing bounds it by 2^120)
        _ => world(net, out_t(1 << 100, Denom::Mel), (1 << 121) + (1 << 40) + 12_345, fee_mult, BTreeMap::new()),
    }
}

pub fn root_variant(net: NetID, fee_mult: u128, with_wallet: bool, variant: u8) -> (World, Node) {
    match crate::guard::guard(|| root_variant_unguarded(net, fee_mult, with_wallet, variant)) {
        Ok(x) => x,
        Err(p) => {
            eprintln!("MACHINERY-FAILURE the honest set-up sequence (genesis variant {}, set-up faucet, seal) panicked in the code under test: {} [{}]", variant, p.msg, p.frame);
            std::process::exit(2);
        }
    }
}

fn root_variant_unguarded(net: NetID, fee_mult: u128, with_wallet: bool, variant: u8) -> (World, Node) {
    let w = genesis_world(net, fee_mult, variant);
    let mut u = w.genesis.clone();
    let mut block_txs: Vec<Transaction> = vec![];
    let mut universe = vec![CoinID::zero_zero()];
    if with_wallet && net != NetID::Mainnet {
        let f = tx_t(
            TxKind::Faucet,
            vec![],
            vec![out_t(100_000, Denom::Mel), out_t(100_001, Denom::Mel), out_t(100_002, Denom::Mel), out_t(50_000, Denom::Sym), out_t(50_001, Denom::Sym), out_t(70_000, Denom::Erg), out_t(70_001, Denom::Erg)],
            0,
            b"setup".to_vec(),
        );
        let mut f = f;
        // the fee is part of the serialised size: iterate to a fixed point
        for _ in 0..4 {
            // comfortably above the minimum: the set-up must not depend on the exact threshold (that is C05's subject)
            f.fee = melstructs::CoinValue(min_fee(&f, fee_mult) + if fee_mult > 0 { 1000 } else { 0 });
        }
        u.apply_tx(&f).expect("set-up faucet");
        for i in 0..f.outputs.len() {
            universe.push(f.output_coinid(i as u8));
        }
        universe.push(faucet_marker(f.hash_nosigs()));
        block_txs.push(f);
    }
    if with_wallet && net == NetID::Mainnet && variant == 0 && fee_mult == 0 {
        // mainnet has no faucet: the wallet is carved out of the genesis coin in block 0, its SYM and ERG bought from the
        // built-in pools by four swap requests settled when block 0 is sealed
        let split = tx_t(
            TxKind::Normal,
            vec![CoinID::zero_zero()],
            vec![
                out_t(100_000, Denom::Mel), out_t(100_001, Denom::Mel), out_t(100_002, Denom::Mel),
                out_t(3_000_000, Denom::Mel), out_t(3_000_001, Denom::Mel), out_t(4_000_000, Denom::Mel), out_t(4_000_001, Denom::Mel),
                out_t(1_000_000_000 - 300_003 - 6_000_001 - 8_000_001, Denom::Mel),
            ],
            0,
            b"setup".to_vec(),
        );
        u.apply_tx(&split).expect("set-up split");
        for i in 0..3 {
            universe.push(split.output_coinid(i));
        }
        universe.push(split.output_coinid(7));
        block_txs.push(split.clone());
        for (i, pool) in [(3u8, PoolKey::new(Denom::Mel, Denom::Sym)), (4, PoolKey::new(Denom::Mel, Denom::Sym)), (5, PoolKey::new(Denom::Mel, Denom::Erg)), (6, PoolKey::new(Denom::Mel, Denom::Erg))] {
            let sw = tx_t(TxKind::Swap, vec![split.output_coinid(i)], vec![out_t(split.outputs[i as usize].value.0, Denom::Mel)], 0, pool.to_bytes().to_vec());
            u.apply_tx(&sw).expect("set-up swap");
            universe.push(sw.output_coinid(0));
            block_txs.push(sw);
        }
    }
    let s = u.seal(None);
    let model = model_of(&s, &universe, &builtin_pool_keys(), &block_txs);
    let h0 = s.header();
    let label = if variant == 0 { format!("genesis[{:?}]", net) } else { format!("genesis[{:?}, configuration {}]", net, variant) };
    let node = Node::new_root(Real::Sealed(s), model, label, json!({"root": format!("{:?}", net), "fee_multiplier": fee_mult.to_string(), "wallet": with_wallet, "genesis_variant": variant}), vec![h0]);
    (w, node)
}

pub struct Scenario {
    pub name: &'static str,
    pub net: NetID,
    pub fee_mult: u128,
    pub cfg: AlphaCfg,
    pub depth: usize,
    /// actions applied to the root before the search starts (e.g. a jump to a boundary height)
    pub pre: Vec<Action>,
    /// genesis configuration (0 = the standard one, see `genesis_world`)
    pub genesis: u8,
    /// label prefixes of alphabet actions taken from the root before `pre` (e.g. minting a token on mainnet, where no faucet can fund a wallet)
    pub setup_labels: Vec<&'static str>,
    /// follow refused batches (Engine::follow_rejected)
    pub follow_rejected: bool,
}

pub fn sc(name: &'static str, net: NetID, fee_mult: u128, cfg: AlphaCfg, depth: usize) -> Scenario {
    Scenario { name, net, fee_mult, cfg, depth, pre: vec![], genesis: 0, setup_labels: vec![], follow_rejected: false }
}

pub fn run_scenario(run: &Run, sc: &Scenario, max_states: usize) -> SearchStats {
    let (_w, mut root) = root_variant(sc.net, sc.fee_mult, true, sc.genesis);
    let mut eng = Engine::new(run);
    eng.follow_rejected = sc.follow_rejected;
    if !sc.setup_labels.is_empty() {
        let mut setup_cfg = sc.cfg.clone();
        setup_cfg.mints = true;
        match advance_by_labels(run, root.clone(), &setup_cfg, &sc.setup_labels) {
            Some(n) => root = n,
            None => return prefix_failed(run, sc, "set-up by labels"),
        }
    }
    for a in &sc.pre {
        match eng.step(&root, a) {
            StepOut::Next(n) => root = n,
            _ => return prefix_failed(run, sc, &a.label()),
        }
    }
    let cfg = sc.cfg.clone();
    let acts = move |n: &Node| actions(n, &cfg);
    let visit = |_n: &Node| {};
    let st = bfs(&eng, vec![root], sc.depth, max_states, &acts, &visit);
    run.set(
        &format!("scenario:{}", sc.name),
        json!({"network": format!("{:?}", sc.net), "fee_multiplier": sc.fee_mult.to_string(), "depth_bound_completed": st.depth_completed, "unique_states": st.states,
               "transitions": st.transitions, "frontier_sizes": st.frontier_sizes, "max_txs_per_block": sc.cfg.max_txs_per_block}),
    );
    st
}

/// The honest, scripted prefix of a scenario was not accepted.  When the engine has recorded why (a violation of some property on
/// that prefix) the scenario is skipped and the run is marked as not exhaustive; without any recorded reason it is a machinery failure.
fn prefix_failed(run: &Run, sc: &Scenario, step: &str) -> SearchStats {
    if run.violation_count() == 0 {
        run.machinery_failure(&format!("scenario {}: scripted prefix step {} failed without a recorded violation", sc.name, step));
    }
    run.cap_hit(&format!("scenario {} skipped: its scripted prefix stopped at step {} (violations recorded on the prefix are reported by the checks of their properties)", sc.name, step));
    SearchStats::default()
}

pub fn sample_alphabet(run: &Run, sc: &Scenario) {
    let (_w, root) = root_variant(sc.net, sc.fee_mult, true, sc.genesis);
    let scratch = Run::new("scratch", "quick");
    let eng = Engine::new(&scratch);
    if let StepOut::Next(open) = eng.step(&root, &Action::Open) {
        let labels: Vec<String> = actions(&open, &sc.cfg).iter().map(|a| a.label()).collect();
        run.set(&format!("alphabet_at_first_open_state:{}", sc.name), json!({"size": labels.len(), "labels": labels}));
    }
    let _ = PoolKey::new(Denom::Mel, Denom::Sym);
}

/// The repository's own standard genesis configurations (mainnet, testnet): nobody here holds the keys of their coins, so the
/// histories are empty blocks with and without proposer actions (peg, subsidy, fee pool decay and rewards under the real parameters).
pub fn run_std_genesis(run: &Run, depth: usize) {
    for (name, cfg) in [("std-mainnet", melstf::GenesisConfig::std_mainnet()), ("std-testnet", melstf::GenesisConfig::std_testnet())] {
        let db = new_db();
        let net = cfg.network;
        let built = crate::guard::guard(|| cfg.realize(&db).seal(None));
        let s = match built {
            Ok(s) => s,
            Err(p) => {
                run.violation("C09", format!("std-genesis/{}", p.class()), format!("sealing the {} genesis panicked: {}", name, p.msg), json!({"genesis": name}));
                continue;
            }
        };
        let model = model_of(&s, &[CoinID::zero_zero()], &builtin_pool_keys(), &[]);
        let h0 = s.header();
        let rootn = Node::new_root(Real::Sealed(s), model, format!("genesis[{}]", name), json!({"root": name}), vec![h0]);
        let eng = Engine::new(run);
        let mut cfg = AlphaCfg::base();
        cfg.seal_actions = vec![None, Some(crate::alphabet::action_dest(1)), Some(melstructs::ProposerAction { fee_multiplier_delta: -128, reward_dest: addr_true() }), Some(melstructs::ProposerAction { fee_multiplier_delta: 127, reward_dest: addr_true2() })];
        let acts = move |n: &Node| actions(n, &cfg);
        let visit = |_n: &Node| {};
        let st = bfs(&eng, vec![rootn], depth, 200_000, &acts, &visit);
        run.set(&format!("scenario:{}", name), json!({"network": format!("{:?}", net), "depth_bound_completed": st.depth_completed, "unique_states": st.states, "transitions": st.transitions}));
        println!("  scenario {}: depth {} states {} transitions {}", name, st.depth_completed, st.states, st.transitions);
    }
}

/// Long scripted histories: one path per schedule, each a cycle of label prefixes repeated several times (a pool created, used,
/// emptied and used again; deposits and swaps under changing proposer actions; restarts in between).  Depth-bounded search
/// cannot reach 60-step histories; these are a deterministic family of long paths through the same engine and oracles.
/// `want` is a label prefix, optionally followed by `~` and a string the label must also contain
/// (`swap[MEL/C~(C` = a swap against a MEL/custom-token pool that sells the token).
pub fn label_matches(label: &str, want: &str) -> bool {
    match want.split_once('~') {
        Some((pre, has)) => label.starts_with(pre) && label.contains(has),
        None => label.starts_with(want),
    }
}

/// Drives `root` through a script of label patterns (steps that are not available or not accepted are skipped) and returns
/// the nodes visited (root first) with the action that led to each later one.
pub fn drive_script(eng: &Engine, root: Node, cfg: &AlphaCfg, wants: &[&str]) -> (Vec<Node>, Vec<Action>) {
    let mut nodes = vec![root];
    let mut acts_taken = vec![];
    for want in wants {
        let cur = nodes.last().unwrap().clone();
        let acts = actions(&cur, cfg);
        let found = if *want == "restart" && !cur.is_open() { Some(Action::Restart) } else { acts.iter().find(|a| label_matches(&a.label(), want)).cloned() };
        if let Some(a) = found.as_ref() {
            if let StepOut::Next(n) = eng.step(&cur, a) {
                nodes.push(n);
                acts_taken.push(a.clone());
            }
        }
    }
    (nodes, acts_taken)
}

pub fn long_histories(run: &Run, thorough: bool) {
    let mut cfg = crate::props::c01::pool_cfg();
    cfg.splits = true;
    cfg.burns = true;
    cfg.restarts = true;
    cfg.max_txs_per_block = 3;
    cfg.seal_actions = vec![None, Some(crate::alphabet::action_dest(1)), Some(melstructs::ProposerAction { fee_multiplier_delta: -128, reward_dest: addr_true() }), Some(melstructs::ProposerAction { fee_multiplier_delta: 127, reward_dest: addr_true2() })];
    let schedules: Vec<(&str, NetID, u128, Vec<&str>)> = vec![
        ("user pool: create, trade, empty, re-create", NetID::Custom02, 0, vec![
            // (the token is sold into the pool first: its MEL reserve falls below the liquidity it issued; then a swap against the
            // emptied pool, which is left alone; after the re-creation the MEL side is sold, the reserve rises above the liquidity)
            "open", "mint(", "seal(None)", "open", "deposit[MEL/C", "seal(delta=1", "open", "swap[MEL/C~(C", "seal(None)", "open", "withdraw[MEL/C", "seal(delta=-128",
            "open", "swap[MEL/C~(MEL", "seal(None)",
            "restart", "open", "deposit[MEL/C", "xfer(", "seal(delta=127", "open", "swap[MEL/C~(MEL", "swap[MEL/C~(MEL", "seal(None)", "open", "withdraw[MEL/C", "overpay(", "seal(delta=1",
        ]),
        ("built-in pools under fees", NetID::Custom02, 65536, vec![
            "open", "deposit[MEL/SYM", "seal(delta=127", "open", "swap[MEL/SYM", "swap[ERG/MEL", "seal(None)", "open", "deposit[ERG/SYM", "overpay(", "seal(delta=-128", "restart",
            "open", "withdraw[MEL/SYM", "swap[ERG/SYM", "seal(delta=1", "open", "split(", "burn(", "seal(None)", "open", "withdraw[ERG/SYM", "mint(", "seal(delta=127",
        ]),
        ("testnet from block 1 across 500 would be too long: testnet pools below 500", NetID::Testnet, 0, vec![
            "open", "deposit[MEL/SYM", "seal(None)", "open", "swap[MEL/SYM", "seal(delta=1", "open", "withdraw[MEL/SYM", "faucet0", "seal(delta=-128", "restart", "open", "mint(", "seal(None)",
            "open", "deposit[MEL/C", "seal(delta=127", "open", "swap[MEL/C", "seal(None)", "open", "withdraw[MEL/C", "seal(delta=1",
        ]),
        ("mainnet wallet", NetID::Mainnet, 0, vec![
            "open", "xfer(", "seal(delta=1", "open", "deposit[MEL/SYM", "faucet-grandfathered", "seal(None)", "open", "swap[MEL/SYM", "seal(delta=-128", "restart", "open", "withdraw[MEL/SYM",
            "seal(delta=127", "open", "faucet-grandfathered", "split(", "seal(None)",
        ]),
    ];
    let repeats = if thorough { 6 } else { 3 };
    let eng = Engine::new(run);
    for (name, net, fm, cycle) in schedules {
        let (_w, mut node) = root(net, fm, true);
        let mut c = cfg.clone();
        c.faucets = net != NetID::Custom02;
        let (mut taken, mut skipped, mut stopped) = (0u64, 0u64, false);
        let mut unavailable: std::collections::BTreeMap<String, u64> = Default::default();
        'outer: for _ in 0..repeats {
            for want in &cycle {
                let acts = actions(&node, &c);
                // (the search allows one restart per path; a script restarts as often as it says)
                let found = if *want == "restart" && !node.is_open() { Some(Action::Restart) } else { acts.iter().find(|a| label_matches(&a.label(), want)).cloned() };
                let a = match found.as_ref() {
                    Some(a) => a.clone(),
                    None => {
                        skipped += 1;
                        *unavailable.entry(want.to_string()).or_default() += 1;
                        continue;
                    }
                };
                match eng.step(&node, &a) {
                    StepOut::Next(n) => {
                        node = n;
                        taken += 1;
                    }
                    StepOut::Rejected => {
                        skipped += 1;
                        *unavailable.entry(format!("{} (rejected)", want)).or_default() += 1;
                    }
                    StepOut::Pruned => {
                        stopped = true;
                        break 'outer;
                    }
                }
            }
        }
        run.states_add(taken);
        run.set(&format!("long_history:{}", name), json!({"network": format!("{:?}", net), "fee_multiplier": fm.to_string(), "steps_taken": taken, "steps_not_available": skipped, "not_available": unavailable, "stopped_by_a_reported_mismatch": stopped, "final_height": node.model.height}));
        println!("  long history '{}': {} steps taken, {} not available, height {}{}", name, taken, skipped, node.model.height, if stopped { " (stopped: engine reported)" } else { "" });
    }
}

/// The same alphabet and depth over the other genesis configurations.
pub fn genesis_scenarios(names: [&'static str; 3], net: NetID, cfg: &AlphaCfg, depth: usize) -> Vec<Scenario> {
    (1u8..=3)
        .map(|g| {
            let mut s = sc(names[g as usize - 1], net, if g == 2 { 1000 } else { 0 }, cfg.clone(), depth);
            s.genesis = g;
            s
        })
        .collect()
}

/// A sealed node reached honestly in which an earlier DoscMint raised the recorded DOSC speed above its genesis value
/// (block 1 splits the genesis coin, block 2 holds a TIP-910 mint of difficulty 14 from a one-block-old coin).
/// Returns the node and the two remaining puzzle coins (id, value, creation height).
pub fn root_with_speed_record(run: &Run, net: NetID) -> Option<(Node, Vec<(CoinID, u128, u64)>)> {
    use crate::refstf::Tip910Hash;
    let eng = Engine::new(run);
    let (_w, rootn) = root(net, 0, false);
    let open1 = match eng.step(&rootn, &Action::Open) {
        StepOut::Next(x) => x,
        _ => return None,
    };
    let split = tx_t(TxKind::Normal, vec![CoinID::zero_zero()], vec![out_t(400_000_000, Denom::Mel), out_t(300_000_000, Denom::Mel), out_t(300_000_000, Denom::Mel)], 0, vec![]);
    let n1 = match eng.step(&open1, &Action::Batch { label: "split-genesis".into(), txs: vec![split.clone()], expect_ok: true }) {
        StepOut::Next(x) => x,
        _ => return None,
    };
    let sealed1 = match eng.step(&n1, &Action::Seal(None)) {
        StepOut::Next(x) => x,
        _ => return None,
    };
    let hdr1 = sealed1.view().header();
    let open2 = match eng.step(&sealed1, &Action::Open) {
        StepOut::Next(x) => x,
        _ => return None,
    };
    let coin = split.output_coinid(0);
    let pz = tmelcrypt::hash_keyed(hdr1.hash(), stdcode::serialize(&coin).unwrap());
    let proof = melpow::Proof::generate(&pz, 14, Tip910Hash).to_bytes();
    let mint = tx_t(TxKind::DoscMint, vec![coin], vec![out_t(400_000_000, Denom::Mel)], 0, stdcode::serialize(&(14u32, proof)).unwrap());
    let n2 = match eng.step(&open2, &Action::Batch { label: "mint(d=14,tip910) setting a speed record".into(), txs: vec![mint], expect_ok: true }) {
        StepOut::Next(x) => x,
        _ => return None,
    };
    let sealed2 = match eng.step(&n2, &Action::Seal(None)) {
        StepOut::Next(x) => x,
        _ => return None,
    };
    if sealed2.view().header().dosc_speed <= hdr1.dosc_speed {
        return None;
    }
    let h = sealed1.model.height;
    Some((sealed2, vec![(split.output_coinid(1), 300_000_000, h), (split.output_coinid(2), 300_000_000, h)]))
}

/// Drives a node through a scripted prefix: at each step the first action of the alphabet whose label starts with the given
/// prefix is taken.  Returns None when a step is not available or not accepted.
pub fn advance_by_labels(run: &Run, mut node: Node, cfg: &AlphaCfg, prefixes: &[&str]) -> Option<Node> {
    let eng = Engine::new(run);
    for want in prefixes {
        let acts = actions(&node, cfg);
        let a = acts.iter().find(|a| a.label().starts_with(want))?;
        node = match eng.step(&node, a) {
            StepOut::Next(n) => n,
            _ => return None,
        };
    }
    Some(node)
}

/// Histories around a rule-switch height of a legacy network: the root is re-labelled shortly before the boundary (crossing the
/// TIP-906 activation honestly first where the target lies beyond it) and the search then runs through the blocks around it.
pub fn boundary_scenarios(cfg: &AlphaCfg, depth: usize, thorough: bool) -> Vec<Scenario> {
    let cross = |from: u64| vec![Action::Jump(from), Action::Open, Action::Seal(None), Action::Open, Action::Seal(None)];
    let mut v = vec![];
    // testnet: every TIP is active from 500; legacy windows end at 500000 (stake rules), 900000 (stake locks), 978392 (deposit rule)
    let mut t = sc("testnet-deposit-rule-978392", NetID::Testnet, 0, cfg.clone(), depth);
    t.pre = cross(498);
    t.pre.push(Action::Jump(978_390));
    v.push(t);
    // mainnet: TIP-902 (180000: ERG/SYM pool, peg formula), TIP-909 (950000: subsidy), TIP-909a (1048000), first halving (1950000)
    // mainnet has no faucet: the wallet's second denomination is a token minted in block 1
    let minted = vec!["open", "mint(", "seal(None)"];
    let mut m = sc("mainnet-tip902-180000", NetID::Mainnet, 0, cfg.clone(), depth);
    m.setup_labels = minted.clone();
    m.pre = vec![Action::Jump(179_998)];
    v.push(m);
    let mut m = sc("mainnet-tip909-950000", NetID::Mainnet, 0, cfg.clone(), depth);
    m.setup_labels = minted.clone();
    m.pre = cross(829_998);
    m.pre.push(Action::Jump(949_998));
    v.push(m);
    // the subsidy runs out: 2^20 >> 20 = 1 microSYM is the last non-zero reward (blocks 20,950,000 ..), 0 from 21,950,000 on
    let mut f = sc("custom02-subsidy-runs-out-21950000", NetID::Custom02, 0, cfg.clone(), depth.min(5));
    f.pre = vec![Action::Jump(21_949_998)];
    v.push(f);
    let mut m = sc("mainnet-deposit-rule-978392", NetID::Mainnet, 0, cfg.clone(), depth);
    m.setup_labels = minted.clone();
    m.pre = cross(829_998);
    m.pre.push(Action::Jump(978_390));
    v.push(m);
    if thorough {
        let mut m = sc("mainnet-tip909a-1048000", NetID::Mainnet, 0, cfg.clone(), depth);
        m.setup_labels = minted.clone();
        m.pre = cross(829_998);
        m.pre.push(Action::Jump(1_047_998));
        v.push(m);
        let mut m = sc("mainnet-halving-1950000", NetID::Mainnet, 0, cfg.clone(), depth);
        m.setup_labels = minted.clone();
        m.pre = cross(829_998);
        m.pre.push(Action::Jump(1_949_998));
        v.push(m);
        let mut m = sc("mainnet-tip901-42700", NetID::Mainnet, 0, cfg.clone(), depth);
        m.setup_labels = minted.clone();
        m.pre = vec![Action::Jump(42_698)];
        v.push(m);
        let mut t = sc("testnet-tip909-halving-1950000", NetID::Testnet, 0, cfg.clone(), depth);
        t.pre = cross(498);
        t.pre.push(Action::Jump(1_949_998));
        v.push(t);
    }
    v
}

/// Root whose wallet holds very large coins (2^110 and 2^100-ish of MEL, SYM and ERG; every total stays below 2^127).
pub fn root_huge(net: NetID) -> Node {
    let w = world_mel(net, 1 << 110, 0);
    let mut u = w.genesis.clone();
    let big = 1u128 << 110;
    let f = tx_t(
        TxKind::Faucet,
        vec![],
        vec![
            out_t(big + 1, Denom::Mel), out_t((1 << 100) + 12345, Denom::Mel), out_t((1 << 101) + 777, Denom::Mel),
            out_t(big + 2, Denom::Sym), out_t((1 << 100) + 54321, Denom::Sym), out_t((1 << 101) + 999, Denom::Sym),
            out_t(big + 3, Denom::Erg), out_t((1 << 100) + 11111, Denom::Erg),
        ],
        0,
        b"huge".to_vec(),
    );
    u.apply_tx(&f).expect("huge faucet");
    let mut universe = vec![CoinID::zero_zero(), faucet_marker(f.hash_nosigs())];
    for i in 0..f.outputs.len() {
        universe.push(f.output_coinid(i as u8));
    }
    let s = u.seal(None);
    let model = model_of(&s, &universe, &builtin_pool_keys(), &[f]);
    let h0 = s.header();
    std::mem::forget(w);
    Node::new_root(Real::Sealed(s), model, format!("genesis[{:?}, huge coins]", net), json!({"root": "huge-coins", "network": format!("{:?}", net)}), vec![h0])
}
