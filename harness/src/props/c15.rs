//! C15 — Melswap settles only genuine requests, at one fair price, pro rata.
use crate::alphabet::{action_dest, AlphaCfg};
use crate::props::e1::*;
use crate::report::Run;
use melstructs::NetID;
use serde_json::json;

fn cfg_requests() -> AlphaCfg {
    let mut c = crate::props::c01::pool_cfg();
    c.burnt_requests = true;
    c.odd_shapes = true;
    c.transfers = false;
    c.overpay = false;
    c.mints = true;
    c.max_txs_per_block = 3;
    c.seal_actions = vec![None];
    c
}

fn cfg_spellings() -> AlphaCfg {
    let mut c = cfg_requests();
    c.pool_spellings = true;
    c.other_kinds_with_pool_data = true;
    c.mints = false;
    c.max_txs_per_block = 2;
    c
}

pub fn scenarios(thorough: bool) -> Vec<Scenario> {
    let mut v = vec![
        sc("custom02-requests", NetID::Custom02, 0, cfg_requests(), if thorough { 8 } else { 5 }),
        sc("custom02-spellings-and-kinds", NetID::Custom02, 0, cfg_spellings(), if thorough { 7 } else { 4 }),
    ];
    let mut two = crate::props::c01::pool_cfg();
    two.seal_actions = vec![None, Some(action_dest(1))];
    two.odd_shapes = true;
    v.push(sc("custom02-pools-history", NetID::Custom02, 0, two, if thorough { 9 } else { 6 }));
    // the legacy deposit rule ends at 978392 on mainnet/testnet; TIP-902 changes the peg at 180000 (one request per block)
    let mut bc = cfg_requests();
    bc.max_txs_per_block = 1;
    bc.mints = false;
    v.extend(boundary_scenarios(&bc, if thorough { 7 } else { 5 }, thorough));
    if thorough {
        v.push(sc("testnet-requests", NetID::Testnet, 0, cfg_requests(), 7));
        v.push(sc("custom08-requests", NetID::Custom08, 0, cfg_requests(), 6));
    }
    v
}

/// Amounts near the maximum coin value: deposits of 2^110 into the built-in pools, then several swaps of 2^100 and 2^101 per side and block.
fn huge_amounts(run: &Run, thorough: bool) {
    let rootn = root_huge(NetID::Custom02);
    let mut cfg = cfg_requests();
    cfg.mints = false;
    cfg.withdrawals = false;
    cfg.swaps_per_side = 3;
    cfg.max_txs_per_block = 3;
    cfg.only_pools = Some(vec![melstructs::PoolKey::new(melstructs::Denom::Mel, melstructs::Denom::Sym)]);
    cfg.burnt_requests = false;
    let eng = crate::stf::Engine::new(run);
    let c2 = cfg.clone();
    let acts = move |n: &crate::stf::Node| crate::alphabet::actions(n, &c2);
    let visit = |_n: &crate::stf::Node| {};
    let st = crate::stf::bfs(&eng, vec![rootn], if thorough { 8 } else { 7 }, 400_000, &acts, &visit);
    run.set("scenario:custom02-huge-amounts", json!({"depth_bound_completed": st.depth_completed, "unique_states": st.states, "transitions": st.transitions}));
    println!("  scenario custom02-huge-amounts: depth {} states {} transitions {}", st.depth_completed, st.states, st.transitions);
}

pub fn run(run: &Run) {
    huge_amounts(run, run.thorough());
    for sc in scenarios(run.thorough()) {
        sample_alphabet(run, &sc);
        let st = run_scenario(run, &sc, 2_000_000);
        println!("  scenario {}: depth {} states {} transitions {}", sc.name, st.depth_completed, st.states, st.transitions);
    }
    run.sample(json!({"path": ["genesis[Custom02]", "open", "Normal-with-pool-data[MEL/SYM:canonical](MEL)", "seal(None)"], "oracle": "outputs of a transaction that is not a swap/deposit/withdrawal request are unchanged by sealing"}));
    run.sample(json!({"path": ["genesis[Custom02]", "open", "swap[MEL/SYM:canonical](MEL)", "swap[MEL/SYM:canonical](SYM)", "seal(None)"], "oracle": "coins and pools after sealing equal the reference settlement (single price, pro-rata floor, exact reserve movement)"}));
    run.assume("pool arithmetic (swap_many, deposit, withdraw) of the melstructs crate is trusted; the orchestration is compared with refstf.rs");
    run.assume("blocks containing a request whose treatment the statement leaves open (non-canonical pool name, zero value, unhonourable withdrawal) are checked by invariants only");
}
