//! C15 — Melswap settles only genuine requests, at one fair price, pro rata.
use crate::alphabet::{action_dest, AlphaCfg};
use crate::props::e1::*;
use crate::report::Run;
use melstructs::NetID;
use serde_json::json;

fn cfg_requests() -> AlphaCfg {
    let mut c = crate::props::c01::pool_cfg();
    c.burnt_requests = true;
    c.odd_shapes = true;
    c.transfers = false;
    c.overpay = false;
    c.mints = true;
    c.max_txs_per_block = 3;
    c.seal_actions = vec![None];
    c
}

fn cfg_spellings() -> AlphaCfg {
    let mut c = cfg_requests();
    c.pool_spellings = true;
    c.other_kinds_with_pool_data = true;
    c.mints = false;
    c.max_txs_per_block = 2;
    c
}

pub fn scenarios(thorough: bool) -> Vec<Scenario> {
    let mut v = vec![
        sc("custom02-requests", NetID::Custom02, 0, cfg_requests(), if thorough { 8 } else { 5 }),
        sc("custom02-spellings-and-kinds", NetID::Custom02, 0, cfg_spellings(), if thorough { 7 } else { 4 }),
    ];
    let mut two = crate::props::c01::pool_cfg();
    two.seal_actions = vec![None, Some(action_dest(1))];
    two.odd_shapes = true;
    v.push(sc("custom02-pools-history", NetID::Custom02, 0, two, if thorough { 9 } else { 6 }));
    // the legacy deposit rule ends at 978392 on mainnet/testnet; TIP-902 changes the peg at 180000 (one request per block)
    let mut bc = cfg_requests();
    bc.max_txs_per_block = 1;
    bc.mints = false;
    v.extend(boundary_scenarios(&bc, if thorough { 7 } else { 5 }, thorough));
    if thorough {
        v.push(sc("testnet-requests", NetID::Testnet, 0, cfg_requests(), 7));
        v.push(sc("custom08-requests", NetID::Custom08, 0, cfg_requests(), 6));
    }
    v
}

/// Amounts near the maximum coin value: deposits of 2^110 into the built-in pools, then several swaps of 2^100 and 2^101 per side and block.
pub fn huge_amounts(run: &Run, thorough: bool) {
    let rootn = root_huge(NetID::Custom02);
    let mut cfg = cfg_requests();
    cfg.mints = false;
    cfg.withdrawals = false;
    cfg.swaps_per_side = 3;
    cfg.max_txs_per_block = 3;
    cfg.only_pools = Some(vec![melstructs::PoolKey::new(melstructs::Denom::Mel, melstructs::Denom::Sym)]);
    cfg.burnt_requests = false;
    let eng = crate::stf::Engine::new(run);
    let c2 = cfg.clone();
    let acts = move |n: &crate::stf::Node| crate::alphabet::actions(n, &c2);
    let visit = |_n: &crate::stf::Node| {};
    let st = crate::stf::bfs(&eng, vec![rootn], if thorough { 8 } else { 7 }, 400_000, &acts, &visit);
    run.set("scenario:custom02-huge-amounts", json!({"depth_bound_completed": st.depth_completed, "unique_states": st.states, "transitions": st.transitions}));
    println!("  scenario custom02-huge-amounts: depth {} states {} transitions {}", st.depth_completed, st.states, st.transitions);
}

/// A user-created pool whose whole liquidity sits in three wallet coins of uneven size, with uneven reserves (a swap went through):
/// every block of up to three withdrawals is explored, among them the ones that together redeem 100% - each request gets its
/// pro-rata share rounded down, whoever comes last.
pub fn user_pool_emptied_by_several_withdrawals(run: &Run, thorough: bool) {
    use crate::stf::*;
    use crate::world::*;
    use melstructs::{Denom, PoolKey, TxKind};
    let (_w, rootn) = root(NetID::Custom02, 0, true);
    let scratch = Run::new("scratch", "quick");
    let mut cfg = cfg_requests();
    cfg.burnt_requests = false;
    cfg.odd_shapes = false;
    cfg.seal_actions = vec![None];
    let n = match advance_by_labels(&scratch, rootn, &cfg, &["open", "mint(", "seal(None)", "open", "deposit[MEL/C", "seal(None)", "open", "swap[MEL/C", "seal(None)", "open"]) {
        Some(n) => n,
        None => {
            run.outcome("user-pool-prefix-unavailable");
            return;
        }
    };
    // the pool and the wallet's liquidity coin
    let pool = match n.model.pools.keys().find(|k| k.left() == Denom::Mel && matches!(k.right(), Denom::Custom(_))) {
        Some(k) => *k,
        None => { run.outcome("user-pool-scenario:early-return-1"); return; }
    };
    let liq = pool.liq_token_denom();
    let coin = match crate::alphabet::coins_of(&n.model, liq, 1).first() {
        Some(c) => c.clone(),
        None => { run.outcome("user-pool-scenario:early-return-2"); return; }
    };
    let carrier = match crate::alphabet::coins_of(&n.model, Denom::Mel, 12).into_iter().max_by_key(|c| c.1.coin_data.value.0) {
        Some(c) => c,
        None => { run.outcome("user-pool-scenario:early-return-3"); return; }
    };
    let v = coin.1.coin_data.value.0;
    if v < 10 {
        run.outcome("user-pool-scenario:liquidity-coin-too-small");
        return;
    }
    let (a, b) = (v / 3 + 1, v / 5 + 2);
    let mv = carrier.1.coin_data.value.0;
    if mv < 10_000 {
        run.outcome("user-pool-scenario:mel-carrier-too-small");
        return;
    }
    // (the MEL carrier is cut up as well: every withdrawal request of a block needs a MEL coin of its own)
    let split = tx_t(TxKind::Normal, vec![coin.0, carrier.0], vec![out_t(a, liq), out_t(b, liq), out_t(v - a - b, liq), out_t(mv - 3003, Denom::Mel), out_t(1000, Denom::Mel), out_t(1001, Denom::Mel), out_t(1002, Denom::Mel)], 0, vec![0x53]);
    let eng = Engine::new(run);
    let mut node = Some(n);
    for act in [Action::Batch { label: "split of the liquidity coin into three".into(), txs: vec![split], expect_ok: true }, Action::Seal(None)] {
        node = match node.as_ref().map(|x| eng.step(x, &act)) {
            Some(StepOut::Next(x)) => Some(x),
            _ => None,
        };
    }
    let start = match node {
        Some(x) => x,
        None => { run.outcome("user-pool-scenario:early-return-4"); return; }
    };
    let pool_at_start = start.model.pools.get(&pool).map(|p| json!({"lefts": p.lefts.to_string(), "rights": p.rights.to_string(), "liqs": p.liqs.to_string()}));
    let mut c2 = cfg.clone();
    c2.swaps = false;
    c2.deposits = false;
    c2.mints = false;
    c2.max_txs_per_block = 3;
    c2.only_pools = Some(vec![pool]);
    if let StepOut::Next(o) = Engine::new(&scratch).step(&start, &Action::Open) {
        run.set("alphabet_after_the_split", json!(crate::alphabet::actions(&o, &c2).iter().map(|a| a.label()).collect::<Vec<_>>()));
    }
    let acts = move |n: &Node| crate::alphabet::actions(n, &c2);
    let visit = |n: &Node| {
        // non-vacuity: sealed states in which several withdrawals of one block have emptied the pool
        if !n.is_open() {
            let w = n.model.block_txs.values().filter(|t| t.kind == TxKind::LiqWithdraw).count();
            if w >= 2 && n.model.pools.get(&pool).map(|p| p.liqs == 0).unwrap_or(false) {
                run.outcome(&format!("user-pool-emptied-by-{}-withdrawals-in-one-block", w));
            }
        }
    };
    let st = bfs(&eng, vec![start], if thorough { 7 } else { 5 }, 300_000, &acts, &visit);
    run.set("scenario:user-pool-emptied-by-several-withdrawals", json!({"depth_bound_completed": st.depth_completed, "unique_states": st.states, "transitions": st.transitions, "liquidity_coins": [a.to_string(), b.to_string(), (v - a - b).to_string()], "pool_before_the_withdrawals": pool_at_start}));
    println!("  scenario user-pool-emptied-by-several-withdrawals: depth {} states {} transitions {}", st.depth_completed, st.states, st.transitions);
    let _ = PoolKey::new(Denom::Mel, Denom::Sym);
}

pub fn run(run: &Run) {
    // withdrawals whose share of both reserves rounds to zero, and the smallest request there is (the seal oracles of this property
    // compare every settled coin with the reference settlement)
    crate::props::c16::withdrawals_whose_share_rounds_to_zero(run);
    long_histories(run, run.thorough());
    user_pool_emptied_by_several_withdrawals(run, run.thorough());
    huge_amounts(run, run.thorough());
    // C16's scenario of a custom pool wholly held by the wallet in several coins: blocks of up to three withdrawals, among them
    // those that together redeem all of the pool's liquidity (settled pro rata, rounded down, like any other)
    crate::props::c16::custom_pool_withdrawals(run, run.thorough());
    // requests that are *not* settled (the liquidity they would mint does not fit the pool's record) leave the pool where it was:
    // C16's histories of pools at the edge of their 128-bit record, judged here by the settlement oracles
    crate::props::c16::lopsided_huge_pool(run);
    crate::props::c16::huge_pool_histories(run, run.thorough());
    for sc in scenarios(run.thorough()) {
        sample_alphabet(run, &sc);
        let st = run_scenario(run, &sc, 2_000_000);
        println!("  scenario {}: depth {} states {} transitions {}", sc.name, st.depth_completed, st.states, st.transitions);
    }
    run.sample(json!({"path": ["genesis[Custom02]", "open", "Normal-with-pool-data[MEL/SYM:canonical](MEL)", "seal(None)"], "oracle": "outputs of a transaction that is not a swap/deposit/withdrawal request are unchanged by sealing"}));
    run.sample(json!({"path": ["genesis[Custom02]", "open", "swap[MEL/SYM:canonical](MEL)", "swap[MEL/SYM:canonical](SYM)", "seal(None)"], "oracle": "coins and pools after sealing equal the reference settlement (single price, pro-rata floor, exact reserve movement)"}));
    run.assume("pool arithmetic (swap_many, deposit, withdraw) of the melstructs crate is trusted; the orchestration is compared with refstf.rs");
    run.assume("blocks containing a request whose treatment the statement leaves open (non-canonical pool name, zero value, unhonourable withdrawal) are checked by invariants only");
}
