//! C06 — a block is accepted exactly when it is the correct successor.
//! Every parent within the depth bound x every child block built on it x every single mutation.
use crate::alphabet::*;
use crate::guard::guard;
use crate::props::e1::*;
use crate::report::Run;
use crate::stf::*;
use crate::world::*;
use melstructs::{Block, BlockHeight, CoinValue, Header, NetID, ProposerAction, Transaction};
use rayon::prelude::*;
use serde_json::json;
use std::collections::HashSet;
use tmelcrypt::HashVal;

/// The first sentence of the statement, computed without apply_block.
fn expected(parent: &Sealed, b: &Block) -> Result<Option<Header>, String> {
    let txs: Vec<Transaction> = b.transactions.iter().cloned().collect();
    let r = guard(|| {
        let mut u = parent.next_unsealed();
        if u.apply_tx_batch(&txs).is_err() {
            return None;
        }
        Some(u.seal(b.proposer_action).header())
    });
    match r {
        Err(p) => Err(p.class()),
        Ok(None) => Ok(None),
        Ok(Some(h)) => Ok(if h == b.header { Some(h) } else { None }),
    }
}

fn flip(h: HashVal) -> HashVal {
    let mut x = h.0;
    x[7] ^= 0x10;
    HashVal(x)
}

fn header_mutations(h: &Header) -> Vec<(&'static str, Header)> {
    let mut v = vec![];
    let mut m = |name: &'static str, f: &dyn Fn(&mut Header)| {
        let mut x = *h;
        f(&mut x);
        v.push((name, x));
    };
    m("network", &|x| x.network = if x.network == NetID::Custom03 { NetID::Custom04 } else { NetID::Custom03 });
    m("network", &|x| x.network = if x.network == NetID::Mainnet { NetID::Testnet } else { NetID::Mainnet });
    m("previous", &|x| x.previous = flip(x.previous));
    m("previous", &|x| x.previous = HashVal::default());
    m("height", &|x| x.height = BlockHeight(x.height.0 + 1));
    m("height", &|x| x.height = BlockHeight(x.height.0.saturating_sub(1)));
    m("history_hash", &|x| x.history_hash = flip(x.history_hash));
    m("history_hash", &|x| x.history_hash = HashVal::default());
    m("coins_hash", &|x| x.coins_hash = flip(x.coins_hash));
    m("coins_hash", &|x| x.coins_hash = x.pools_hash);
    m("transactions_hash", &|x| x.transactions_hash = flip(x.transactions_hash));
    m("transactions_hash", &|x| x.transactions_hash = HashVal([0xff; 32]));
    m("fee_pool", &|x| x.fee_pool = CoinValue(x.fee_pool.0 + 1));
    m("fee_pool", &|x| x.fee_pool = CoinValue(x.fee_pool.0 ^ (1 << 40)));
    m("fee_multiplier", &|x| x.fee_multiplier += 1);
    m("fee_multiplier", &|x| x.fee_multiplier ^= 1 << 64);
    m("dosc_speed", &|x| x.dosc_speed += 1);
    m("dosc_speed", &|x| x.dosc_speed = x.dosc_speed.saturating_sub(1));
    m("pools_hash", &|x| x.pools_hash = flip(x.pools_hash));
    m("pools_hash", &|x| x.pools_hash = x.coins_hash);
    m("stakes_hash", &|x| x.stakes_hash = flip(x.stakes_hash));
    m("stakes_hash", &|x| x.stakes_hash = HashVal([1; 32]));
    v
}

fn judge(run: &Run, parent: &Sealed, b: &Block, what: &str, must_reject: bool, path: &str, label: &str) {
    run.transition();
    let exp = match expected(parent, b) {
        Ok(e) => e,
        Err(_) => {
            run.outcome("expected-side-panicked(reported under C09)");
            return;
        }
    };
    let got = guard(|| parent.apply_block(b).map(|s| s.header()));
    run.validated();
    let replay = json!({"parent_path": path, "block": label, "mutation": what, "block_stdcode_hex": hex::encode(stdcode::serialize(b).unwrap())});
    if must_reject {
        // second sentence of the statement: a block altered in a header field or in its transaction set is rejected - whatever
        // the batch/seal path says about it (the mutated block differs from the honest one by construction)
        if let Ok(Ok(_)) = &got {
            run.violation("C06", format!("accepts-altered-block/{}", what), format!("apply_block accepted {} altered by [{}] on [{}]", label, what, path), replay);
            return;
        }
        if exp.is_some() {
            run.outcome(&format!("altered-block-rejected-although-batch-path-accepts:{}", what));
            return;
        }
    }
    match (exp, got) {
        (_, Err(p)) => {
            run.outcome("apply_block-panicked(reported under C09)");
            let _ = p;
        }
        (Some(h), Ok(Ok(g))) => {
            if g != h {
                run.violation("C06", format!("returned-state-has-other-header/{}", what), format!("apply_block({} on [{}]) returned a state whose header differs from the block's", label, path), replay);
            }
            run.outcome(&format!("accepted:{}", what.split(':').next().unwrap()));
        }
        (Some(_), Ok(Err(e))) => {
            run.violation("C06", format!("rejects-correct-successor/{}", what), format!("apply_block rejected {} [{}] on [{}]: {}", label, what, path, e), replay);
        }
        (None, Ok(Ok(_))) => {
            run.violation("C06", format!("accepts-wrong-block/{}", what), format!("apply_block accepted {} mutated by [{}] on [{}]", label, what, path), replay);
        }
        (None, Ok(Err(_))) => run.outcome(&format!("rejected:{}", what.split(':').next().unwrap())),
    }
}

fn children(open: &Node, cfg: &AlphaCfg, max_batch: usize) -> Vec<(String, Vec<Transaction>)> {
    let alpha: Vec<(String, Transaction, bool)> = tx_alphabet(open, cfg).into_iter().filter(|x| x.2).collect();
    let mut v: Vec<(String, Vec<Transaction>)> = vec![("empty".into(), vec![])];
    for (l, t, _) in &alpha {
        v.push((l.clone(), vec![t.clone()]));
    }
    // dependent members: a transaction and the spend of its first output in one block
    for (l, a, _) in alpha.iter().take(4) {
        if let Some(o0) = a.outputs.first() {
            if o0.covhash == addr_true() && o0.denom == melstructs::Denom::Mel {
                let b = tx_t(melstructs::TxKind::Normal, vec![a.output_coinid(0)], vec![out_t(o0.value.0, melstructs::Denom::Mel)], 0, vec![0xc4]);
                v.push((format!("{}+chain", l), vec![a.clone(), b]));
            }
        }
    }
    // a stake with a change output and the spend of that change
    for (l, a, _) in alpha.iter() {
        if a.kind == melstructs::TxKind::Stake && a.outputs.len() >= 2 {
            let b = tx_t(melstructs::TxKind::Normal, vec![a.output_coinid(1)], vec![out_t(a.outputs[1].value.0, melstructs::Denom::Mel)], 0, vec![0xc8]);
            v.push((format!("{}+spend-of-its-change", l), vec![a.clone(), b]));
        }
    }
    if max_batch >= 2 {
        for i in 0..alpha.len() {
            for j in (i + 1)..alpha.len() {
                if alpha[i].1.inputs.iter().all(|x| !alpha[j].1.inputs.contains(x)) && v.len() < 60 {
                    v.push((format!("{}+{}", alpha[i].0, alpha[j].0), vec![alpha[i].1.clone(), alpha[j].1.clone()]));
                }
            }
        }
    }
    if max_batch >= 3 && alpha.len() >= 3 {
        for i in 0..alpha.len().min(4) {
            for j in (i + 1)..alpha.len().min(6) {
                for k in (j + 1)..alpha.len().min(8) {
                    let ins: Vec<_> = [&alpha[i].1, &alpha[j].1, &alpha[k].1].iter().flat_map(|t| t.inputs.clone()).collect();
                    let uniq: HashSet<_> = ins.iter().collect();
                    if uniq.len() == ins.len() {
                        v.push((format!("{}+{}+{}", alpha[i].0, alpha[j].0, alpha[k].0), vec![alpha[i].1.clone(), alpha[j].1.clone(), alpha[k].1.clone()]));
                    }
                }
            }
        }
    }
    v
}

fn check_parent(run: &Run, pnode: &Node, cfg: &AlphaCfg, max_batch: usize) {
    let parent = match &pnode.real {
        Real::Sealed(s) => s.clone(),
        _ => return,
    };
    let scratch = Run::new("scratch", "quick");
    let eng = Engine::new(&scratch);
    let open = match eng.step(pnode, &Action::Open) {
        StepOut::Next(o) => o,
        _ => return,
    };
    let path = pnode.path_str();
    let all_txs: Vec<(String, Transaction, bool)> = tx_alphabet(&open, cfg);
    let actions: Vec<Option<ProposerAction>> = vec![None, Some(action_dest(5))];
    let mut tasks: Vec<(String, Vec<Transaction>, Option<ProposerAction>)> = children(&open, cfg, max_batch).into_iter().flat_map(|(l, b)| actions.iter().map(move |a| (l.clone(), b.clone(), *a)).collect::<Vec<_>>()).collect();
    // the strongest votes on the fee multiplier (blocks of at most one transaction)
    let strong: Vec<(String, Vec<Transaction>, Option<ProposerAction>)> = tasks
        .iter()
        .filter(|(_, b, a)| b.len() <= 1 && a.is_some())
        .take(4)
        .flat_map(|(l, b, _)| [127i8, -128].into_iter().map(move |d| (format!("{}/delta={}", l, d), b.clone(), Some(ProposerAction { fee_multiplier_delta: d, reward_dest: addr_true() }))).collect::<Vec<_>>())
        .collect();
    tasks.extend(strong);
    let invalid: Vec<Transaction> = all_txs.iter().filter(|x| !x.2).map(|x| x.1.clone()).take(4).collect();
    let valid_others: Vec<Transaction> = all_txs.iter().filter(|x| x.2 && x.1.kind != melstructs::TxKind::Faucet).map(|x| x.1.clone()).take(3).collect();
    tasks.par_iter().for_each(|(label, batch, act)| {
        {
            // a proposer whose mempool also held transactions that turned out invalid (and duplicates): the failed attempts leave
            // no trace, the block is as honest as any other
            if !batch.is_empty() && batch.len() <= 2 {
                let seq = guard(|| {
                    let mut u = parent.next_unsealed();
                    // what the state accepted (an attempt meant to fail may legitimately succeed: the grandfathered faucet on mainnet
                    // may be applied again, and then its companion transaction is part of the block)
                    let mut applied: std::collections::BTreeSet<melstructs::TxHash> = Default::default();
                    let mut an_attempt_meant_to_fail_succeeded = false;
                    // the same members applied one at a time to a state that sees no failed attempts (the control)
                    let mut control = parent.next_unsealed();
                    for t in batch.iter() {
                        let control_accepts = control.apply_tx(t).is_ok();
                        for inv in &invalid {
                            if u.apply_tx(inv).is_ok() {
                                applied.insert(inv.hash_nosigs());
                                an_attempt_meant_to_fail_succeeded = true;
                            }
                        }
                        // attempts that hold the transaction twice (a re-signed copy; a rival spender of the same coins) come first: they
                        // are refused as a whole, and if one is not, what it left in the block is what the block must say
                        let mut resigned = t.clone();
                        resigned.sigs.push(vec![0xbc; 64].into());
                        let mut in_block = false;
                        if u.apply_tx_batch(&[t.clone(), resigned]).is_ok() {
                            applied.insert(t.hash_nosigs());
                            in_block = true;
                        }
                        if !in_block && !t.inputs.is_empty() {
                            let mut rival = t.clone();
                            rival.data = vec![0x7e, 0x7e].into();
                            if u.apply_tx_batch(&[t.clone(), rival.clone()]).is_ok() {
                                applied.insert(t.hash_nosigs());
                                applied.insert(rival.hash_nosigs());
                                in_block = true;
                            }
                        }
                        if !in_block {
                            if let Err(e) = u.apply_tx(t) {
                                // the transaction is acceptable on a state that has seen no failed attempts (the control
                                // accepts it); if every attempt before it was refused, the refusals have left something behind
                                // (a member that is only acceptable inside its batch - the spend of a fresh stake's change - is
                                // refused by the control too)
                                if an_attempt_meant_to_fail_succeeded || !control_accepts {
                                    return None;
                                }
                                return Some(Err(format!("{}", e)));
                            }
                            applied.insert(t.hash_nosigs());
                        }
                        let _ = u.apply_tx(t);
                        let _ = u.apply_tx_batch(&[t.clone(), t.clone()]);
                        // a batch whose *last* member fails late (a faucet already in the block): its earlier members must not stay behind
                        if t.kind == melstructs::TxKind::Faucet {
                            for v in valid_others.iter().filter(|v| !batch.iter().any(|b| b.hash_nosigs() == v.hash_nosigs() || b.inputs.iter().any(|i| v.inputs.contains(i)))) {
                                run.outcome("failed-attempts:late-failing-batch-tried");
                                if u.apply_tx_batch(&[v.clone(), t.clone()]).is_ok() {
                                    applied.insert(v.hash_nosigs());
                                }
                            }
                        }
                    }
                    Some(Ok((u.seal(*act), applied.len())))
                });
                if let Ok(Some(Err(e))) = &seq {
                    run.transition();
                    run.violation(
                        "C06",
                        "refused-attempts-make-an-honest-transaction-fail".into(),
                        format!("a proposer on [{}] whose earlier attempts (invalid transactions, a batch holding a transaction twice, a rival pair) were all refused cannot apply the honest [{}] any more: {}", path, label, e),
                        json!({"parent_path": path, "block": label}),
                    );
                    run.validated();
                }
                if let Ok(Some(Ok((c, accepted)))) = seq {
                    let blk = c.to_block();
                    run.transition();
                    if blk.transactions.len() != accepted {
                        run.violation("C06", "failed-attempt-left-a-transaction".into(), format!("after failed attempts the block [{}] on [{}] holds {} transactions although {} were accepted", label, path, blk.transactions.len(), accepted), json!({"parent_path": path, "block": label}));
                    } else if let Ok(Err(e)) = guard(|| {
                        run.outcome("failed-attempts:block-handed-to-its-parent");
                        parent.apply_block(&blk).map(|s| s.header())
                    }) {
                        run.violation(
                            "C06",
                            "rejects-block-built-with-failed-attempts".into(),
                            format!("the block [{}] built on [{}] by a proposer that also tried invalid and duplicate transactions (all refused) is rejected by apply_block: {}", label, path, e),
                            json!({"parent_path": path, "block": label, "block_stdcode_hex": hex::encode(stdcode::serialize(&blk).unwrap())}),
                        );
                    }
                    run.validated();
                }
            }
        }
        {
            // a block built the way a proposer builds it - one transaction at a time - is honest too and must be accepted
            if batch.len() >= 2 {
                let seq = guard(|| {
                    let mut u = parent.next_unsealed();
                    for t in batch.iter() {
                        u.apply_tx(t).ok()?;
                    }
                    Some(u.seal(*act))
                });
                if let Ok(Some(c)) = seq {
                    let blk = c.to_block();
                    judge(run, &parent, &blk, "honest-built-one-transaction-at-a-time", false, &path, &format!("{}{}", label, if act.is_some() { "/action" } else { "" }));
                    // and here the first sentence is not enough (it is evaluated through the batch path): the statement says every honestly built block is accepted
                    run.transition();
                    if let Ok(Err(e)) = guard(|| parent.apply_block(&blk).map(|s| s.header())) {
                        run.violation(
                            "C06",
                            "rejects-block-built-one-transaction-at-a-time".into(),
                            format!("the block [{}] built on [{}] by applying its transactions one at a time and sealing is rejected by apply_block: {}", label, path, e),
                            json!({"parent_path": path, "block": label, "block_stdcode_hex": hex::encode(stdcode::serialize(&blk).unwrap())}),
                        );
                    }
                    run.validated();
                }
            }
            // a block that holds a double spend by construction (a member and a rival spending the same coins), with whatever header
            // the implementation's own seal gives it: not all of its transactions are valid, so it is not accepted
            for t in batch.iter().filter(|t| !t.inputs.is_empty()) {
                let mut rival = t.clone();
                rival.data = vec![0x7e, 0x7e, 0x01].into();
                let mut bad = batch.clone();
                bad.push(rival);
                let built = guard(|| {
                    let mut u = parent.next_unsealed();
                    u.apply_tx_batch(&bad).ok()?;
                    Some(u.seal(*act).to_block())
                });
                run.transition();
                if let Ok(Some(blk)) = built {
                    if let Ok(Ok(_)) = guard(|| parent.apply_block(&blk).map(|s| s.header())) {
                        run.violation(
                            "C06",
                            "accepts-block-with-double-spend".into(),
                            format!("apply_block accepted a block on [{}] that holds [{}] and a second transaction spending the same coins as one of them", path, label),
                            json!({"parent_path": path, "block": label, "block_stdcode_hex": hex::encode(stdcode::serialize(&blk).unwrap())}),
                        );
                    }
                }
                run.validated();
            }
            // honest child
            let child = guard(|| {
                let mut u = parent.next_unsealed();
                u.apply_tx_batch(&batch).ok()?;
                Some(u.seal(*act))
            });
            let child = match child {
                Ok(Some(c)) => c,
                _ => return,
            };
            run.state();
            let blk = child.to_block();
            let label = format!("{}{}", label, if act.is_some() { "/action" } else { "" });
            // honest block is accepted
            judge(run, &parent, &blk, "honest", false, &path, &label);
            // header mutations
            for (name, h) in header_mutations(&blk.header) {
                if h == blk.header {
                    continue;
                }
                let mut b = blk.clone();
                b.header = h;
                judge(run, &parent, &b, &format!("header:{}", name), true, &path, &label);
            }
            // remove each transaction
            for t in blk.transactions.iter() {
                let mut b = blk.clone();
                b.transactions.remove(t);
                judge(run, &parent, &b, "tx:removed", true, &path, &label);
            }
            // add each alphabet transaction (valid and invalid) that is not in the block
            for (l, t, ok) in all_txs.iter().take(24) {
                if blk.transactions.contains(t) {
                    continue;
                }
                let mut b = blk.clone();
                b.transactions.insert(t.clone());
                judge(run, &parent, &b, &format!("tx:added-{}", if *ok { "valid" } else { "invalid" }), true, &path, &format!("{} + {}", label, l));
            }
            // add a signature variant of a member (same hash_nosigs, different sigs): the set now holds the transaction twice
            for t in blk.transactions.iter() {
                let mut b = blk.clone();
                let mut t2 = t.clone();
                t2.sigs.push(vec![0xbb; 64].into());
                b.transactions.insert(t2);
                judge(run, &parent, &b, "tx:added-signature-variant-of-member", true, &path, &label);
            }
            // add a rival of a member: another transaction (another hash) spending the very same coins - for a member that spends
            // a coin made in this block, the double spend is of a coin the parent state does not hold
            for t in blk.transactions.iter().filter(|t| !t.inputs.is_empty() && t.kind == melstructs::TxKind::Normal) {
                let mut b = blk.clone();
                let mut t2 = t.clone();
                t2.data = vec![0x7e, 0x7e].into();
                b.transactions.insert(t2);
                judge(run, &parent, &b, "tx:added-rival-spender-of-member", true, &path, &label);
            }
            // replace each transaction: other output value / same hash_nosigs but extra signature
            for t in blk.transactions.iter() {
                let mut b = blk.clone();
                b.transactions.remove(t);
                let mut t2 = t.clone();
                t2.sigs.push(vec![0xaa; 64].into());
                b.transactions.insert(t2);
                judge(run, &parent, &b, "tx:same-hash-other-sigs", true, &path, &label);
                if !t.outputs.is_empty() {
                    let mut b = blk.clone();
                    b.transactions.remove(t);
                    let mut t3 = t.clone();
                    t3.outputs[0].additional_data = vec![1].into();
                    b.transactions.insert(t3);
                    judge(run, &parent, &b, "tx:other-output-data", true, &path, &label);
                }
            }
            // proposer action mutations: here the oracle is the first sentence itself (a change may be without effect on the header)
            let mut acts: Vec<(&str, Option<ProposerAction>)> = vec![];
            match act {
                None => acts.push(("action:none-to-some", Some(action_dest(0)))),
                Some(a) => {
                    acts.push(("action:some-to-none", None));
                    if let Some(d) = a.fee_multiplier_delta.checked_add(1) {
                        acts.push(("action:delta+1", Some(ProposerAction { fee_multiplier_delta: d, ..*a })));
                    }
                    if let Some(d) = a.fee_multiplier_delta.checked_sub(1) {
                        acts.push(("action:delta-1", Some(ProposerAction { fee_multiplier_delta: d, ..*a })));
                    }
                    let other = if a.reward_dest == addr_true() { action_dest(9).reward_dest } else { addr_true() };
                    acts.push(("action:other-dest", Some(ProposerAction { reward_dest: other, ..*a })));
                }
            }
            for (name, a2) in acts {
                let mut b = blk.clone();
                b.proposer_action = a2;
                // an action added, removed or paid to somebody else is "changing the proposer action" of the second sentence: the
                // block must be rejected whatever the reward is worth (a reward of zero still names its receiver).  A vote moved by
                // one unit may leave the multiplier where it was (small multipliers): there the first sentence decides.
                let must_reject = !name.starts_with("action:delta");
                judge(run, &parent, &b, name, must_reject, &path, &label);
            }
        }
    });
}

/// "Changing a transaction makes the block rejected" where the forger adjusts the header as well: a member that spends a coin under
/// a signature covenant is replaced by a twin with the same signature-free hash and a signature of the same length that does not
/// verify (a flipped bit, another key's signature, zeroes), and the header's transaction commitment is rebuilt for the altered set
/// outside the code under test (`c07::tx_root_of`).  Every other header field is what the honest block says - weight, fees and
/// outputs are the same - so only the covenant run can refuse the block, and it has to refuse it although this very process has
/// just validated the honest sibling (seed C06-r13-2: a memo of approved covenant runs keyed by the signature-free hash).
fn forged_signature_blocks(run: &Run) {
    use melstructs::{Denom, TxKind};
    for net in [NetID::Custom02, NetID::Custom08] {
        let w = world_mel(net, 10_000_000, 0);
        let g = w.genesis.clone().seal(None);
        let mut u = g.next_unsealed();
        let (newsig, legacy) = (cov_new(1), cov_legacy(1));
        let outs = vec![out(newsig.hash(), 1000, Denom::Mel), out(legacy.hash(), 2000, Denom::Mel), out_t(3000, Denom::Mel), out(newsig.hash(), 1500, Denom::Mel), out_t(10_000_000 - 7_500, Denom::Mel)];
        let fund = tx_t(TxKind::Normal, vec![melstructs::CoinID::zero_zero()], outs, 0, vec![]);
        if u.apply_tx(&fund).is_err() {
            run.outcome("forged-signature-blocks:corner-not-buildable");
            continue;
        }
        let parent = u.seal(None);
        let dense = net == NetID::Custom08;
        let path = format!("genesis[{:?}] ; funding block (coins under both signature covenants of key 1)", net);
        let bystander = tx_t(TxKind::Normal, vec![fund.output_coinid(2)], vec![out_t(3000, Denom::Mel)], 0, vec![0xe1]);
        let mut families: Vec<(&str, Transaction)> = vec![];
        for (name, idx, cov, value) in [("new-sig", 0u8, &newsig, 1000u128), ("legacy-sig", 1, &legacy, 2000)] {
            let mut t = mktx(TxKind::Normal, vec![fund.output_coinid(idx)], vec![out_t(value, Denom::Mel)], 0, vec![cov.to_bytes()], vec![0xe0 + idx]);
            t.sigs = vec![key(1).1.sign(&t.hash_nosigs().0).into()];
            families.push((name, t));
        }
        {
            // the signature covenant on the second input: its signature sits in slot 1
            let mut t = mktx(TxKind::Normal, vec![fund.output_coinid(2), fund.output_coinid(3)], vec![out_t(4500, Denom::Mel)], 0, vec![cov_true().to_bytes(), newsig.to_bytes()], vec![0xe7]);
            let sig: bytes::Bytes = key(1).1.sign(&t.hash_nosigs().0).into();
            t.sigs = vec![bytes::Bytes::new(), sig];
            families.push(("new-sig-on-second-input", t));
        }
        for (name, valid) in &families {
            for with_bystander in [false, true] {
                if with_bystander && valid.inputs.contains(&bystander.inputs[0]) {
                    continue;
                }
                for act in [None, Some(action_dest(5))] {
                    let members: Vec<Transaction> = if with_bystander { vec![valid.clone(), bystander.clone()] } else { vec![valid.clone()] };
                    let honest = guard(|| {
                        let mut c = parent.next_unsealed();
                        c.apply_tx_batch(&members).ok()?;
                        Some(c.seal(act).to_block())
                    });
                    let blk = match honest {
                        Ok(Some(b)) => b,
                        _ => {
                            run.outcome("forged-signature-blocks:honest-block-not-buildable");
                            continue;
                        }
                    };
                    run.state();
                    let label = format!("{}{}{}", name, if with_bystander { "+bystander" } else { "" }, if act.is_some() { "/action" } else { "" });
                    if tx_root_of_block(&blk, dense) != blk.header.transactions_hash.0 {
                        // the externally rebuilt commitment does not reproduce the honest header: C07's subject, nothing can be forged here
                        run.outcome("forged-signature-blocks:reference-commitment-differs(reported under C07)");
                        continue;
                    }
                    judge(run, &parent, &blk, "honest", false, &path, &label);
                    let slot = valid.sigs.iter().position(|s| !s.is_empty()).unwrap_or(0);
                    let good = valid.sigs[slot].clone();
                    let mut flipped = good.to_vec();
                    flipped[7] ^= 0x20;
                    let other: Vec<u8> = key(2).1.sign(&valid.hash_nosigs().0).to_vec();
                    for (vname, sig) in [("bit-flipped", flipped), ("another-keys", other), ("zeroes", vec![0u8; good.len()])] {
                        let mut twin = valid.clone();
                        twin.sigs[slot] = sig.into();
                        let mut b = blk.clone();
                        b.transactions.remove(valid);
                        b.transactions.insert(twin);
                        b.header.transactions_hash = HashVal(tx_root_of_block(&b, dense));
                        judge(run, &parent, &b, &format!("tx:signature-replaced-by-{}-header-adjusted", vname), true, &path, &label);
                    }
                    // the signature moved to the wrong slot (an empty one put in front), commitment adjusted as well
                    let mut moved = valid.clone();
                    moved.sigs.insert(0, bytes::Bytes::new());
                    moved.sigs.truncate(valid.sigs.len().max(slot + 2));
                    let mut b = blk.clone();
                    b.transactions.remove(valid);
                    b.transactions.insert(moved);
                    b.header.transactions_hash = HashVal(tx_root_of_block(&b, dense));
                    judge(run, &parent, &b, "tx:signature-moved-one-slot-header-adjusted", true, &path, &label);
                }
            }
        }
    }
}

fn tx_root_of_block(b: &Block, dense: bool) -> [u8; 32] {
    let txs: Vec<Transaction> = b.transactions.iter().cloned().collect();
    crate::props::c07::tx_root_of(&txs, dense)
}

/// A parent that has just been restarted (rebuilt with from_block from its own block and stake set) accepts what the parent
/// that kept running produces, and the other way round - at ordinary heights and around the ends of staking epochs, where the
/// stake set changes between a block and its successor.
fn restarted_parents(run: &Run) {
    use std::collections::BTreeMap;
    let mut stakes: BTreeMap<melstructs::TxHash, melstructs::StakeDoc> = BTreeMap::new();
    for (i, (start, end)) in [(0u64, 0u64), (0, 1), (1, 2), (0, 5)].into_iter().enumerate() {
        stakes.insert(melstructs::TxHash(HashVal([0x50 + i as u8; 32])), melstructs::StakeDoc { pubkey: key(i as u8).0, e_start: start, e_post_end: end, syms_staked: CoinValue(1000 + i as u128) });
    }
    let mut roots: Vec<(String, Sealed)> = vec![];
    for h in [0u64, 199_997, 399_997, 599_997] {
        let w = world(NetID::Custom02, out_t(1_000_000_000, melstructs::Denom::Mel), 1 << 30, 0, stakes.clone());
        let g = w.genesis.clone().seal(None);
        let s = if h == 0 { g } else { fabricate(&g, &w.db, NetID::Custom02, h, &[]) };
        roots.push((format!("genesis[Custom02+4 stakes]{}", if h == 0 { String::new() } else { format!(" ; jump({})", h) }), s));
    }
    for (name, root) in roots {
        let mut running = root;
        for step in 0..5usize {
            let rebuilt = match guard(|| crate::world::restart_from_disk(&running)) {
                Ok(r) => r,
                Err(_) => {
                    run.outcome("restarted-parent:rebuild-panics(reported under C09)");
                    break;
                }
            };
            let coin = melstructs::CoinID::zero_zero();
            let spend = tx_t(melstructs::TxKind::Normal, vec![coin], vec![out_t(1_000_000_000, melstructs::Denom::Mel)], 0, vec![step as u8]);
            for (what, txs, act) in [("empty", vec![], None), ("empty/action", vec![], Some(action_dest(1))), ("transfer/action", vec![spend.clone()], Some(action_dest(2)))] {
                for (builder_name, builder, judge_name, judge_state) in [("the parent that kept running", &running, "the restarted parent", &rebuilt), ("the restarted parent", &rebuilt, "the parent that kept running", &running)] {
                    let built = guard(|| {
                        let mut u = builder.next_unsealed();
                        u.apply_tx_batch(&txs).ok()?;
                        Some(u.seal(act).to_block())
                    });
                    run.transition();
                    if let Ok(Some(blk)) = built {
                        match guard(|| judge_state.apply_block(&blk).map(|s| s.header())) {
                            Ok(Ok(h)) if h == blk.header => run.outcome("restarted-parent:accepted"),
                            Ok(Ok(_)) => run.violation("C06", "restarted-parent/returned-header-differs".into(), format!("[{}] after {} block(s): block [{}] built by {} applied to {}", name, step, what, builder_name, judge_name), json!({"root": name, "blocks": step, "block": what})),
                            Ok(Err(e)) => run.violation(
                                "C06",
                                "restarted-parent/rejects-honest-block".into(),
                                format!("[{}] after {} block(s) (height {}): the block [{}] built by {} is rejected by {}: {}", name, step, running.header().height.0, what, builder_name, judge_name, e),
                                json!({"root": name, "blocks": step, "block": what, "built_by": builder_name, "block_stdcode_hex": hex::encode(stdcode::serialize(&blk).unwrap())}),
                            ),
                            Err(_) => run.outcome("restarted-parent:panic(reported under C09)"),
                        }
                    }
                    run.validated();
                }
            }
            running = match guard(|| running.next_unsealed().seal(if step % 2 == 0 { None } else { Some(action_dest(3)) })) {
                Ok(s) => s,
                Err(_) => break,
            };
            run.state();
        }
    }
}

pub fn run(run: &Run) {
    let thorough = run.thorough();
    let scratch = Run::new("scratch", "quick");
    let eng = Engine::new(&scratch);
    // (mainnet is in the quick tier too: findings V and W sat there)
    let mut nets = vec![(NetID::Custom02, 0u128), (NetID::Custom08, 0), (NetID::Testnet, 0), (NetID::Mainnet, 0)];
    // with a fee multiplier: the proposer's failed attempts then include underpaying transactions, which are refused late
    nets.push((NetID::Custom02, 65536));
    let mut total_parents = 0;
    for (net, fm) in nets {
        let (_w, rootn) = root(net, fm, true);
        let mut cfg = AlphaCfg::base();
        cfg.per_denom = 1;
        cfg.adversarial = false;
        cfg.pairs = false;
        cfg.swaps = true;
        cfg.deposits = true;
        cfg.max_txs_per_block = 1;
        cfg.seal_actions = vec![None, Some(action_dest(2))];
        let collected = parking_lot::Mutex::new(vec![]);
        let c2 = cfg.clone();
        let acts = move |n: &Node| actions(n, &c2);
        let visit = |n: &Node| {
            if !n.is_open() {
                collected.lock().push(n.clone());
            }
        };
        bfs(&eng, vec![rootn], if thorough { 6 } else { 3 }, 200_000, &acts, &visit);
        let parents: Vec<Node> = canonical_order(collected.into_inner()).into_iter().take(if thorough { 60 } else if fm > 0 { 5 } else { 14 }).collect();
        total_parents += parents.len();
        let mut ccfg = AlphaCfg::base();
        ccfg.per_denom = 2;
        ccfg.swaps = true;
        ccfg.deposits = true;
        ccfg.stakes = true;
        ccfg.adversarial = true;
        parents.par_iter().for_each(|p| check_parent(run, p, &ccfg, if thorough { 3 } else { 2 }));
    }
    // a large honest block: a chain of 150 dependent payments, assembled one transaction at a time, must be accepted by its parent
    // whatever order its transaction set is iterated in
    for net in [NetID::Custom02, NetID::Custom08] {
        let (_w, rootn) = root(net, 0, false);
        let parent = match &rootn.real {
            Real::Sealed(s) => s.clone(),
            _ => continue,
        };
        let built = guard(|| {
            let mut u = parent.next_unsealed();
            let mut coin = melstructs::CoinID::zero_zero();
            let mut txs = vec![];
            for i in 0..150u32 {
                let t = tx_t(melstructs::TxKind::Normal, vec![coin], vec![out_t(1_000_000_000, melstructs::Denom::Mel)], 0, i.to_be_bytes().to_vec());
                u.apply_tx(&t).ok()?;
                coin = t.output_coinid(0);
                txs.push(t);
            }
            Some((u.seal(None), txs))
        });
        if let Ok(Some((child, txs))) = built {
            let blk = child.to_block();
            for round in 0..6 {
                // the same block with its transaction set rebuilt (fresh hasher, rotated insertion order)
                let mut b2 = blk.clone();
                let mut set = std::collections::HashSet::with_hasher(Default::default());
                for k in 0..txs.len() {
                    set.insert(txs[(k + round * 37) % txs.len()].clone());
                }
                b2.transactions = set;
                run.transition();
                match guard(|| parent.apply_block(&b2).map(|s| s.header())) {
                    Ok(Ok(h)) if h == blk.header => run.outcome("large-honest-block:accepted"),
                    Ok(Ok(_)) => run.violation("C06", "large-honest-block/returned-header-differs".into(), format!("150-chain block on genesis[{:?}]", net), json!({"network": format!("{:?}", net), "chain": 150})),
                    Ok(Err(e)) => run.violation("C06", "rejects-large-honest-block".into(), format!("a block of a 150-transaction payment chain built on genesis[{:?}] one transaction at a time is rejected by apply_block (round {}): {}", net, round, e), json!({"network": format!("{:?}", net), "chain": 150, "round": round})),
                    Err(_) => run.outcome("large-honest-block:panic(reported under C09)"),
                }
                run.validated();
            }
        }
    }
    // honest blocks whose fees add up beyond the maximum coin value (each fee is legal on its own; faucets, so not on mainnet)
    for net in [NetID::Custom02, NetID::Testnet] {
        let (_w, rootn) = root(net, 0, false);
        let parent = match &rootn.real {
            Real::Sealed(s) => s.clone(),
            _ => continue,
        };
        for (name, fees) in [("two fees of 2^119+1", vec![(1u128 << 119) + 1, (1 << 119) + 1]), ("three fees of 2^120", vec![1u128 << 120, 1 << 120, 1 << 120])] {
            for act in [None, Some(action_dest(4))] {
                let built = guard(|| {
                    let mut u = parent.next_unsealed();
                    for (i, f) in fees.iter().enumerate() {
                        let t = tx_t(melstructs::TxKind::Faucet, vec![], vec![out_t(1, melstructs::Denom::Mel)], *f, vec![0xfa, i as u8]);
                        u.apply_tx(&t).ok()?;
                    }
                    Some(u.seal(act))
                });
                run.transition();
                match built {
                    Ok(Some(child)) => {
                        let blk = child.to_block();
                        match guard(|| parent.apply_block(&blk).map(|s| s.header())) {
                            Ok(Ok(h)) if h == blk.header => run.outcome("huge-fee-honest-block:accepted"),
                            Ok(Ok(_)) => run.violation("C06", "huge-fee-honest-block/returned-header-differs".into(), format!("{} on genesis[{:?}]", name, net), json!({"network": format!("{:?}", net), "fees": name})),
                            Ok(Err(e)) => run.violation("C06", "rejects-huge-fee-honest-block".into(), format!("a block of faucets with {} built on genesis[{:?}] one transaction at a time is rejected by apply_block: {}", name, net, e), json!({"network": format!("{:?}", net), "fees": name, "action": act.is_some()})),
                            Err(_) => run.outcome("huge-fee-honest-block:panic(reported under C09)"),
                        }
                    }
                    Ok(None) => run.outcome("huge-fee-honest-block:not-buildable"),
                    Err(_) => run.outcome("huge-fee-honest-block:build-panics(reported under C09)"),
                }
                run.validated();
            }
        }
    }
    restarted_parents(run);
    forged_signature_blocks(run);
    run.set("parents", json!(total_parents));
    run.set("networks", json!(["Custom02 (sparse tx tree)", "Custom08 (dense tx tree, TIP-908)", "Testnet (pre-TIP rules below 500)", "thorough: Custom02 with fees, Mainnet"]));
    run.sample(json!({"parent": "genesis[Custom02]", "block": "xfer(coin)/action", "mutation": "header:fee_multiplier", "oracle": "apply_block is Ok iff (batch accepted and sealed header == block header); returned header == block header"}));
    run.assume("the expected verdict is computed with next_unsealed/apply_tx_batch/seal directly, iterating the block's own HashSet (order independence is C03's subject)");
}
