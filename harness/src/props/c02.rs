//! C02 — exact UTXO transition: no double spend, no lost coin, rejection is a no-op.
use crate::alphabet::AlphaCfg;
use crate::props::e1::*;
use crate::report::Run;
use melstructs::NetID;
use serde_json::json;

pub fn scenarios(thorough: bool) -> Vec<Scenario> {
    let mut cfg = AlphaCfg::base();
    cfg.max_txs_per_block = 2;
    let mut v = vec![sc("custom02-utxo", NetID::Custom02, 0, cfg.clone(), if thorough { 7 } else { 5 })];
    if !thorough {
        let mut c3 = cfg.clone();
        c3.max_txs_per_block = 3;
        c3.merges = true;
        c3.per_denom = 1;
        v.push(sc("custom02-utxo-3tx", NetID::Custom02, 0, c3, 5));
        // locked coins: a stake (with change), then spends of its outputs in every input position
        let mut st = AlphaCfg::base();
        st.per_denom = 1;
        st.stakes = true;
        st.splits = false;
        st.burns = false;
        st.mints = false;
        st.overpay = false;
        st.faucets = false;
        st.pairs = false;
        st.max_txs_per_block = 3;
        st.seal_actions = vec![None];
        v.push(sc("custom02-stake-and-spends", NetID::Custom02, 0, st, 6));
    }
    if thorough {
        let mut c3 = cfg.clone();
        c3.max_txs_per_block = 3;
        c3.merges = true;
        v.push(sc("custom02-utxo-3tx", NetID::Custom02, 0, c3, 6));
        let mut st = AlphaCfg::base();
        st.per_denom = 1;
        st.stakes = true;
        st.mints = false;
        st.faucets = false;
        st.pairs = false;
        st.max_txs_per_block = 3;
        v.push(sc("custom02-stake-and-spends", NetID::Custom02, 0, st, 7));
        v.push(sc("custom08-utxo", NetID::Custom08, 0, cfg.clone(), 6));
        v.push(sc("testnet-utxo", NetID::Testnet, 0, cfg.clone(), 6));
        v.push(sc("custom02-fees", NetID::Custom02, 65536, cfg, 5));
    }
    v
}

pub fn run(run: &Run) {
    for sc in scenarios(run.thorough()) {
        sample_alphabet(run, &sc);
        let st = run_scenario(run, &sc, 3_000_000);
        println!("  scenario {}: depth {} states {} transitions {}", sc.name, st.depth_completed, st.states, st.transitions);
    }
    run.sample(json!({"path": ["genesis[Custom02]", "open", "[chain , xfer(coin)]", "seal(None)"], "oracle": "coin set == model, rejected batch leaves header and tips unchanged"}));
    run.assume("the reference model (harness/src/refstf.rs) encodes the batch rule of the property statement; acceptance is compared in the necessity direction only");
}
