//! C02 — exact UTXO transition: no double spend, no lost coin, rejection is a no-op.
use crate::alphabet::AlphaCfg;
use crate::props::e1::*;
use crate::report::Run;
use melstructs::NetID;
use serde_json::json;

pub fn scenarios(thorough: bool) -> Vec<Scenario> {
    let mut cfg = AlphaCfg::base();
    cfg.max_txs_per_block = 2;
    let mut v = vec![sc("custom02-utxo", NetID::Custom02, 0, cfg.clone(), if thorough { 7 } else { 5 })];
    if !thorough {
        let mut c3 = cfg.clone();
        c3.max_txs_per_block = 3;
        c3.merges = true;
        c3.per_denom = 1;
        v.push(sc("custom02-utxo-3tx", NetID::Custom02, 0, c3, 5));
        // refused batches are followed: the search goes on from the state object the refused call was made on ("if it is rejected
        // the state is left exactly as it was" - including whatever no header commits to)
        let mut fr = AlphaCfg::base();
        fr.per_denom = 1;
        fr.max_txs_per_block = 3;
        fr.stakes = true;
        let mut frs = sc("custom02-utxo-refusals-followed", NetID::Custom02, 0, fr.clone(), 4);
        frs.follow_rejected = true;
        v.push(frs);
        let mut frf = sc("custom02-fees-refusals-followed", NetID::Custom02, 65536, fr, 4);
        frf.follow_rejected = true;
        v.push(frf);
        // locked coins: a stake (with change), then spends of its outputs in every input position
        let mut st = AlphaCfg::base();
        st.per_denom = 1;
        st.stakes = true;
        st.splits = false;
        st.burns = false;
        st.mints = false;
        st.overpay = false;
        st.faucets = false;
        st.pairs = false;
        st.max_txs_per_block = 3;
        st.seal_actions = vec![None];
        v.push(sc("custom02-stake-and-spends", NetID::Custom02, 0, st.clone(), 6));
        // the same in the last block of a staking epoch (the stake starts with the next block's epoch) and across the boundary
        let mut end = sc("custom02-stake-and-spends-at-epoch-end", NetID::Custom02, 0, st, 6);
        end.pre = vec![crate::stf::Action::Jump(199_998)];
        v.push(end);
        // mainnet: the one faucet that may be applied again (in the same block, in later blocks) next to ordinary transfers
        let mut mn = AlphaCfg::base();
        mn.per_denom = 1;
        mn.splits = false;
        mn.burns = false;
        mn.mints = false;
        mn.overpay = false;
        mn.pairs = false;
        mn.adversarial = false;
        mn.max_txs_per_block = 2;
        mn.seal_actions = vec![None];
        v.push(sc("mainnet-faucet-replays", NetID::Mainnet, 0, mn, 7));
    }
    if thorough {
        let mut c3 = cfg.clone();
        c3.max_txs_per_block = 3;
        c3.merges = true;
        v.push(sc("custom02-utxo-3tx", NetID::Custom02, 0, c3, 6));
        let mut st = AlphaCfg::base();
        st.per_denom = 1;
        st.stakes = true;
        st.mints = false;
        st.faucets = false;
        st.pairs = false;
        st.max_txs_per_block = 3;
        v.push(sc("custom02-stake-and-spends", NetID::Custom02, 0, st.clone(), 7));
        let mut end = sc("custom02-stake-and-spends-at-epoch-end", NetID::Custom02, 0, st, 7);
        end.pre = vec![crate::stf::Action::Jump(199_998)];
        v.push(end);
        v.push(sc("custom08-utxo", NetID::Custom08, 0, cfg.clone(), 6));
        v.push(sc("testnet-utxo", NetID::Testnet, 0, cfg.clone(), 6));
        v.push(sc("custom02-fees", NetID::Custom02, 65536, cfg, 5));
    }
    v
}

/// Balanced transactions whose fee (or an output) exceeds the maximum coin value 2^120: they need inputs worth more than 2^120,
/// which only a faucet can provide.
fn over_limit_values(run: &Run) {
    use crate::stf::*;
    use crate::world::*;
    use melstructs::{Denom, TxKind};
    let big: u128 = 1 << 120;
    let (_w, rootn) = root(NetID::Custom02, 0, false);
    let eng = Engine::new(run);
    let fund = tx_t(TxKind::Faucet, vec![], vec![out_t(big, Denom::Mel), out_t(big, Denom::Mel), out_t(big, Denom::Mel)], 0, vec![0x2f]);
    let mut node = Some(rootn);
    for a in [Action::Open, Action::Batch { label: "faucet of three coins of 2^120 MEL".into(), txs: vec![fund.clone()], expect_ok: true }, Action::Seal(None), Action::Open] {
        node = match node.as_ref().map(|n| eng.step(n, &a)) {
            Some(StepOut::Next(x)) => Some(x),
            _ => None,
        };
    }
    let open = match node {
        Some(n) => n,
        None => return,
    };
    let (c0, c1, c2) = (fund.output_coinid(0), fund.output_coinid(1), fund.output_coinid(2));
    let cases = vec![
        ("fee 2^120+10 balanced by two inputs of 2^120", tx_t(TxKind::Normal, vec![c0, c1], vec![out_t(big - 10, Denom::Mel)], big + 10, vec![]), false),
        ("fee exactly 2^120", tx_t(TxKind::Normal, vec![c0, c1], vec![out_t(big, Denom::Mel)], big, vec![]), true),
        ("output 2^120+1 balanced by two inputs", tx_t(TxKind::Normal, vec![c0, c1], vec![out_t(big + 1, Denom::Mel), out_t(big - 1, Denom::Mel)], 0, vec![]), false),
        ("three inputs, fee 2^121", tx_t(TxKind::Normal, vec![c0, c1, c2], vec![out_t(big, Denom::Mel)], 2 * big, vec![]), false),
    ];
    for (name, tx, ok) in cases {
        run.state();
        match eng.step(&open, &Action::Batch { label: name.into(), txs: vec![tx], expect_ok: ok }) {
            StepOut::Next(_) => run.outcome("over-limit-values:accepted"),
            StepOut::Rejected => run.outcome("over-limit-values:rejected"),
            StepOut::Pruned => run.outcome("over-limit-values:engine-reported"),
        }
    }
}

/// Wide transactions: 256, 257 and 300 inputs (nothing bounds the number of inputs; positions, counts and indices beyond 255 are
/// where 8-bit conversions bite - seed C02-r12-2 stopped validating and adding up inputs after the 256th).  Balanced ones, ones
/// whose outputs leave out what the inputs from position 256 on carry, and ones whose last input is a coin under a covenant
/// that is not supplied.
fn wide_transactions(run: &Run) {
    use crate::stf::*;
    use crate::world::*;
    use melstructs::{CoinID, Denom, Transaction, TxKind};
    let (_w, rootn) = root(NetID::Custom02, 0, false);
    let eng = Engine::new(run);
    let genesis_value = match rootn.model.coins.get(&CoinID::zero_zero()) {
        Some(c) => c.coin_data.value.0,
        None => return,
    };
    let mut outs1: Vec<_> = (0..254).map(|_| out_t(1, Denom::Mel)).collect();
    outs1.push(out_t(genesis_value - 254, Denom::Mel));
    let fund1 = tx_t(TxKind::Normal, vec![CoinID::zero_zero()], outs1, 0, vec![0x77]);
    let mut outs2: Vec<_> = (0..253).map(|_| out_t(1, Denom::Mel)).collect();
    outs2.push(out(cov_true_n(9).hash(), 5, Denom::Mel)); // the victim: its covenant is never supplied below
    outs2.push(out_t(genesis_value - 254 - 253 - 5, Denom::Mel));
    let fund2 = tx_t(TxKind::Normal, vec![fund1.output_coinid(254)], outs2, 0, vec![0x78]);
    let mut node = Some(rootn);
    for a in [Action::Open, Action::Batch { label: "funding: 507 coins of 1 MEL and a coin under another covenant".into(), txs: vec![fund1.clone(), fund2.clone()], expect_ok: true }, Action::Seal(None), Action::Open] {
        node = match node.as_ref().map(|n| eng.step(n, &a)) {
            Some(StepOut::Next(x)) => Some(x),
            _ => None,
        };
    }
    let open = match node {
        Some(n) => n,
        None => {
            run.outcome("wide-transactions:set-up-not-accepted");
            return;
        }
    };
    let units: Vec<CoinID> = (0..254u8).map(|i| fund1.output_coinid(i)).chain((0..253u8).map(|i| fund2.output_coinid(i))).collect();
    let victim = fund2.output_coinid(253);
    let mut cases: Vec<(String, Transaction, bool)> = vec![];
    for n in [255usize, 256, 257, 300] {
        cases.push((format!("{} inputs of 1 MEL into one output of {}", n, n), tx_t(TxKind::Normal, units[..n].to_vec(), vec![out_t(n as u128, Denom::Mel)], 0, vec![]), true));
        if n > 256 {
            cases.push((format!("{} inputs of 1 MEL into one output of 256 (what the inputs from position 256 on carry is left out)", n), tx_t(TxKind::Normal, units[..n].to_vec(), vec![out_t(256, Denom::Mel)], 0, vec![]), false));
        }
        cases.push((format!("{} inputs of 1 MEL into one output of {}", n, n + 1), tx_t(TxKind::Normal, units[..n].to_vec(), vec![out_t(n as u128 + 1, Denom::Mel)], 0, vec![]), false));
        let mut with_victim = units[..n - 1].to_vec();
        with_victim.push(victim);
        cases.push((format!("{} inputs, the last one a coin whose covenant is not supplied (balanced)", n), tx_t(TxKind::Normal, with_victim.clone(), vec![out_t(n as u128 - 1 + 5, Denom::Mel)], 0, vec![]), false));
        cases.push((format!("{} inputs, the last one a coin whose covenant is not supplied (its value left out)", n), tx_t(TxKind::Normal, with_victim, vec![out_t(n as u128 - 1, Denom::Mel)], 0, vec![]), false));
    }
    for (name, tx, ok) in cases {
        run.state();
        match eng.step(&open, &Action::Batch { label: name.clone(), txs: vec![tx], expect_ok: ok }) {
            StepOut::Next(_) => run.outcome("wide-transactions:accepted"),
            StepOut::Rejected => run.outcome("wide-transactions:rejected"),
            StepOut::Pruned => run.outcome("wide-transactions:engine-reported"),
        }
    }
}

pub fn run(run: &Run) {
    // batches that consume a coin twice (and their honest neighbours) with apply_tx_batch itself under loom: every parallel site,
    // every way of cutting the batch, every interleaving of what the validation threads share
    crate::loomrun::stf_interleavings(run, "C02", &["rivals", "shared-second-input", "faucet-spends-and-rival", "rivals-around-bystander", "chain", "chain-reversed"]);
    long_histories(run, run.thorough());
    over_limit_values(run);
    wide_transactions(run);
    for sc in scenarios(run.thorough()) {
        sample_alphabet(run, &sc);
        let st = run_scenario(run, &sc, 3_000_000);
        println!("  scenario {}: depth {} states {} transitions {}", sc.name, st.depth_completed, st.states, st.transitions);
    }
    run.sample(json!({"path": ["genesis[Custom02]", "open", "[chain , xfer(coin)]", "seal(None)"], "oracle": "coin set == model, rejected batch leaves header and tips unchanged"}));
    run.assume("the reference model (harness/src/refstf.rs) encodes the batch rule of the property statement; acceptance is compared in the necessity direction only");
}
