//! C07 — headers commit to the whole state and chain together; contents are provable.
use crate::alphabet::*;
use crate::guard::guard;
use crate::props::e1::*;
use crate::refstf::RefState;
use crate::report::Run;
use crate::stf::*;
use crate::world::*;
use melstf::SmtMapping;
use melstructs::{BlockHeight, CoinID, CoinValue, Header, NetID, PoolKey, PoolState, StakeDoc, Transaction, TxHash};
use novasmt::{dense::DenseMerkleTree, Database, InMemoryCas};
use parking_lot::Mutex;
use serde_json::json;
use std::collections::{BTreeMap, HashMap};
use tmelcrypt::{HashVal, Hashable};

fn fresh_root(entries: &[([u8; 32], Vec<u8>)], descending: bool) -> [u8; 32] {
    let db = Database::new(InMemoryCas::default());
    let mut t = db.get_tree([0; 32]).unwrap();
    let mut e: Vec<&([u8; 32], Vec<u8>)> = entries.iter().collect();
    e.sort();
    if descending {
        e.reverse();
    }
    for (k, v) in e {
        t.insert(*k, v);
    }
    t.root_hash()
}

fn coin_tree_entries(m: &RefState) -> Vec<([u8; 32], Vec<u8>)> {
    let mut e: Vec<([u8; 32], Vec<u8>)> = m.coins.iter().map(|(id, c)| (coin_key(*id), stdcode::serialize(c).unwrap())).collect();
    if m.rules().tip_906 {
        let mut counts: BTreeMap<[u8; 32], u64> = BTreeMap::new();
        for c in m.coins.values() {
            *counts.entry(count_key(c.coin_data.covhash)).or_insert(0) += 1;
        }
        for (k, n) in counts {
            e.push((k, stdcode::serialize(&n).unwrap()));
        }
    }
    e
}

fn pool_tree_entries(m: &RefState) -> Vec<([u8; 32], Vec<u8>)> {
    m.pools.iter().map(|(k, p)| (pool_tree_key(*k), stdcode::serialize(p).unwrap())).collect()
}

fn stake_tree_entries(m: &RefState) -> Vec<([u8; 32], Vec<u8>)> {
    m.stakes.iter().map(|(k, d)| (stdcode::serialize(k).unwrap().hash().0, stdcode::serialize(d).unwrap())).collect()
}

fn tx_root(m: &RefState) -> [u8; 32] {
    let txs: Vec<melstructs::Transaction> = m.block_txs.values().cloned().collect();
    tx_root_of(&txs, m.rules().tip_908)
}

/// The transaction commitment of a block holding exactly `txs`, rebuilt outside the code under test (dense tree under TIP-908).
pub fn tx_root_of(txs: &[melstructs::Transaction], dense: bool) -> [u8; 32] {
    if dense {
        let mut leaves: Vec<Vec<u8>> = txs
            .iter()
            .map(|t| {
                let mut v = t.hash_nosigs().0 .0.to_vec();
                v.extend_from_slice(&tmelcrypt::hash_single(&stdcode::serialize(t).unwrap()).0);
                v
            })
            .collect();
        leaves.sort();
        DenseMerkleTree::new(&leaves).root_hash()
    } else {
        let e: Vec<([u8; 32], Vec<u8>)> = txs.iter().map(|t| (tmelcrypt::hash_single(&stdcode::serialize(&t.hash_nosigs()).unwrap()).0, stdcode::serialize(t).unwrap())).collect();
        fresh_root(&e, false)
    }
}

fn content_digest(parts: &[&[u8]]) -> [u8; 32] {
    let mut h = blake3::Hasher::new();
    for p in parts {
        h.update(&(p.len() as u64).to_be_bytes());
        h.update(p);
    }
    *h.finalize().as_bytes()
}

fn entries_digest(e: &[([u8; 32], Vec<u8>)]) -> [u8; 32] {
    let mut s: Vec<&([u8; 32], Vec<u8>)> = e.iter().collect();
    s.sort();
    let mut h = blake3::Hasher::new();
    for (k, v) in s {
        h.update(k);
        h.update(&(v.len() as u64).to_be_bytes());
        h.update(v);
    }
    *h.finalize().as_bytes()
}

/// Two-directional map between a content digest and a commitment.
struct Bijection {
    name: &'static str,
    fwd: Mutex<HashMap<[u8; 32], ([u8; 32], String)>>,
    bwd: Mutex<HashMap<[u8; 32], ([u8; 32], String)>>,
}

impl Bijection {
    fn new(name: &'static str) -> Self {
        Bijection { name, fwd: Default::default(), bwd: Default::default() }
    }
    fn observe(&self, run: &Run, content: [u8; 32], commitment: [u8; 32], n: &Node) {
        let path = n.path_str();
        {
            let mut f = self.fwd.lock();
            match f.get(&content) {
                Some((c, p)) if *c != commitment => {
                    run.violation(
                        "C07",
                        format!("equal-content-different-commitment/{}", self.name),
                        format!("the same {} content has two different roots: after [{}] and after [{}]", self.name, p, path),
                        json!({"path_a": p, "path_b": n.replay_json(None)}),
                    );
                }
                Some(_) => {}
                None => {
                    f.insert(content, (commitment, path.clone()));
                }
            }
        }
        let mut b = self.bwd.lock();
        match b.get(&commitment) {
            Some((c, p)) if *c != content => {
                run.violation(
                    "C07",
                    format!("different-content-same-commitment/{}", self.name),
                    format!("two different {} contents have the same root: after [{}] and after [{}]", self.name, p, path),
                    json!({"path_a": p, "path_b": n.replay_json(None)}),
                );
            }
            Some(_) => {}
            None => {
                b.insert(commitment, (content, path));
            }
        }
    }
}

struct Ctx {
    coins: Bijection,
    pools: Bijection,
    stakes: Bijection,
    txs: Bijection,
    txs_dense: Bijection,
    header: Bijection,
    proofs_checked: std::sync::atomic::AtomicU64,
    full_proofs: bool,
}

/// The TIP-911 view of a stake set (ordered stake list and its dense Merkle root) is a function of the set's contents: the same
/// documents put into independently built sets, in different insertion orders, give the same list and the same root.
pub fn tip911_view(run: &Run) {
    use tip911_stakeset::StakeSet;
    let doc = |k: u8, start: u64, end: u64, syms: u128| StakeDoc { pubkey: key(k).0, e_start: start, e_post_end: end, syms_staked: CoinValue(syms) };
    let mut families: Vec<(String, Vec<(TxHash, StakeDoc)>)> = vec![];
    // equal sizes (the order among them must be fixed by the transaction hashes), distinct sizes, mixed epochs
    families.push(("ten equal stakes".into(), (0..10u8).map(|i| (TxHash(HashVal([i.wrapping_mul(37).wrapping_add(3); 32])), doc(i, 0, 100, 10_000_000_000))).collect()));
    families.push(("distinct sizes".into(), (0..6u8).map(|i| (TxHash(HashVal([i + 1; 32])), doc(i, 0, 5, 100 + i as u128))).collect()));
    families.push(("pairs of equal sizes, mixed epochs".into(), (0..8u8).map(|i| (TxHash(HashVal([200 - i; 32])), doc(i % 3, (i % 2) as u64, 3 + (i % 3) as u64, 5 + (i / 2) as u128))).collect()));
    families.push(("the standard testnet genesis".into(), melstf::GenesisConfig::std_testnet().stakes.into_iter().collect()));
    for (name, docs) in families {
        for epoch in [0u64, 1, 2] {
            let views: Vec<_> = (0..4)
                .map(|round| {
                    let mut d = docs.clone();
                    d.rotate_left(round % docs.len().max(1));
                    if round % 2 == 1 {
                        d.reverse();
                    }
                    let set = StakeSet::new(d.into_iter());
                    let v = set.post_tip911(epoch);
                    (v.stakes.iter().map(|(h, _)| *h).collect::<Vec<_>>(), v.calculate_merkle().root_hash(), v.current_total, v.next_total)
                })
                .collect();
            run.transition();
            run.validated();
            // the two totals of the view are the voting power of this epoch and of the next one (C13: a key's voting power in an
            // epoch is the sum of its registered stakes with start <= epoch < end), and the list is ordered by size, then by hash
            let active = |e: u64| -> u128 { docs.iter().filter(|(_, d)| d.e_start <= e && e < d.e_post_end).map(|(_, d)| d.syms_staked.0).sum() };
            for (which, got, want) in [("current", views[0].2 .0, active(epoch)), ("next", views[0].3 .0, active(epoch + 1))] {
                if got != want {
                    run.violation(
                        "C13",
                        format!("tip911-total-differs/{}", which),
                        format!("{} at epoch {}: the TIP-911 view reports {} as the {} epoch's voting power, the registered stakes add up to {}", name, epoch, got, which, want),
                        json!({"family": name, "epoch": epoch, "which": which}),
                    );
                }
            }
            {
                let by_hash: std::collections::BTreeMap<TxHash, u128> = docs.iter().map(|(h, d)| (*h, d.syms_staked.0)).collect();
                let order: Vec<(u128, TxHash)> = views[0].0.iter().map(|h| (by_hash.get(h).copied().unwrap_or(0), *h)).collect();
                let mut sorted = order.clone();
                sorted.sort();
                if order != sorted || order.len() != by_hash.len() {
                    run.violation("C13", "tip911-order-differs".into(), format!("{} at epoch {}: the TIP-911 list is not the registered stakes ordered by size, then by transaction hash", name, epoch), json!({"family": name, "epoch": epoch}));
                }
            }
            if views.iter().any(|v| *v != views[0]) {
                run.violation(
                    "C07",
                    "tip911-stake-view-not-a-function-of-content".into(),
                    format!("{} at epoch {}: independently built stake sets holding the same documents give different TIP-911 orders / roots", name, epoch),
                    json!({"family": name, "epoch": epoch, "documents": docs.len()}),
                );
            } else {
                run.outcome("tip911-view:same");
            }
        }
    }
}

fn check_sealed(run: &Run, ctx: &Ctx, n: &Node) {
    let s = match &n.real {
        Real::Sealed(s) => s,
        _ => {
            // an open state: the transaction commitment its header would carry already covers the transactions applied so far
            // (two open states that differ in a transaction must not share a commitment - the search would merge them)
            let h = n.view().header();
            if tx_root(&n.model) != h.transactions_hash.0 {
                run.violation(
                    "C07",
                    format!("transactions-root/{}/open-state", if n.model.rules().tip_908 { "dense" } else { "sparse" }),
                    format!("the transaction commitment of the open state differs from the externally rebuilt one after [{}]", n.path_str()),
                    n.replay_json(None),
                );
            }
            return;
        }
    };
    let h = s.header();
    let m = &n.model;
    let rp = n.replay_json(None);
    // ---- linkage on the honest segment
    let lin = &n.lineage;
    if let Some(last) = lin.last() {
        if *last != h {
            run.violation("C07", "lineage-bookkeeping".into(), "harness lineage out of sync".into(), rp.clone());
        }
    }
    if lin.len() >= 2 {
        let parent = lin[lin.len() - 2];
        if h.height.0 != parent.height.0 + 1 {
            run.violation("C07", "height-not-parent-plus-one".into(), format!("height {} after parent {} on [{}]", h.height.0, parent.height.0, n.path_str()), rp.clone());
        }
        if h.previous != parent.hash() {
            run.violation("C07", "previous-is-not-parent-hash".into(), format!("on [{}]", n.path_str()), rp.clone());
        }
        if h.network != parent.network {
            run.violation("C07", "network-changed".into(), format!("on [{}]", n.path_str()), rp.clone());
        }
    }
    // every ancestor of the honest segment is in the history tree at its height; nothing at or above the own height
    for anc in lin.iter().take(lin.len().saturating_sub(1)) {
        if s.history(anc.height) != Some(*anc) {
            run.violation("C07", "ancestor-missing-from-history".into(), format!("history({}) is not the ancestor's header on [{}]", anc.height.0, n.path_str()), rp.clone());
        }
    }
    for above in [h.height.0, h.height.0 + 1, h.height.0 + 1000] {
        if s.history(BlockHeight(above)).is_some() {
            run.violation("C07", "history-has-entry-at-or-above-own-height".into(), format!("history({}) is present at height {} on [{}]", above, h.height.0, n.path_str()), rp.clone());
        }
    }
    // ---- roots are functions of the contents alone: recompute from the model in ascending and descending insertion order
    let ce = coin_tree_entries(m);
    let pe = pool_tree_entries(m);
    let se = stake_tree_entries(m);
    for (name, entries, root) in [("coins", &ce, h.coins_hash), ("pools", &pe, h.pools_hash), ("stakes", &se, h.stakes_hash)] {
        let up = fresh_root(entries, false);
        let down = fresh_root(entries, true);
        if up != down {
            run.violation("C07", format!("tree-root-depends-on-insertion-order/{}", name), format!("on [{}]", n.path_str()), rp.clone());
        }
        if up != root.0 {
            run.violation("C07", format!("root-is-not-a-function-of-content/{}", name), format!("{} root in the header differs from the root of a fresh tree holding the model's content, on [{}]", name, n.path_str()), rp.clone());
        }
    }
    // the scalar fields of the header are the state's own values ("any difference in ... fee pool, fee multiplier or DOSC speed
    // changes the header": a header that reports something else - a capped fee pool, say - lets two contents share a header)
    for (name, got, want) in [("fee_pool", h.fee_pool.0, m.fee_pool), ("fee_multiplier", h.fee_multiplier, m.fee_multiplier), ("dosc_speed", h.dosc_speed, m.dosc_speed)] {
        if got != want {
            run.violation("C07", format!("header-scalar-differs-from-content/{}", name), format!("the header reports {} = {} while the state holds {} on [{}]", name, got, want, n.path_str()), rp.clone());
        }
    }
    if m.block_txs.values().any(|t| !t.sigs.is_empty() && t.sigs.iter().all(|s| s.is_empty())) {
        run.outcome(if m.rules().tip_908 { "sealed-block-with-empty-signature-slots/dense" } else { "sealed-block-with-empty-signature-slots/sparse" });
    }
    // the public accessors report exactly what the committed trees hold (a present entry is not reported absent, or the reverse)
    for (k, p) in m.pools.iter() {
        let got = s.pool(*k).map(|x| (x.lefts, x.rights, x.price_accum, x.liqs));
        if got != Some((p.lefts, p.rights, p.price_accum, p.liqs)) {
            run.violation("C07", "pool-accessor-differs-from-committed-pool".into(), format!("pool({:?}) = {:?} but the pool tree (and the model) hold {:?} on [{}]", k, got, p, n.path_str()), rp.clone());
        }
    }
    for (id, c) in m.coins.iter().take(40) {
        if s.coin(*id).as_ref() != Some(c) {
            run.violation("C07", "coin-accessor-differs-from-committed-coin".into(), format!("coin({}) differs from the committed entry on [{}]", id, n.path_str()), rp.clone());
        }
    }
    for (k, d) in m.stakes.iter() {
        if s.stake(*k).map(|x| (x.pubkey, x.e_start, x.e_post_end, x.syms_staked)) != Some((d.pubkey, d.e_start, d.e_post_end, d.syms_staked)) {
            run.violation("C07", "stake-accessor-differs-from-committed-stake".into(), format!("stake({}) differs from the committed entry on [{}]", k, n.path_str()), rp.clone());
        }
    }
    let tr = tx_root(m);
    if tr != h.transactions_hash.0 {
        run.violation("C07", format!("transactions-root/{}", if m.rules().tip_908 { "dense" } else { "sparse" }), format!("transactions_hash differs from the externally rebuilt commitment on [{}]", n.path_str()), rp.clone());
    }
    // ---- bijections across everything explored
    ctx.coins.observe(run, entries_digest(&ce), h.coins_hash.0, n);
    ctx.pools.observe(run, entries_digest(&pe), h.pools_hash.0, n);
    ctx.stakes.observe(run, entries_digest(&se), h.stakes_hash.0, n);
    let txe: Vec<([u8; 32], Vec<u8>)> = m.block_txs.values().map(|t| (t.hash_nosigs().0 .0, stdcode::serialize(t).unwrap())).collect();
    let txd = entries_digest(&txe);
    // the two commitment schemes are different functions of the same content: one bijection each
    if m.rules().tip_908 {
        ctx.txs_dense.observe(run, txd, h.transactions_hash.0, n);
    } else {
        ctx.txs.observe(run, txd, h.transactions_hash.0, n);
    }
    let lineage_bytes: Vec<u8> = lin.iter().take(lin.len().saturating_sub(1)).flat_map(|a| a.hash().0.to_vec()).collect();
    let whole = content_digest(&[
        &entries_digest(&ce),
        &entries_digest(&pe),
        &entries_digest(&se),
        &txd,
        &m.fee_pool.to_be_bytes(),
        &m.fee_multiplier.to_be_bytes(),
        &m.dosc_speed.to_be_bytes(),
        &m.height.to_be_bytes(),
        &[m.network as u8],
        &lineage_bytes,
        &h.history_hash.0,
    ]);
    ctx.header.observe(run, whole, h.hash().0, n);
    // ---- proofs
    if ctx.full_proofs || m.height <= 2 {
        check_proofs(run, ctx, n, s, &h);
    }
    // ---- transaction positions
    let dense = {
        let mut leaves: Vec<Vec<u8>> = m
            .block_txs
            .values()
            .map(|t| {
                let mut v = t.hash_nosigs().0 .0.to_vec();
                v.extend_from_slice(&tmelcrypt::hash_single(&stdcode::serialize(t).unwrap()).0);
                v
            })
            .collect();
        leaves.sort();
        (DenseMerkleTree::new(&leaves), leaves)
    };
    for (i, (txh, _)) in m.block_txs.iter().enumerate() {
        let posn = s.transaction_sorted_posn(*txh);
        if posn != Some(i) {
            run.violation("C07", "transaction-position".into(), format!("transaction_sorted_posn gives {:?}, sorted position is {} on [{}]", posn, i, n.path_str()), rp.clone());
        }
        if m.rules().tip_908 {
            let proof = dense.0.proof(i);
            let leaf = novasmt::hash_data(&dense.1[i]);
            let ok = novasmt::dense::verify_dense(&proof, h.transactions_hash.0, i, leaf);
            let wrong = novasmt::dense::verify_dense(&proof, h.transactions_hash.0, i + 1, leaf);
            if !ok || (wrong && m.block_txs.len() > 1) {
                run.violation("C07", "dense-transaction-proof".into(), format!("position {} of {} on [{}]: verifies={} verifies-at-wrong-index={}", i, m.block_txs.len(), n.path_str(), ok, wrong), rp.clone());
            }
            ctx.proofs_checked.fetch_add(1, std::sync::atomic::Ordering::Relaxed);
        }
    }
    if s.transaction_sorted_posn(TxHash(HashVal([0x5a; 32]))).is_some() {
        run.violation("C07", "transaction-position-of-absent".into(), format!("on [{}]", n.path_str()), rp);
    }
}

fn check_proofs(run: &Run, ctx: &Ctx, n: &Node, s: &Sealed, h: &Header) {
    let rp = n.replay_json(None);
    let m = &n.model;
    let mut count = 0u64;
    // coins (typed through SmtMapping over the raw tree)
    let coins: SmtMapping<Cas, CoinID, melstructs::CoinDataHeight> = SmtMapping::new(s.raw_coins_smt());
    let mut ids: Vec<CoinID> = m.coins.keys().cloned().collect();
    // absent keys: spent / never-existing ids, and one-bit neighbours of present ids
    let mut absent: Vec<CoinID> = vec![CoinID { txhash: HashVal([0xab; 32]).into(), index: 0 }, CoinID { txhash: HashVal([0; 32]).into(), index: 9 }];
    for id in ids.iter().take(8) {
        let mut t = id.txhash.0 .0;
        t[31] ^= 1;
        absent.push(CoinID { txhash: HashVal(t).into(), index: id.index });
        absent.push(CoinID { txhash: id.txhash, index: id.index.wrapping_add(1) });
    }
    absent.retain(|a| !m.coins.contains_key(a));
    ids.extend(absent.iter().cloned());
    for id in ids {
        let expect = m.coins.get(&id).cloned();
        let r = guard(|| coins.get_with_proof(&id));
        count += 1;
        match r {
            Err(p) => run.violation("C07", format!("proof-panics/coins/{}", p.class()), p.msg, rp.clone()),
            Ok((v, proof)) => {
                if v != expect {
                    run.violation("C07", "coin-lookup-differs".into(), format!("coin {} on [{}]", id, n.path_str()), rp.clone());
                }
                let key = coin_key(id);
                let val = expect.as_ref().map(|c| stdcode::serialize(c).unwrap()).unwrap_or_default();
                if !proof.verify(h.coins_hash.0, key, &val) {
                    run.violation("C07", format!("proof-does-not-verify/coins/{}", if expect.is_some() { "present" } else { "absent" }), format!("coin {} on [{}]", id, n.path_str()), rp.clone());
                }
                // must not verify for another value, nor presence for an absent key
                let mut other = val.clone();
                other.push(1);
                if proof.verify(h.coins_hash.0, key, &other) || (expect.is_some() && proof.verify(h.coins_hash.0, key, &[])) {
                    run.violation("C07", "proof-verifies-wrong-value/coins".into(), format!("coin {} on [{}]", id, n.path_str()), rp.clone());
                }
            }
        }
    }
    // pools
    let pools: SmtMapping<Cas, PoolKey, PoolState> = SmtMapping::new(s.raw_pools_smt());
    let mut pkeys: Vec<PoolKey> = m.pools.keys().cloned().collect();
    pkeys.push(PoolKey::new(melstructs::Denom::Mel, melstructs::Denom::Custom(HashVal([0x77; 32]).into())));
    for k in pkeys {
        let expect = m.pools.get(&k).copied();
        count += 1;
        match guard(|| pools.get_with_proof(&k)) {
            Err(p) => run.violation("C07", format!("proof-panics/pools/{}", p.class()), p.msg, rp.clone()),
            Ok((v, proof)) => {
                let same = match (&v, &expect) {
                    (Some(a), Some(b)) => crate::refstf::pool_eq(a, b),
                    (None, None) => true,
                    _ => false,
                };
                let val = expect.as_ref().map(|c| stdcode::serialize(c).unwrap()).unwrap_or_default();
                if !same || !proof.verify(h.pools_hash.0, pool_tree_key(k), &val) {
                    run.violation("C07", format!("proof-does-not-verify/pools/{}", if expect.is_some() { "present" } else { "absent" }), format!("pool {} on [{}]", k, n.path_str()), rp.clone());
                }
            }
        }
    }
    // history
    let hist: SmtMapping<Cas, BlockHeight, Header> = SmtMapping::new(s.raw_history_smt());
    let mut heights: Vec<u64> = n.lineage.iter().take(n.lineage.len().saturating_sub(1)).map(|a| a.height.0).collect();
    heights.extend([h.height.0, h.height.0 + 7]);
    for ht in heights {
        let expect = n.lineage.iter().take(n.lineage.len().saturating_sub(1)).find(|a| a.height.0 == ht).copied();
        count += 1;
        match guard(|| hist.get_with_proof(&BlockHeight(ht))) {
            Err(p) => run.violation("C07", format!("proof-panics/history/{}", p.class()), p.msg, rp.clone()),
            Ok((v, proof)) => {
                let key = tmelcrypt::hash_single(&stdcode::serialize(&BlockHeight(ht)).unwrap()).0;
                let val = expect.as_ref().map(|c| stdcode::serialize(c).unwrap()).unwrap_or_default();
                if v != expect || !proof.verify(h.history_hash.0, key, &val) {
                    run.violation("C07", format!("proof-does-not-verify/history/{}", if expect.is_some() { "present" } else { "absent" }), format!("height {} on [{}]", ht, n.path_str()), rp.clone());
                }
            }
        }
    }
    ctx.proofs_checked.fetch_add(count, std::sync::atomic::Ordering::Relaxed);
}

/// Sensitivity to scalar fields and stakes: pairs of states that differ in exactly one of them have different headers.
fn scalar_sensitivity(run: &Run) {
    let mut stakes = BTreeMap::new();
    stakes.insert(TxHash(HashVal([3; 32])), StakeDoc { pubkey: key(1).0, e_start: 0, e_post_end: 5, syms_staked: CoinValue(100) });
    let w = world(NetID::Custom02, out_t(1000, melstructs::Denom::Mel), 5, 7, stakes.clone());
    let base = w.genesis.clone().seal(None);
    let blk = base.to_block();
    let h0 = base.header();
    let mut variants: Vec<(&str, Header)> = vec![];
    for (name, f) in [("fee_pool", 0usize), ("fee_multiplier", 1), ("dosc_speed", 2)] {
        let mut b = blk.clone();
        match f {
            0 => b.header.fee_pool = CoinValue(b.header.fee_pool.0 + 1),
            1 => b.header.fee_multiplier += 1,
            _ => b.header.dosc_speed += 1,
        }
        let s = melstf::SealedState::from_block(&b, &crate::world::persisted(&base).1, &w.db);
        variants.push((name, s.header()));
        run.transition();
    }
    for (name, doc) in [
        ("stake-amount", StakeDoc { pubkey: key(1).0, e_start: 0, e_post_end: 5, syms_staked: CoinValue(101) }),
        ("stake-key", StakeDoc { pubkey: key(2).0, e_start: 0, e_post_end: 5, syms_staked: CoinValue(100) }),
        ("stake-end", StakeDoc { pubkey: key(1).0, e_start: 0, e_post_end: 6, syms_staked: CoinValue(100) }),
    ] {
        let mut st = stakes.clone();
        st.insert(TxHash(HashVal([3; 32])), doc);
        let s = melstf::SealedState::from_block(&blk, &tip911_stakeset::StakeSet::new(st.into_iter()), &w.db);
        variants.push((name, s.header()));
        run.transition();
    }
    let mut extra = stakes.clone();
    extra.insert(TxHash(HashVal([4; 32])), StakeDoc { pubkey: key(1).0, e_start: 0, e_post_end: 5, syms_staked: CoinValue(100) });
    variants.push(("stake-added", melstf::SealedState::from_block(&blk, &tip911_stakeset::StakeSet::new(extra.into_iter()), &w.db).header()));
    for (name, h) in variants {
        run.validated();
        if h.hash() == h0.hash() {
            run.violation("C07", format!("header-insensitive-to/{}", name), format!("changing {} alone leaves the header unchanged", name), json!({"field": name}));
        }
    }
    // stake commitment is independent of the order in which stakes were added
    let docs: Vec<(TxHash, StakeDoc)> = (0..6u8).map(|i| (TxHash(HashVal([i + 10; 32])), StakeDoc { pubkey: key(i).0, e_start: 0, e_post_end: 9, syms_staked: CoinValue(i as u128 + 1) })).collect();
    let mut a = tip911_stakeset::StakeSet::new(std::iter::empty());
    for (k, d) in docs.iter() {
        a.add_stake(*k, *d);
    }
    let mut b = tip911_stakeset::StakeSet::new(std::iter::empty());
    for (k, d) in docs.iter().rev() {
        b.add_stake(*k, *d);
    }
    if a.pre_tip911().root_hash() != b.pre_tip911().root_hash() {
        run.violation("C07", "stake-root-depends-on-insertion-order".into(), "six stakes added in opposite orders".into(), json!({}));
    }
}

pub fn run(run: &Run) {
    let thorough = run.thorough();
    let ctx = Ctx {
        coins: Bijection::new("coins"),
        pools: Bijection::new("pools"),
        stakes: Bijection::new("stakes"),
        txs: Bijection::new("transactions"),
        txs_dense: Bijection::new("transactions-dense"),
        header: Bijection::new("header"),
        proofs_checked: Default::default(),
        full_proofs: thorough,
    };
    let mut scs: Vec<Scenario> = vec![];
    let mut base = AlphaCfg::base();
    base.adversarial = false;
    base.pairs = false;
    base.max_txs_per_block = 2;
    base.seal_actions = vec![None, Some(action_dest(1))];
    let mut pools = crate::props::c01::pool_cfg();
    pools.seal_actions = vec![None];
    scs.push(sc("custom02-utxo", NetID::Custom02, 0, base.clone(), if thorough { 7 } else { 6 }));
    scs.push(sc("custom08-utxo-dense-tx-tree", NetID::Custom08, 0, base.clone(), if thorough { 7 } else { 5 }));
    scs.push(sc("custom02-pools", NetID::Custom02, 0, pools.clone(), if thorough { 7 } else { 5 }));
    let mut t = sc("testnet-across-activation", NetID::Testnet, 0, base.clone(), if thorough { 7 } else { 5 });
    t.pre = vec![Action::Jump(498)];
    scs.push(t);
    // testnet after the activation of the coin counts, inside the legacy deposit window
    let mut tl = sc("testnet-counted-legacy-deposits", NetID::Testnet, 0, pools.clone(), if thorough { 7 } else { 5 });
    tl.pre = vec![Action::Jump(498), Action::Open, Action::Seal(None), Action::Open, Action::Seal(None)];
    scs.push(tl);
    // mainnet across its activation height, with the grandfathered faucet (replayable) in the alphabet
    let mut mn = sc("mainnet-across-830000", NetID::Mainnet, 0, base.clone(), if thorough { 6 } else { 5 });
    mn.pre = vec![Action::Jump(829_998)];
    scs.push(mn);
    // the same crossing with a small alphabet (one transfer per denomination and the replayable faucet), two levels deeper
    let mut mn2 = sc("mainnet-across-830000-faucet-replays", NetID::Mainnet, 0, base.clone(), if thorough { 9 } else { 7 });
    mn2.pre = vec![Action::Jump(829_998)];
    mn2.cfg.per_denom = 1;
    mn2.cfg.splits = false;
    mn2.cfg.burns = false;
    mn2.cfg.mints = false;
    mn2.cfg.overpay = false;
    mn2.cfg.seal_actions = vec![None];
    scs.push(mn2);
    scs.extend(genesis_scenarios(["custom02-genesis-sym-feepool-stake", "custom02-genesis-erg-fees-stakes", "custom02-genesis-huge-mel-feepool"], NetID::Custom02, &pools, if thorough { 6 } else { 4 }));
    // blocks of three to five transactions under the dense transaction tree (a size that is not a power of two pads the last level:
    // seed C07-r12-1 carried an unpaired node up unchanged) - one transfer per denomination and the two faucets, no pairs
    {
        let mut dense = base.clone();
        dense.per_denom = 1;
        dense.splits = false;
        dense.burns = false;
        dense.mints = false;
        dense.overpay = false;
        dense.max_txs_per_block = 5;
        dense.seal_actions = vec![None];
        scs.push(sc("custom08-blocks-of-up-to-five", NetID::Custom08, 0, dense, 7));
    }
    // a fee pool beyond 2^120 (seed C07-r12-2: the header reported min(fee pool, 2^120))
    {
        let mut big = sc("custom02-genesis-feepool-beyond-2^120", NetID::Custom02, 0, base.clone(), 4);
        big.genesis = 4;
        scs.push(big);
    }
    if thorough {
        scs.push(sc("mainnet-utxo", NetID::Mainnet, 0, base.clone(), 6));
        scs.push(sc("custom02-fees", NetID::Custom02, 65536, base, 6));
    }
    // a user-created pool that is then emptied (all of its liquidity withdrawn): its entry stays in the pool tree
    let mut emptied = sc("custom02-user-pool-emptied", NetID::Custom02, 0, pools.clone(), if thorough { 6 } else { 4 });
    emptied.setup_labels = vec!["open", "mint(", "seal(None)", "open", "deposit[MEL/C", "seal(None)"];
    emptied.cfg.swaps = false;
    emptied.cfg.mints = false;
    emptied.cfg.only_pools = None;
    scs.push(emptied);
    for sc in &scs {
        let (w0, mut rootn) = root_variant(sc.net, sc.fee_mult, true, sc.genesis);
        // the first header of a chain reports the fee pool and the fee multiplier its genesis configuration gives (the model of a
        // root is read off the real state, so this one comparison is made against the configuration itself)
        {
            let want_pool = match sc.genesis {
                1 => Some(1u128 << 40),
                2 => Some(12_345),
                3 => Some(1 << 100),
                4 => Some((1 << 121) + (1 << 40) + 12_345),
                _ => None,
            };
            // (the configuration realised, before anything is sealed: sealing block 0 already adds the TIP-909 subsidy to the fee pool)
            let g = w0.genesis.verif_peek().header();
            if let Some(want) = want_pool {
                run.transition();
                run.validated();
                if g.fee_pool.0 != want || g.fee_multiplier != sc.fee_mult {
                    run.violation("C07", "header-scalar-differs-from-content/genesis".into(), format!("scenario {}: the header of the realised genesis configuration reports fee pool {} and multiplier {}, the configuration gives {} and {}", sc.name, g.fee_pool.0, g.fee_multiplier, want, sc.fee_mult), json!({"scenario": sc.name, "genesis_variant": sc.genesis}));
                }
            }
        }
        if !sc.setup_labels.is_empty() {
            let mut setup_cfg = sc.cfg.clone();
            setup_cfg.mints = true;
            setup_cfg.deposits = true;
            if let Some(n) = advance_by_labels(&Run::new("scratch", "quick"), rootn.clone(), &setup_cfg, &sc.setup_labels) {
                rootn = n;
            } else {
                run.outcome("scenario-setup-by-labels-failed");
            }
        }
        let scratch = Run::new("scratch", "quick");
        let eng = Engine::new(&scratch);
        for a in &sc.pre {
            if let StepOut::Next(n) = eng.step(&rootn, a) {
                rootn = n;
            }
        }
        let cfg = sc.cfg.clone();
        let acts = move |n: &Node| actions(n, &cfg);
        let visit = |_n: &Node| {};
        // every generated successor (before de-duplication) is checked: different paths to the same content must agree
        let on_succ = |_p: &Node, _a: &Action, c: &Node| {
            run.transition();
            check_sealed(run, &ctx, c);
            run.validated();
        };
        let eng2 = Engine::new(&scratch);
        let st = bfs_with(&eng2, vec![rootn], sc.depth, 1_500_000, &acts, &visit, &on_succ);
        run.states_add(st.states);
        run.set(&format!("scenario:{}", sc.name), json!({"depth_bound_completed": st.depth_completed, "unique_states": st.states, "transitions": st.transitions}));
        println!("  scenario {}: depth {} states {} transitions {}", sc.name, st.depth_completed, st.states, st.transitions);
    }
    tip911_view(run);
    // stakes expiring across epoch boundaries (the stake commitment must follow the registered, unexpired stakes)
    {
        let mut stakes = BTreeMap::new();
        stakes.insert(TxHash(HashVal([0x71; 32])), StakeDoc { pubkey: key(1).0, e_start: 0, e_post_end: 0, syms_staked: CoinValue(10) });
        stakes.insert(TxHash(HashVal([0x72; 32])), StakeDoc { pubkey: key(2).0, e_start: 0, e_post_end: 1, syms_staked: CoinValue(20) });
        stakes.insert(TxHash(HashVal([0x73; 32])), StakeDoc { pubkey: key(3).0, e_start: 1, e_post_end: 2, syms_staked: CoinValue(30) });
        stakes.insert(TxHash(HashVal([0x74; 32])), StakeDoc { pubkey: key(1).0, e_start: 0, e_post_end: 9, syms_staked: CoinValue(40) });
        let w = world(NetID::Custom02, out_t(1_000_000_000, melstructs::Denom::Mel), 1 << 20, 0, stakes);
        let s = w.genesis.clone().seal(None);
        let model = model_of(&s, &[CoinID::zero_zero()], &builtin_pool_keys(), &[]);
        let h0 = s.header();
        let rootn = Node::new_root(Real::Sealed(s), model, "genesis[Custom02+4 stakes]".to_string(), json!({"root": "Custom02 with stakes ending in epochs 0, 1, 2, 9"}), vec![h0]);
        let scratch = Run::new("scratch", "quick");
        let eng = Engine::new(&scratch);
        let mut cfg = AlphaCfg::base();
        cfg.per_denom = 1;
        cfg.adversarial = false;
        cfg.pairs = false;
        cfg.splits = false;
        cfg.burns = false;
        cfg.mints = false;
        cfg.faucets = false;
        cfg.overpay = false;
        cfg.max_txs_per_block = 1;
        cfg.seal_actions = vec![None];
        let acts = move |n: &Node| {
            if n.is_open() {
                return actions(n, &cfg);
            }
            let mut v = vec![Action::Open];
            if n.salt == 0 {
                v.push(Action::Restart);
            }
            if let Some(j) = [199_998u64, 399_998, 599_998].iter().find(|j| **j > n.model.height) {
                v.push(Action::Jump(*j));
            }
            v
        };
        let visit = |_n: &Node| {};
        let on_succ = |_p: &Node, _a: &Action, c: &Node| {
            run.transition();
            check_sealed(run, &ctx, c);
            run.validated();
        };
        let st = bfs_with(&eng, vec![rootn], if thorough { 16 } else { 13 }, 300_000, &acts, &visit, &on_succ);
        run.states_add(st.states);
        run.set("scenario:custom02-stakes-across-epochs", json!({"depth_bound_completed": st.depth_completed, "unique_states": st.states, "transitions": st.transitions}));
        println!("  scenario custom02-stakes-across-epochs: depth {} states {} transitions {}", st.depth_completed, st.states, st.transitions);
    }
    scalar_sensitivity(run);
    run.set("proofs_checked", json!(ctx.proofs_checked.load(std::sync::atomic::Ordering::Relaxed)));
    run.set("distinct_coin_contents", json!(ctx.coins.fwd.lock().len()));
    run.set("distinct_headers", json!(ctx.header.bwd.lock().len()));
    run.sample(json!({"paths": ["open ; xfer(a) ; xfer(b) ; seal(None)", "open ; xfer(b) ; xfer(a) ; seal(None)"], "oracle": "equal content digests <=> equal roots / header hashes; roots equal those of a fresh tree filled from the model in ascending and descending order"}));
    run.assume("a jump (fabricated state) starts a new lineage; linkage is checked on honest segments only");
    run.assume("blake3 collision resistance");
}
