//! C11 — covenant cost is bounded by what is paid for: terminates within its weight.
//! E2: (i) steps <= weight for every program of the control-flow alphabets, (ii) weighing work on
//! loop-header families (hook H2 counter), (iii) data-doubling and (iv) deep-nesting families in
//! child processes with a counting allocator, a 2 MiB stack and an address-space limit.
use crate::child::{self, ChildOutcome};
use crate::guard::guard;
use crate::refvm::ref_weight;
use crate::report::Run;
use crate::vmrun::prog_str;
use crate::world::key;
use ethnum::U256;
use melvm::{opcode::OpCode, Covenant, VerifExecutor};
use rayon::prelude::*;
use serde_json::json;
use std::collections::HashMap;
use std::time::Instant;

fn pi(n: u128) -> OpCode {
    OpCode::PushI(U256::from(n))
}

/// Steps executed by the real interpreter (cut off at `cap`).
fn real_steps(prog: &[OpCode], cap: u64) -> Result<(u64, bool), crate::guard::PanicInfo> {
    guard(|| {
        let mut ex = VerifExecutor::new(prog.to_vec(), HashMap::new());
        let mut n = 0u64;
        while ex.pc() < prog.len() {
            if n >= cap {
                return (n, true);
            }
            n += 1;
            if ex.step().is_none() {
                break;
            }
        }
        (n, false)
    })
}

fn check_steps(run: &Run, prog: &[OpCode]) -> &'static str {
    run.transition();
    let replay = json!({"program": prog.iter().map(|o| o.to_string()).collect::<Vec<_>>(), "bytes_hex": crate::refvm::ref_encode(prog).map(hex::encode)});
    let cov = Covenant::from_ops(prog);
    melvm::opcode::verif_work::take();
    let w = match guard(|| cov.weight()) {
        Ok(w) => w,
        Err(p) => {
            run.violation("C11", format!("weight-panics/{}", p.class()), format!("[{}]: {}", prog_str(prog), p.msg), replay);
            return "panic";
        }
    };
    let work = melvm::opcode::verif_work::take();
    let n = prog.len() as u64;
    if work > n * n * n + 64 {
        run.violation("C11", "weighing-work-superpolynomial".into(), format!("weighing [{}] visited {} instructions (n = {}, bound n^3+64)", prog_str(prog), work, n), replay.clone());
    }
    if w != ref_weight(prog) {
        run.violation("C11", "weight-differs-from-reference".into(), format!("[{}]: weight {} reference {}", prog_str(prog), w, ref_weight(prog)), replay.clone());
    }
    let cap = w.min(20_000_000) as u64 + 1;
    match real_steps(prog, cap) {
        Err(p) => {
            run.violation("C11", format!("step-panics/{}", p.class()), format!("[{}]: {}", prog_str(prog), p.msg), replay);
            "panic"
        }
        Ok((steps, capped)) => {
            run.validated();
            if steps as u128 > w {
                let has_loop = prog.iter().any(|o| matches!(o, OpCode::Loop(_, _)));
                run.violation(
                    "C11",
                    format!("steps-exceed-weight/loops={}", has_loop),
                    format!("[{}] executes {}{} instructions but weighs {}", prog_str(prog), steps, if capped { "+" } else { "" }, w),
                    replay,
                );
                "exceeds"
            } else if capped {
                "capped"
            } else {
                "within"
            }
        }
    }
}

fn skeleton_alphabet() -> Vec<OpCode> {
    use OpCode::*;
    let mut skel = vec![pi(1), Noop, Jmp(0), Jmp(1), Jmp(2), Jmp(3), Bnz(0), Bnz(1), Bnz(2), Bez(1)];
    for i in [1u16, 2, 3] {
        for n in [0u16, 1, 2, 3, 4] {
            skel.push(Loop(i, n));
        }
    }
    skel.push(Loop(0, 2));
    skel.push(Loop(65535, 1));
    skel.push(Loop(2, 65535));
    skel
}

fn enumerate_steps(run: &Run, alpha: &[OpCode], max_len: usize) -> u64 {
    let k = alpha.len();
    let prefixes: Vec<Vec<usize>> = (0..k).flat_map(|a| (0..k).map(move |b| vec![a, b])).collect();
    let mut total = 0u64;
    for a in 0..k {
        let o = check_steps(run, &[alpha[a].clone()]);
        run.outcome(&format!("steps:{}", o));
        total += 1;
    }
    total += prefixes
        .par_iter()
        .map(|prefix| {
            let mut count = 0u64;
            let mut hist: std::collections::BTreeMap<&'static str, u64> = Default::default();
            let mut stack = vec![prefix.clone()];
            while let Some(p) = stack.pop() {
                let prog: Vec<OpCode> = p.iter().map(|i| alpha[*i].clone()).collect();
                *hist.entry(check_steps(run, &prog)).or_insert(0) += 1;
                count += 1;
                if p.len() < max_len {
                    for s in 0..k {
                        let mut q = p.clone();
                        q.push(s);
                        stack.push(q);
                    }
                }
            }
            for (o, n) in hist {
                run.outcome_n(&format!("steps:{}", o), n);
            }
            count
        })
        .sum::<u64>();
    total
}

// ---------------------------------------------------------------------------------------------
// (ii) weighing work

pub fn loop_header_program(n: usize, iters: u16, body: u16, pad: bool) -> Vec<OpCode> {
    let mut p = vec![];
    for _ in 0..n {
        p.push(OpCode::Loop(iters, body));
        if pad {
            p.push(OpCode::Noop);
        }
    }
    p
}

fn check_weigh_inprocess(run: &Run, prog: &[OpCode], label: &str) {
    run.transition();
    melvm::opcode::verif_work::take();
    let t = Instant::now();
    let w = guard(|| Covenant::from_ops(prog).weight());
    let work = melvm::opcode::verif_work::take();
    let n = prog.len() as u64;
    run.validated();
    let replay = json!({"family": label, "instructions": n});
    match w {
        Err(p) => run.violation("C11", format!("weight-panics/{}", p.class()), format!("{}: {}", label, p.msg), replay),
        Ok(w) => {
            if work > n * n * n + 64 {
                run.violation("C11", "weighing-work-superpolynomial".into(), format!("weighing {} ({} instructions) visited {} instructions in {:?} (bound n^3+64 = {})", label, n, work, t.elapsed(), n * n * n + 64), replay);
                run.outcome("weigh:superpolynomial");
            } else {
                run.outcome("weigh:polynomial");
            }
            if n <= 300 && w != ref_weight(prog) {
                run.violation("C11", "weight-differs-from-reference".into(), format!("{}: weight {} reference {}", label, w, ref_weight(prog)), json!({"family": label}));
            }
        }
    }
}

// ---------------------------------------------------------------------------------------------
// (iii)/(iv) families run in child processes

fn big32() -> OpCode {
    OpCode::PushB(vec![0xab; 32])
}

pub fn byte_consumers() -> Vec<(&'static str, Vec<OpCode>)> {
    use OpCode::*;
    let (pk, sk) = key(3);
    let msg = vec![0x33u8; 32];
    let sig = sk.sign(&msg);
    vec![
        ("none", vec![]),
        ("hash32", vec![Hash(32)]),
        ("hash65535", vec![Hash(65535)]),
        ("sigeok-as-msg", vec![StoreImm(50), PushB(sig.clone()), PushB(pk.0.to_vec()), LoadImm(50), SigEOk(32)]),
        ("sigeok-as-msg65535", vec![StoreImm(50), PushB(sig.clone()), PushB(pk.0.to_vec()), LoadImm(50), SigEOk(65535)]),
        ("sigeok-as-pk", vec![StoreImm(50), PushB(sig.clone()), LoadImm(50), PushB(msg.clone()), SigEOk(32)]),
        ("sigeok-as-sig", vec![StoreImm(50), LoadImm(50), PushB(pk.0.to_vec()), PushB(msg), SigEOk(32)]),
        ("btoi", vec![BtoI]),
        ("blength", vec![BLength]),
        ("bref", vec![StoreImm(50), pi(0), LoadImm(50), BRef]),
        ("bslice", vec![StoreImm(50), pi(1), pi(0), LoadImm(50), BSlice]),
        ("bset", vec![StoreImm(50), pi(7), pi(0), LoadImm(50), BSet]),
        ("bpush", vec![StoreImm(50), pi(7), LoadImm(50), BPush]),
        ("bcons", vec![pi(7), BCons]),
        ("eql", vec![pi(1), Eql]),
        ("store-load", vec![pi(5), Store, pi(5), Load]),
        ("dup", vec![Dup]),
        ("typeq", vec![TypeQ]),
        ("bappend-self", vec![Dup, BAppend]),
        // a short string appended to / prepended to the long one (either operand order)
        ("bappend-short-on-top", vec![PushB(vec![1, 2, 3]), BAppend]),
        ("bappend-short-below", vec![StoreImm(50), PushB(vec![1, 2, 3]), LoadImm(50), BAppend]),
        ("itob", vec![ItoB]),
        ("bez", vec![Bez(0)]),
    ]
}

pub fn vec_consumers() -> Vec<(&'static str, Vec<OpCode>)> {
    use OpCode::*;
    vec![
        ("none", vec![]),
        ("vlength", vec![VLength]),
        ("vref", vec![StoreImm(50), pi(0), LoadImm(50), VRef]),
        ("vslice", vec![StoreImm(50), pi(1), pi(0), LoadImm(50), VSlice]),
        ("vset", vec![StoreImm(50), pi(7), pi(0), LoadImm(50), VSet]),
        ("vpush", vec![StoreImm(50), pi(7), LoadImm(50), VPush]),
        ("vcons", vec![pi(7), VCons]),
        ("dup", vec![Dup]),
        ("typeq", vec![TypeQ]),
        ("vappend-self", vec![Dup, VAppend]),
        ("vappend-short-on-top", vec![VEmpty, pi(1), VPush, VAppend]),
        ("vappend-short-below", vec![StoreImm(50), VEmpty, pi(1), VPush, LoadImm(50), VAppend]),
        ("store-load", vec![pi(5), Store, pi(5), Load]),
        ("bnz", vec![Bnz(0)]),
    ]
}

/// Program of a family member; `None` if the parameters are out of range.
pub fn family_program(family: &str, k: usize, consumer: &str) -> Option<Vec<OpCode>> {
    use OpCode::*;
    let mut p = vec![];
    match family {
        "bdouble" => {
            p.push(big32());
            for _ in 0..k {
                p.extend([Dup, BAppend]);
            }
            p.extend(byte_consumers().into_iter().find(|c| c.0 == consumer)?.1);
        }
        "bdouble-loop" => {
            p.push(big32());
            p.extend([Loop(k as u16, 2), Dup, BAppend]);
            p.extend(byte_consumers().into_iter().find(|c| c.0 == consumer)?.1);
        }
        "vdouble" => {
            p.extend([pi(1), VEmpty, VPush]);
            for _ in 0..k {
                p.extend([Dup, VAppend]);
            }
            p.extend(vec_consumers().into_iter().find(|c| c.0 == consumer)?.1);
        }
        "vnest" => {
            p.extend([VEmpty, Loop(k as u16, 2), VEmpty, VPush]);
            p.extend(vec_consumers().into_iter().find(|c| c.0 == consumer)?.1);
        }
        "weigh-uniform" => {
            // consumer encodes the body length
            let b: u16 = consumer.parse().ok()?;
            p = loop_header_program(k, 2, b, false);
        }
        "weigh-bytes-b0" => {
            // k bytes of 0xb0, decoded by the real decoder in the child
            return None;
        }
        _ => return None,
    }
    Some(p)
}

/// Entry point of `mcheck __child vm <family> <k> <consumer>`.
pub fn child_main(args: &[String]) {
    let family = args[0].clone();
    let k: usize = args[1].parse().unwrap();
    let consumer = args[2].clone();
    let prog = if family == "weigh-bytes-b0" {
        Covenant::from_bytes(&vec![0xb0u8; k]).map(|c| c.to_ops()).unwrap_or_default()
    } else {
        family_program(&family, k, &consumer).expect("bad family")
    };
    let weigh_only = family.starts_with("weigh");
    let out = child::on_small_stack(move || {
      let r = guard(move || {
        let base = child::mem_reset();
        let t = Instant::now();
        melvm::opcode::verif_work::take();
        let cov = Covenant::from_ops(&prog);
        let w = cov.weight();
        let work = melvm::opcode::verif_work::take();
        let weigh_secs = t.elapsed().as_secs_f64();
        let mut steps = 0u64;
        let mut capped = false;
        let mut result = "not-run";
        if !weigh_only {
            let cap = w.min(20_000_000) as u64 + 1;
            let mut ex = VerifExecutor::new(prog.clone(), HashMap::new());
            result = "value";
            while ex.pc() < prog.len() {
                if steps >= cap {
                    capped = true;
                    break;
                }
                steps += 1;
                if ex.step().is_none() {
                    result = "fail";
                    break;
                }
            }
            if result == "value" && ex.stack.pop().is_none() {
                result = "fail";
            }
            drop(ex);
        }
        let peak = child::mem_peak().saturating_sub(base);
        json!({"weight": w.to_string(), "work": work, "steps": steps, "capped": capped, "result": result, "peak_bytes": peak,
               "weigh_secs": weigh_secs, "secs": t.elapsed().as_secs_f64(), "instructions": prog.len()})
      });
      match r {
          Ok(v) => v,
          Err(p) => json!({"result": "panic", "panic_class": p.class(), "panic_msg": p.msg, "weight": "0", "steps": 0, "peak_bytes": 0, "work": 0, "instructions": 0}),
      }
    });
    println!("{}", out);
}

fn judge_child(run: &Run, family: &str, k: usize, consumer: &str, deadline: f64) {
    run.transition();
    let args = vec!["vm".to_string(), family.to_string(), k.to_string(), consumer.to_string()];
    let desc = json!({"family": family, "k": k, "consumer": consumer, "program": family_program(family, k.min(3), consumer).map(|p| prog_str(&p))});
    let out = child::run_child(&args, deadline, 6 << 30);
    let kclass = if k < 16 { "k<16" } else if k < 1000 { "16<=k<1000" } else { "k>=1000" };
    match out {
        ChildOutcome::Done(v) => {
            run.validated();
            let w: u128 = v["weight"].as_str().and_then(|s| s.parse().ok()).unwrap_or(0);
            let steps = v["steps"].as_u64().unwrap_or(0);
            let peak = v["peak_bytes"].as_u64().unwrap_or(0) as u128;
            let work = v["work"].as_u64().unwrap_or(0);
            let n = v["instructions"].as_u64().unwrap_or(0);
            if steps as u128 > w {
                run.violation("C11", format!("steps-exceed-weight/family={}", family), format!("{} k={} consumer={}: {} steps, weight {}", family, k, consumer, steps, w), desc.clone());
            }
            let bound = 4096u128.saturating_mul(w.saturating_add(64));
            if peak > bound {
                run.violation(
                    "C11",
                    format!("memory-exceeds-weight-bound/family={}/consumer={}", family, consumer),
                    format!("{} k={} consumer={}: peak heap growth {} bytes with weight {} (bound 4096*(weight+64) = {})", family, k, consumer, peak, w, bound),
                    desc.clone(),
                );
            }
            if work as u128 > (n as u128).pow(3) + 64 {
                run.violation("C11", "weighing-work-superpolynomial".into(), format!("{} k={}: weighing visited {} instructions for n={}", family, k, work, n), desc.clone());
            }
            run.outcome(&format!("child:{}:{}", family, v["result"].as_str().unwrap_or("?")));
            if v["result"] == "panic" {
                // a panic terminates: not a C11 matter; the same covenant is submitted inside a transaction by the C09 check
                run.outcome(&format!("child-panic(reported under C09):{}", v["panic_class"].as_str().unwrap_or("?")));
            }
            if k >= 20 {
                run.sample(json!({"family": family, "k": k, "consumer": consumer, "child_report": v}));
            }
        }
        ChildOutcome::Timeout(s) => {
            run.validated();
            run.violation(
                "C11",
                format!("no-termination-within-deadline/family={}/consumer={}/{}", family, consumer, kclass),
                format!("{} k={} consumer={}: did not finish within {:.0} s (killed after {:.1} s)", family, k, consumer, deadline, s),
                desc,
            );
            run.outcome("child:timeout");
        }
        ChildOutcome::Signal(sig, err) => {
            run.validated();
            // A crash (stack overflow: stack use is linear in the nesting depth, hence in the weight) is an abort, which is
            // C09's subject, not a cost bound; the C09 check submits the same covenants inside transactions.
            let _ = (&err, kclass);
            run.outcome(&format!("child:signal-{}(reported under C09):{}:{}:k={}", sig, family, consumer, k));
        }
        ChildOutcome::Broken(e) => run.machinery_failure(&format!("child for {} k={} {}: {}", family, k, consumer, e)),
    }
}

pub fn run(run: &Run) {
    let thorough = run.thorough();
    // (i) steps <= weight, exhaustive over the control-flow alphabet
    let alpha = skeleton_alphabet();
    let max_len = if thorough { 5 } else { 4 };
    let n = enumerate_steps(run, &alpha, max_len);
    run.states_add(n);
    run.set("steps_vs_weight", json!({"alphabet": alpha.iter().map(|o| o.to_string()).collect::<Vec<_>>(), "max_len_completed": max_len, "programs": n}));
    // nested-loop towers with a visible body, deeper than the alphabet reaches
    let mut towers = 0u64;
    for depth in 1..=6usize {
        for iters in [1u16, 2, 3, 7] {
            for slack in [0usize, 1] {
                // Loop(i, d+slack) Loop(i, d-1+slack) ... Loop(i, 1+slack) pushi 1 [pushi 1]
                let mut p = vec![];
                for d in (1..=depth).rev() {
                    p.push(OpCode::Loop(iters, (d + slack) as u16));
                }
                p.push(pi(1));
                if slack == 1 {
                    p.push(pi(1));
                }
                run.outcome(&format!("tower:{}", check_steps(run, &p)));
                towers += 1;
            }
        }
    }
    // every instruction that needs no operand on the stack, repeated 3000 times by a loop: each execution is paid for
    {
        use OpCode::*;
        let singles = vec![Noop, PushB(vec![]), PushB(vec![1]), PushB(vec![0; 33]), PushB(vec![0; 255]), PushI(0u8.into()), PushIC(0u8.into()), PushIC(U256::MAX), BEmpty, VEmpty, LoadImm(0), Dup];
        for op in singles {
            let p = vec![pi(1), StoreImm(0), pi(1), Loop(3000, 1), op];
            run.outcome(&format!("loop-over-single-opcode:{}", check_steps(run, &p)));
            towers += 1;
        }
    }
    run.states_add(towers);
    println!("  [phase] steps+towers done at {:.1}s", run.elapsed());
    // loops followed by a tail longer than a 16-bit count can express (programs of more than 65536 instructions)
    let tails: Vec<usize> = if thorough { vec![65_529, 65_530, 65_531, 65_532, 65_533, 65_534, 65_535, 65_536, 65_537, 131_066, 131_069, 131_071, 131_072] } else { vec![65_531, 65_534, 65_535, 65_536, 131_069] };
    let long_tail = parking_lot::Mutex::new(0u64);
    tails.par_iter().for_each(|tail| {
        for head in [vec![pi(0), OpCode::Loop(1000, 2), pi(1), OpCode::Add], vec![pi(0), OpCode::Loop(30, 3), OpCode::Loop(20, 2), pi(1), OpCode::Add]] {
            let mut p = head;
            p.extend(std::iter::repeat(OpCode::Noop).take(*tail));
            run.outcome(&format!("long-tail:{}", check_steps(run, &p)));
            *long_tail.lock() += 1;
        }
    });
    run.states_add(long_tail.into_inner());
    run.set("long_tail_programs", json!({"tails": tails, "heads": ["pushi 0; loop 1000 2; pushi 1; add", "pushi 0; loop 30 3; loop 20 2; pushi 1; add"]}));
    println!("  [phase] long tails done at {:.1}s", run.elapsed());
    // (ii) weighing work
    let mut weigh_cases = 0u64;
    let max_exh = if thorough { 8 } else { 6 };
    for n in 1..=max_exh {
        // every assignment of (iters, body) in {0,1,2} x {0,1,n,65535} to n headers
        let opts: Vec<(u16, u16)> = [0u16, 1, 2].into_iter().flat_map(|i| [0u16, 1, n as u16, 65535].into_iter().map(move |b| (i, b))).collect();
        let total = opts.len().pow(n as u32);
        if total > 3_000_000 {
            run.cap_hit(&format!("weigh-exhaustive n={} skipped ({} programs)", n, total));
            continue;
        }
        (0..total).into_par_iter().for_each(|mut t| {
            let mut p = vec![];
            for _ in 0..n {
                let (i, b) = opts[t % opts.len()];
                t /= opts.len();
                p.push(OpCode::Loop(i, b));
            }
            check_weigh_inprocess(run, &p, "loop-headers-exhaustive");
        });
        weigh_cases += total as u64;
    }
    for n in [9usize, 10, 12, 14, 16, 18, 20] {
        for (i, b, pad) in [(2u16, 65535u16, false), (2, n as u16, false), (1, 1, false), (2, 65535, true)] {
            check_weigh_inprocess(run, &loop_header_program(n, i, b, pad), &format!("loop-headers-uniform n={} iters={} body={} pad={}", n, i, b, pad));
            weigh_cases += 1;
        }
    }
    run.states_add(weigh_cases);
    run.set("weighing_cases_in_process", json!(weigh_cases));
    // larger n only in children (a super-polynomial weigher never returns)
    let deadline = if thorough { 30.0 } else { 10.0 };
    let mut child_cases: Vec<(String, usize, String)> = vec![];
    for n in [24usize, 32, 64, 200, 1000] {
        child_cases.push(("weigh-uniform".into(), n, "65535".into()));
    }
    child_cases.push(("weigh-uniform".into(), 2000, "3".into()));
    for k in if thorough { vec![50usize, 500, 5000, 100_000] } else { vec![50usize, 500, 5000] } {
        child_cases.push(("weigh-bytes-b0".into(), k, "-".into()));
    }
    println!("  [phase] weighing done at {:.1}s", run.elapsed());
    // (iii) data doubling
    let ks: Vec<usize> = if thorough { (1..=26).collect() } else { vec![1, 2, 8, 16, 20, 22, 24, 26] };
    for k in &ks {
        for (c, _) in byte_consumers() {
            child_cases.push(("bdouble".into(), *k, c.to_string()));
        }
        for (c, _) in vec_consumers() {
            child_cases.push(("vdouble".into(), *k, c.to_string()));
        }
    }
    for k in [8usize, 20, 26, 1000, 65535] {
        for c in ["none", "btoi", "hash32", "blength", "sigeok-as-msg"] {
            child_cases.push(("bdouble-loop".into(), k, c.to_string()));
        }
    }
    // (iv) deep nesting
    for k in [10usize, 100, 1000, 10_000, 65_535] {
        for c in ["none", "vlength", "dup", "typeq"] {
            child_cases.push(("vnest".into(), k, c.to_string()));
        }
    }
    run.set("child_process_cases", json!(child_cases.len()));
    run.states_add(child_cases.len() as u64);
    // children are independent processes: run 8 at a time
    let pool = rayon::ThreadPoolBuilder::new().num_threads(8).build().unwrap();
    pool.install(|| {
        child_cases.par_iter().for_each(|(f, k, c)| judge_child(run, f, *k, c, deadline));
    });
    run.sample(json!({"program": "loop 3 2; loop 3 1; pushi 1", "oracle": "steps <= Covenant::weight()"}));
    run.sample(json!({"family": "bdouble", "program": "pushb[32B]; (dup; bappend) x k; btoi", "oracle": "peak heap growth <= 4096*(weight+64), terminates within the deadline"}));
    run.assume("memory is measured by a counting global allocator in a child process; the 2 MiB stack matches rayon's default worker stack");
    run.assume("wall time is never judged except through the per-child deadline (10 s quick / 30 s thorough for work that normally takes microseconds)");
}

pub fn replay(run: &Run, v: &serde_json::Value) {
    if let (Some(f), Some(k), Some(c)) = (v["family"].as_str(), v["k"].as_u64(), v["consumer"].as_str()) {
        judge_child(run, f, k as usize, c, 30.0);
        return;
    }
    if let Some(hexs) = v["bytes_hex"].as_str() {
        if let Some(ops) = hex::decode(hexs).ok().and_then(|b| crate::refvm::ref_decode(&b)) {
            println!("replay [{}] -> {}", prog_str(&ops), check_steps(run, &ops));
            return;
        }
    }
    println!("re-run the check (the enumeration is deterministic)");
}
