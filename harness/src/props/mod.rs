pub mod c10;
pub mod c11;
pub mod c12;
pub mod c14;
pub mod c17;
