pub mod c12;
