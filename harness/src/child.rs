//! Child-process isolation for inputs that may kill or hang the process (stack overflow,
//! allocation failure, exponential work).  The parent re-invokes its own binary with
//! `__child <kind> <args…>`; the child prints one JSON line on stdout.
use serde_json::Value;
use std::io::Read;
use std::process::{Command, Stdio};
use std::sync::atomic::{AtomicUsize, Ordering};
use std::time::{Duration, Instant};

// ---- counting allocator (used by the child to report peak heap growth) ----
pub struct CountingAlloc;
static CURRENT: AtomicUsize = AtomicUsize::new(0);
static PEAK: AtomicUsize = AtomicUsize::new(0);
/// counting is switched on only in child processes (a shared counter would serialise the 16 search threads)
static ENABLED: std::sync::atomic::AtomicBool = std::sync::atomic::AtomicBool::new(false);

pub fn enable_counting() {
    ENABLED.store(true, Ordering::SeqCst);
}

unsafe impl std::alloc::GlobalAlloc for CountingAlloc {
    unsafe fn alloc(&self, l: std::alloc::Layout) -> *mut u8 {
        let p = std::alloc::System.alloc(l);
        if !p.is_null() && ENABLED.load(Ordering::Relaxed) {
            let c = CURRENT.fetch_add(l.size(), Ordering::Relaxed) + l.size();
            PEAK.fetch_max(c, Ordering::Relaxed);
        }
        p
    }
    unsafe fn dealloc(&self, p: *mut u8, l: std::alloc::Layout) {
        if ENABLED.load(Ordering::Relaxed) {
            // saturating: memory allocated before counting was enabled may be freed afterwards
            let _ = CURRENT.fetch_update(Ordering::Relaxed, Ordering::Relaxed, |c| Some(c.saturating_sub(l.size())));
        }
        std::alloc::System.dealloc(p, l)
    }
    unsafe fn realloc(&self, p: *mut u8, l: std::alloc::Layout, new_size: usize) -> *mut u8 {
        let q = std::alloc::System.realloc(p, l, new_size);
        if !q.is_null() && ENABLED.load(Ordering::Relaxed) {
            if new_size >= l.size() {
                let c = CURRENT.fetch_add(new_size - l.size(), Ordering::Relaxed) + (new_size - l.size());
                PEAK.fetch_max(c, Ordering::Relaxed);
            } else {
                let _ = CURRENT.fetch_update(Ordering::Relaxed, Ordering::Relaxed, |c| Some(c.saturating_sub(l.size() - new_size)));
            }
        }
        q
    }
}

pub fn mem_reset() -> usize {
    let c = CURRENT.load(Ordering::Relaxed);
    PEAK.store(c, Ordering::Relaxed);
    c
}
pub fn mem_peak() -> usize {
    PEAK.load(Ordering::Relaxed)
}

#[derive(Debug, Clone)]
pub enum ChildOutcome {
    /// child exited normally and printed this JSON
    Done(Value),
    /// killed by the parent after the deadline
    Timeout(f64),
    /// died from a signal (11 = SIGSEGV: stack overflow; 6 = SIGABRT: allocation failure / abort)
    Signal(i32, String),
    /// exited with an unexpected status or unparsable output (machinery problem)
    Broken(String),
}

/// Runs `mcheck __child <args>` under an address-space limit and a deadline.
pub fn run_child(args: &[String], deadline_s: f64, as_limit_bytes: u64) -> ChildOutcome {
    let exe = std::env::current_exe().expect("current_exe");
    let mut cmd = Command::new(exe);
    cmd.arg("__child").args(args).stdout(Stdio::piped()).stderr(Stdio::piped()).stdin(Stdio::null());
    cmd.env("MCHECK_AS_LIMIT", as_limit_bytes.to_string());
    let mut ch = match cmd.spawn() {
        Ok(c) => c,
        Err(e) => return ChildOutcome::Broken(format!("spawn failed: {}", e)),
    };
    let start = Instant::now();
    loop {
        match ch.try_wait() {
            Ok(Some(status)) => {
                let mut out = String::new();
                let mut err = String::new();
                if let Some(mut o) = ch.stdout.take() {
                    o.read_to_string(&mut out).ok();
                }
                if let Some(mut e) = ch.stderr.take() {
                    e.read_to_string(&mut err).ok();
                }
                use std::os::unix::process::ExitStatusExt;
                if let Some(sig) = status.signal() {
                    return ChildOutcome::Signal(sig, err.lines().last().unwrap_or("").chars().take(200).collect());
                }
                if status.code() == Some(0) {
                    if let Some(line) = out.lines().rev().find(|l| l.starts_with('{')) {
                        if let Ok(v) = serde_json::from_str::<Value>(line) {
                            return ChildOutcome::Done(v);
                        }
                    }
                    return ChildOutcome::Broken(format!("unparsable child output: {}", out.chars().take(200).collect::<String>()));
                }
                // Rust's stack-overflow handler and alloc-failure abort both raise signals; anything else is machinery
                return ChildOutcome::Broken(format!("exit {:?}: {}", status.code(), err.chars().take(300).collect::<String>()));
            }
            Ok(None) => {
                if start.elapsed().as_secs_f64() > deadline_s {
                    ch.kill().ok();
                    ch.wait().ok();
                    return ChildOutcome::Timeout(start.elapsed().as_secs_f64());
                }
                std::thread::sleep(Duration::from_millis(3));
            }
            Err(e) => return ChildOutcome::Broken(format!("wait failed: {}", e)),
        }
    }
}

/// Applies the address-space limit requested by the parent.
pub fn apply_limits() {
    if let Some(lim) = std::env::var("MCHECK_AS_LIMIT").ok().and_then(|s| s.parse::<u64>().ok()) {
        if lim > 0 {
            let r = libc::rlimit { rlim_cur: lim, rlim_max: lim };
            unsafe {
                libc::setrlimit(libc::RLIMIT_AS, &r);
            }
        }
    }
    // no core dumps
    let z = libc::rlimit { rlim_cur: 0, rlim_max: 0 };
    unsafe {
        libc::setrlimit(libc::RLIMIT_CORE, &z);
    }
}

/// Runs `f` on a thread with a 2 MiB stack (the default stack of the rayon workers that execute covenants in melstf).
pub fn on_small_stack<T: Send + 'static>(f: impl FnOnce() -> T + Send + 'static) -> T {
    std::thread::Builder::new().stack_size(2 << 20).spawn(f).expect("spawn").join().expect("child thread panicked")
}
