//! Transaction alphabets: templates instantiated over the model's current coin set (simplest
//! first, deterministic order), including deliberately colliding and adversarial members.
use crate::refstf::RefState;
use crate::stf::{Action, Node};
use crate::world::*;
use melstructs::{Address, CoinData, CoinDataHeight, CoinID, CoinValue, Denom, PoolKey, ProposerAction, StakeDoc, Transaction, TxKind};
use tmelcrypt::HashVal;

#[derive(Clone, Debug)]
pub struct AlphaCfg {
    /// coins considered per denomination (first k by coin id)
    pub per_denom: usize,
    pub transfers: bool,
    pub splits: bool,
    pub merges: bool,
    pub burns: bool,
    pub mints: bool,
    pub overpay: bool,
    pub swaps: bool,
    pub deposits: bool,
    pub withdrawals: bool,
    pub pool_spellings: bool,
    pub other_kinds_with_pool_data: bool,
    pub stakes: bool,
    pub faucets: bool,
    pub adversarial: bool,
    pub pairs: bool,
    pub seal_actions: Vec<Option<ProposerAction>>,
    pub max_txs_per_block: usize,
    /// restrict pool requests to these pools (None = every known pool)
    pub only_pools: Option<Vec<PoolKey>>,
    /// offer a jump to this height from sealed states below it
    pub jump_to: Option<u64>,
    /// emit every withdrawal request twice (different additional data, hence different transaction hashes and settlement orders)
    pub request_variants: bool,
    /// also emit every request with its request output addressed to the destruction address (it never becomes a coin)
    pub burnt_requests: bool,
    /// swap templates per pool side (coins of that denomination used)
    pub swaps_per_side: usize,
    /// near-requests: a deposit listing its coins as (right, left), a withdrawal carrying a change output to another address
    pub odd_shapes: bool,
    /// offer a restart (to_block / from_block) of every sealed state that has not been restarted yet
    pub restarts: bool,
}

impl AlphaCfg {
    pub fn base() -> Self {
        AlphaCfg {
            per_denom: 2,
            transfers: true,
            splits: true,
            merges: false,
            burns: true,
            mints: true,
            overpay: true,
            swaps: false,
            deposits: false,
            withdrawals: false,
            pool_spellings: false,
            other_kinds_with_pool_data: false,
            stakes: false,
            faucets: true,
            adversarial: true,
            pairs: true,
            seal_actions: vec![None, Some(ProposerAction { fee_multiplier_delta: 0, reward_dest: addr_true() })],
            max_txs_per_block: 2,
            only_pools: None,
            jump_to: None,
            request_variants: false,
            burnt_requests: false,
            swaps_per_side: 1,
            odd_shapes: false,
            restarts: false,
        }
    }
}

pub fn action_dest(i: u8) -> ProposerAction {
    ProposerAction { fee_multiplier_delta: i as i8, reward_dest: cov_true_n(i as u32).hash() }
}

/// Coins locked by the always-true covenant, grouped by denomination, in coin-id order.
pub fn wallet(m: &RefState) -> Vec<(CoinID, CoinDataHeight)> {
    let (t, t2) = (addr_true(), addr_true2());
    m.coins.iter().filter(|(_, c)| (c.coin_data.covhash == t || c.coin_data.covhash == t2) && c.coin_data.value.0 > 0).map(|(k, v)| (*k, v.clone())).collect()
}

pub fn coins_of(m: &RefState, d: Denom, k: usize) -> Vec<(CoinID, CoinDataHeight)> {
    wallet(m).into_iter().filter(|(_, c)| c.coin_data.denom == d).take(k).collect()
}

fn denoms_present(m: &RefState) -> Vec<Denom> {
    let mut v: Vec<Denom> = wallet(m).iter().map(|(_, c)| c.coin_data.denom).collect();
    v.sort();
    v.dedup();
    v
}

fn short(id: &CoinID) -> String {
    format!("{}-{}", hex::encode(&id.txhash.0 .0[..2]), id.index)
}

/// Inputs/outputs skeleton spending `c` (plus a MEL carrier when `c` is not MEL: the balance rule needs a MEL entry).
fn spend_base(m: &RefState, c: &(CoinID, CoinDataHeight)) -> Option<(Vec<CoinID>, Vec<CoinData>)> {
    if c.1.coin_data.denom == Denom::Mel {
        Some((vec![c.0], vec![]))
    } else {
        let carrier = coins_of(m, Denom::Mel, 8).into_iter().last()?;
        Some((vec![c.0, carrier.0], vec![out_t(carrier.1.coin_data.value.0, Denom::Mel)]))
    }
}

fn single(label: String, tx: Transaction, expect_ok: bool) -> Action {
    Action::Batch { label, txs: vec![tx], expect_ok }
}

pub fn pool_spellings(k: PoolKey) -> Vec<(&'static str, Vec<u8>)> {
    let mut v: Vec<(&'static str, Vec<u8>)> = vec![("canonical", k.to_bytes().to_vec())];
    let long = |a: Denom, b: Denom| {
        let mut x = vec![0u8; 32];
        x.extend_from_slice(&stdcode::serialize(&(a, b)).unwrap());
        x
    };
    v.push(("long", long(k.left(), k.right())));
    v.push(("long-reversed", long(k.right(), k.left())));
    v.push(("long-equal", long(k.left(), k.left())));
    v.push(("long-equal-right", long(k.right(), k.right())));
    v.dedup_by(|a, b| a.1 == b.1);
    v
}

pub fn stake_doc_bytes(keyi: u8, e_start: u64, e_post_end: u64, amount: u128) -> Vec<u8> {
    stdcode::serialize(&StakeDoc { pubkey: key(keyi).0, e_start, e_post_end, syms_staked: CoinValue(amount) }).unwrap()
}

/// The single-transaction alphabet of an open node.
pub fn tx_alphabet(n: &Node, cfg: &AlphaCfg) -> Vec<(String, Transaction, bool)> {
    let m = &n.model;
    let mut acc: Vec<(String, Transaction, bool)> = vec![];
    let denoms = denoms_present(m);
    let mels = coins_of(m, Denom::Mel, cfg.per_denom);
    for d in &denoms {
        for c in coins_of(m, *d, cfg.per_denom) {
            let v = c.1.coin_data.value.0;
            let (ins, carrier_out) = match spend_base(m, &c) {
                Some(x) => x,
                None => continue,
            };
            if ins.len() == 2 && ins[0] == ins[1] {
                continue;
            }
            let with = |outs: Vec<CoinData>| {
                let mut o = outs;
                o.extend(carrier_out.clone());
                o
            };
            if cfg.transfers {
                acc.push((format!("xfer({})", short(&c.0)), tx_t(TxKind::Normal, ins.clone(), with(vec![out_t(v, *d)]), 0, vec![]), true));
            }
            if cfg.transfers && cfg.stakes && ins.len() == 2 {
                // the same transfer with the MEL carrier listed first (a locked coin must be refused wherever it stands among the inputs)
                let mut rev = ins.clone();
                rev.reverse();
                let mut outs = with(vec![out_t(v, *d)]);
                outs.reverse();
                acc.push((format!("xfer-carrier-first({})", short(&c.0)), tx_t(TxKind::Normal, rev, outs, 0, vec![]), true));
            }
            if cfg.transfers && m.network == melstructs::NetID::Custom08 {
                // the same transfer carrying empty signature slots (placeholders): same identity (hash_nosigs), another encoding -
                // the dense transaction commitment of TIP-908 covers the encoding with signatures
                let mut t = tx_t(TxKind::Normal, ins.clone(), with(vec![out_t(v, *d)]), 0, vec![]);
                t.sigs = vec![Default::default(), Default::default()];
                acc.push((format!("xfer+empty-sig-slots({})", short(&c.0)), t, true));
            }
            if cfg.transfers {
                // to the *other* always-true address: an address gains its first / loses its last coin
                let other = if c.1.coin_data.covhash == addr_true() { addr_true2() } else { addr_true() };
                acc.push((format!("move({})", short(&c.0)), tx_t(TxKind::Normal, ins.clone(), with(vec![out(other, v, *d)]), 0, vec![]), true));
            }
            if cfg.splits && v >= 2 {
                acc.push((format!("split({})", short(&c.0)), tx_t(TxKind::Normal, ins.clone(), with(vec![out_t(v / 2, *d), out_t(v - v / 2, *d)]), 0, vec![]), true));
            }
            if cfg.burns {
                acc.push((format!("burn({})", short(&c.0)), tx_t(TxKind::Normal, ins.clone(), with(vec![out(Address::coin_destroy(), v, *d)]), 0, vec![]), true));
            }
            if cfg.mints && *d == Denom::Mel {
                acc.push((format!("mint({})", short(&c.0)), tx_t(TxKind::Normal, ins.clone(), with(vec![out_t(v, *d), out_t(600, Denom::NewCustom), out_t(400, Denom::NewCustom)]), 0, vec![]), true));
            }
            if cfg.overpay && *d == Denom::Mel && v > 1000 {
                acc.push((format!("overpay({})", short(&c.0)), tx_t(TxKind::Normal, ins.clone(), with(vec![out_t(v - 777, *d)]), 777, vec![]), true));
            }
            if cfg.adversarial {
                acc.push((format!("unbal+1({})", short(&c.0)), tx_t(TxKind::Normal, ins.clone(), with(vec![out_t(v + 1, *d)]), 0, vec![]), false));
                // unbalanced in an ordinary denomination while also issuing a new token (the exemption of the new token must not spread)
                acc.push((format!("unbal+1+newtoken({})", short(&c.0)), tx_t(TxKind::Normal, ins.clone(), with(vec![out_t(v + 1, *d), out_t(7, Denom::NewCustom)]), 0, vec![]), false));
                acc.push((format!("nocov({})", short(&c.0)), mktx(TxKind::Normal, ins.clone(), with(vec![out_t(v, *d)]), 0, vec![], vec![]), false));
                if *d != Denom::Mel && ins.len() == 2 {
                    // the coin's denomination named by no output at all: its amount disappears (known finding AK: accepted), and the
                    // same with one unit less named explicitly (refused as unbalanced)
                    acc.push((format!("omit-denomination({})", short(&c.0)), tx_t(TxKind::Normal, ins.clone(), with(vec![]), 0, vec![]), false));
                    if v > 1 {
                        acc.push((format!("unbal-1({})", short(&c.0)), tx_t(TxKind::Normal, ins.clone(), with(vec![out_t(v - 1, *d)]), 0, vec![]), false));
                    }
                }
                let mut dbl = ins.clone();
                dbl.push(c.0);
                acc.push((format!("dbl({})", short(&c.0)), tx_t(TxKind::Normal, dbl, with(vec![out_t(v, *d), out_t(v, *d)]), 0, vec![]), false));
            }
        }
    }
    if cfg.merges && mels.len() >= 2 {
        let v = mels[0].1.coin_data.value.0 + mels[1].1.coin_data.value.0;
        acc.push((format!("merge({},{})", short(&mels[0].0), short(&mels[1].0)), tx_t(TxKind::Normal, vec![mels[0].0, mels[1].0], vec![out_t(v, Denom::Mel)], 0, vec![]), true));
    }
    if cfg.adversarial {
        if let Some(c) = mels.first() {
            let v = c.1.coin_data.value.0;
            let missing = CoinID { txhash: HashVal([0xee; 32]).into(), index: 0 };
            acc.push(("missing-input".into(), tx_t(TxKind::Normal, vec![c.0, missing], vec![out_t(v, Denom::Mel)], 0, vec![]), false));
            acc.push(("value-above-max".into(), tx_t(TxKind::Normal, vec![c.0], vec![out_t((1u128 << 120) + 1, Denom::Mel)], 0, vec![]), false));
            acc.push(("wrongcov".into(), mktx(TxKind::Normal, vec![c.0], vec![out_t(v, Denom::Mel)], 0, vec![cov_false().to_bytes()], vec![]), false));
            // a transaction that consumes nothing could be applied again and again: its "own newly created token" would be issued anew each time
            acc.push(("no-inputs-new-token".into(), tx_t(TxKind::Normal, vec![], vec![out_t(500, Denom::NewCustom)], 0, vec![0x4e]), false));
            // a zero-valued coin of a denomination the transaction has no input of (arithmetically balanced)
            acc.push(("zero-valued-foreign-output".into(), tx_t(TxKind::Normal, vec![c.0], vec![out_t(v, Denom::Mel), out_t(0, Denom::Custom(HashVal([0x77; 32]).into()))], 0, vec![]), false));
            // a faucet-kind transaction that lists a coin as an input without bringing its covenant: inputs are authorised whatever the kind
            acc.push(("faucet-consuming-a-coin-without-its-covenant".into(), mktx(TxKind::Faucet, vec![c.0], vec![out_t(1, Denom::Mel)], 0, vec![], vec![0x66]), false));
            // the marker a faucet leaves behind is a zero-valued coin at the address nothing hashes to: no transaction can spend it
            // (a spent marker would let the faucet be applied again); the first two markers the state holds
            for (mid, _) in m.coins.iter().filter(|(_, d)| d.coin_data.value.0 == 0 && d.coin_data.covhash == Address(HashVal::default())).take(2) {
                acc.push((format!("spend-faucet-marker({})+coin", short(mid)), tx_t(TxKind::Normal, vec![c.0, *mid], vec![out_t(v, Denom::Mel)], 0, vec![0x6d]), false));
                acc.push((format!("spend-faucet-marker({})-first", short(mid)), tx_t(TxKind::Normal, vec![*mid, c.0], vec![out_t(v, Denom::Mel)], 0, vec![0x6e]), false));
            }
            acc.push(("underpaid-zero-outs".into(), tx_t(TxKind::Normal, vec![c.0], vec![], 0, vec![]), false));
            if v > 256 {
                let outs: Vec<CoinData> = (0..256).map(|i| out_t(if i == 0 { v - 255 } else { 1 }, Denom::Mel)).collect();
                acc.push(("256-outputs".into(), tx_t(TxKind::Normal, vec![c.0], outs, 0, vec![]), false));
            }
        }
    }
    if cfg.adversarial {
        // a second spend of a coin this history has already spent (earlier in this block, possibly created in it, or in an earlier block)
        for c in m.spent_recently.iter() {
            if c.1.coin_data.covhash != addr_true() && c.1.coin_data.covhash != addr_true2() {
                continue;
            }
            if let Some((ins, carrier_out)) = spend_base(m, c) {
                let mut outs = vec![out_t(c.1.coin_data.value.0, c.1.coin_data.denom)];
                outs.extend(carrier_out);
                acc.push((format!("respend({})", short(&c.0)), tx_t(TxKind::Normal, ins, outs, 0, vec![0x52]), false));
            }
        }
    }
    if cfg.stakes {
        // a consistent stake with a MEL change output (first output: all of a SYM coin, staked for epochs cur+1 .. cur+2)
        if let (Some(sc), Some(mc)) = (coins_of(m, Denom::Sym, 1).first(), coins_of(m, Denom::Mel, 8).last()) {
            let cur = m.height / 200_000;
            let t = tx_t(
                TxKind::Stake,
                vec![sc.0, mc.0],
                vec![out_t(sc.1.coin_data.value.0, Denom::Sym), out_t(mc.1.coin_data.value.0, Denom::Mel)],
                0,
                stake_doc_bytes(1, cur + 1, cur + 2, sc.1.coin_data.value.0),
            );
            acc.push((format!("stake-with-change({})", short(&sc.0)), t, true));
            // the same transaction with a document that is not in order (amount one unit off; starting in the current epoch): accepted
            // like an ordinary payment, registers nothing - a block that holds it is where a rebuilt node must not find a stake
            // (seed C08-r12-1: from_block re-registered every Stake transaction of the block whose data parses)
            for (name, doc) in [("stake-amount-off-by-one", stake_doc_bytes(1, cur + 1, cur + 2, sc.1.coin_data.value.0 + 1)), ("stake-starting-in-the-current-epoch", stake_doc_bytes(1, cur, cur + 2, sc.1.coin_data.value.0))] {
                let t = tx_t(TxKind::Stake, vec![sc.0, mc.0], vec![out_t(sc.1.coin_data.value.0, Denom::Sym), out_t(mc.1.coin_data.value.0, Denom::Mel)], 0, doc);
                acc.push((format!("{}({})", name, short(&sc.0)), t, true));
            }
        }
    }
    if cfg.faucets && m.network == melstructs::NetID::Mainnet {
        // the one faucet mainnet accepts (and accepts again: the statement's grandfathered exception)
        acc.push(("faucet-grandfathered".into(), crate::props::c19::grandfathered(), true));
    }
    if cfg.faucets {
        // two distinct faucets; each can be applied once per chain
        for j in 0..2u8 {
            acc.push((format!("faucet{}", j), tx_t(TxKind::Faucet, vec![], vec![out_t(5000 + j as u128, Denom::Mel), out_t(300, Denom::Sym)], 0, vec![j]), true));
        }
    }
    acc.extend(pool_alphabet(n, cfg));
    if m.fee_multiplier > 0 {
        // fee-aware instantiation: plain templates pay exactly the minimum fee (plus what they already over-paid),
        // taken from their largest MEL output
        for (_, tx, ok) in acc.iter_mut() {
            if *ok {
                pay_min_fee(tx, m.fee_multiplier);
            }
        }
        if cfg.adversarial {
            // a payment that is one unit short of its minimum fee - refused late, after everything else about it has been found in
            // order - and, as a member of its own, the spend of its first output: a coin that must never have existed
            // (one per denomination that is moved: the first four transfers)
            let shorts: Vec<(String, Transaction)> = acc.iter().filter(|(l, t, ok)| *ok && l.starts_with("xfer(") && t.fee.0 > 0 && t.outputs.iter().any(|o| o.denom == Denom::Mel)).take(4).map(|(l, t, _)| (l.clone(), t.clone())).collect();
            for (k, (l, t)) in shorts.into_iter().enumerate() {
                let mut short_tx = t.clone();
                short_tx.fee = CoinValue(t.fee.0 - 1);
                if let Some(o) = short_tx.outputs.iter_mut().find(|o| o.denom == Denom::Mel) {
                    o.value = CoinValue(o.value.0 + 1);
                }
                let o0 = short_tx.outputs[0].clone();
                let mut ghost = tx_t(TxKind::Normal, vec![short_tx.output_coinid(0)], vec![out_t(o0.value.0, o0.denom)], 0, vec![0x9b]);
                pay_min_fee(&mut ghost, m.fee_multiplier);
                acc.push((format!("one-unit-short-of-its-fee:{}", l), short_tx, false));
                if k == 0 && o0.denom == Denom::Mel && o0.covhash == addr_true() {
                    acc.push(("spend-output0-of-the-one-unit-short-payment".into(), ghost, false));
                }
            }
        }
    }
    acc
}

/// Raises the fee of `tx` to the minimum fee (on top of any fee it already pays) and takes the difference out of its largest MEL output.
pub fn pay_min_fee(tx: &mut Transaction, mult: u128) {
    let extra = tx.fee.0;
    let idx = match tx.outputs.iter().enumerate().filter(|(_, o)| o.denom == Denom::Mel && o.covhash != Address::coin_destroy()).max_by_key(|(_, o)| o.value.0) {
        Some((i, _)) => i,
        None => return,
    };
    let orig = tx.outputs[idx].value.0;
    for _ in 0..5 {
        let need = crate::refstf::ref_min_fee(tx, mult);
        if need > orig {
            return;
        }
        tx.fee = CoinValue(need + extra);
        tx.outputs[idx].value = CoinValue(orig - need);
    }
    // the last iteration may have changed the encoded size by a byte; never leave the transaction below the minimum
    let need = crate::refstf::ref_min_fee(tx, mult);
    if tx.fee.0 < need + extra && orig >= need {
        tx.fee = CoinValue(need + extra);
        tx.outputs[idx].value = CoinValue(orig - need);
    }
}

pub fn known_pools(m: &RefState) -> Vec<PoolKey> {
    let mut v: Vec<PoolKey> = vec![PoolKey::new(Denom::Mel, Denom::Sym), PoolKey::new(Denom::Mel, Denom::Erg), PoolKey::new(Denom::Erg, Denom::Sym)];
    for k in m.pools.keys() {
        if !v.contains(k) {
            v.push(*k);
        }
    }
    // a brand-new pool for every custom (non-liquidity) token held
    let liq = crate::stf::liq_denoms(m);
    for (_, c) in wallet(m) {
        if let Denom::Custom(_) = c.coin_data.denom {
            if !liq.contains(&c.coin_data.denom) {
                let k = PoolKey::new(Denom::Mel, c.coin_data.denom);
                if !v.contains(&k) {
                    v.push(k);
                }
            }
        }
    }
    v
}

fn pool_alphabet(n: &Node, cfg: &AlphaCfg) -> Vec<(String, Transaction, bool)> {
    let m = &n.model;
    let mut out = vec![];
    if !(cfg.swaps || cfg.deposits || cfg.withdrawals || cfg.other_kinds_with_pool_data) {
        return out;
    }
    let mut pools = known_pools(m);
    if let Some(only) = &cfg.only_pools {
        pools.retain(|k| only.contains(k));
    }
    if cfg.odd_shapes {
        // requests "against the pool named by the empty string": the empty data parses as the pair (NewCustom, MEL), and NewCustom
        // is what every new-token output is labelled with inside its transaction.  None of these is a request; their outputs stay
        // as declared (the new-token outputs become tokens of their own transactions).
        let mels = coins_of(m, Denom::Mel, 3);
        if let Some(a) = mels.first() {
            let v = a.1.coin_data.value.0;
            if cfg.deposits {
                out.push(("deposit[NEW/MEL:empty-data]".to_string(), tx_t(TxKind::LiqDeposit, vec![a.0], vec![out_t(1000, Denom::NewCustom), out_t(v, Denom::Mel)], 0, vec![]), true));
            }
            if cfg.swaps {
                out.push((format!("swap[NEW/MEL:empty-data](MEL {})", short(&a.0)), tx_t(TxKind::Swap, vec![a.0], vec![out_t(v, Denom::Mel)], 0, vec![]), true));
            }
        }
        if let Some(b) = mels.get(1) {
            if cfg.swaps {
                out.push((format!("swap[NEW/MEL:empty-data](NEW, carrier {})", short(&b.0)), tx_t(TxKind::Swap, vec![b.0], vec![out_t(1_000_000_000, Denom::NewCustom), out_t(b.1.coin_data.value.0, Denom::Mel)], 0, vec![]), true));
            }
        }
    }
    for k in &pools {
        let pname = format!("{}/{}", dn(k.left()), dn(k.right()));
        let spellings: Vec<(&'static str, Vec<u8>)> = if cfg.pool_spellings { pool_spellings(*k) } else { vec![("canonical", k.to_bytes().to_vec())] };
        for side in [k.left(), k.right()] {
            for c in coins_of(m, side, cfg.swaps_per_side.max(1)) {
                let v = c.1.coin_data.value.0;
                let (ins, carrier_out) = match spend_base(m, &c) {
                    Some(x) => x,
                    None => continue,
                };
                if ins.len() == 2 && ins[0] == ins[1] {
                    continue;
                }
                for (sname, data) in &spellings {
                    if cfg.swaps {
                        let mut o = vec![out_t(v, side)];
                        o.extend(carrier_out.clone());
                        out.push((format!("swap[{}:{}]({} {})", pname, sname, dn(side), short(&c.0)), tx_t(TxKind::Swap, ins.clone(), o.clone(), 0, data.clone()), true));
                        if cfg.burnt_requests && *sname == "canonical" {
                            let mut ob = o.clone();
                            ob[0].covhash = Address::coin_destroy();
                            out.push((format!("swap-burnt-output[{}]({} {})", pname, dn(side), short(&c.0)), tx_t(TxKind::Swap, ins.clone(), ob, 0, data.clone()), true));
                        }
                    }
                    if cfg.other_kinds_with_pool_data {
                        for kind in [TxKind::Normal, TxKind::Faucet] {
                            let mut o = vec![out_t(v, side)];
                            o.extend(carrier_out.clone());
                            let (ii, oo) = if kind == TxKind::Faucet { (vec![], vec![out_t(1234, side)]) } else { (ins.clone(), o) };
                            out.push((format!("{}-with-pool-data[{}:{}]({})", kind, pname, sname, dn(side)), tx_t(kind, ii, oo, 0, data.clone()), true));
                        }
                    }
                }
            }
        }
        if cfg.swaps && cfg.odd_shapes {
            // a Swap that names the pool but whose first output is of a denomination the pool does not trade: not a request - its
            // outputs stay as declared, alone and next to genuine requests on either side (seed C15-r11-1: such a transaction was
            // settled as a right-hand request and paid out of nothing)
            let foreign = [Denom::Sym, Denom::Erg, Denom::Mel].into_iter().find(|d| *d != k.left() && *d != k.right());
            if let Some(fd) = foreign {
                if let Some(c) = coins_of(m, fd, 1).into_iter().next() {
                    if let Some((ins, carrier_out)) = spend_base(m, &c) {
                        if !(ins.len() == 2 && ins[0] == ins[1]) {
                            let mut o = vec![out_t(c.1.coin_data.value.0, fd)];
                            o.extend(carrier_out);
                            out.push((format!("swap-foreign-denomination[{}]({} {})", pname, dn(fd), short(&c.0)), tx_t(TxKind::Swap, ins, o, 0, k.to_bytes().to_vec()), true));
                        }
                    }
                }
            }
        }
        if cfg.deposits {
            let l = coins_of(m, k.left(), 1);
            let r = coins_of(m, k.right(), 1);
            if let (Some(l), Some(r)) = (l.first(), r.first()) {
                let mut ins = vec![l.0, r.0];
                let mut outs = vec![out_t(l.1.coin_data.value.0, k.left()), out_t(r.1.coin_data.value.0, k.right())];
                if k.left() != Denom::Mel && k.right() != Denom::Mel {
                    if let Some(carrier) = coins_of(m, Denom::Mel, 8).into_iter().last() {
                        ins.push(carrier.0);
                        outs.push(out_t(carrier.1.coin_data.value.0, Denom::Mel));
                    }
                }
                for (sname, data) in &spellings {
                    out.push((format!("deposit[{}:{}]", pname, sname), tx_t(TxKind::LiqDeposit, ins.clone(), outs.clone(), 0, data.clone()), true));
                }
                if cfg.odd_shapes && outs.len() == 2 {
                    // the two coins in (right, left) order: not a deposit request (the first coin must be the pool's left side)
                    let ins_r = vec![r.0, l.0];
                    let outs_r = vec![outs[1].clone(), outs[0].clone()];
                    out.push((format!("deposit-sides-reversed[{}]", pname), tx_t(TxKind::LiqDeposit, ins_r, outs_r, 0, k.to_bytes().to_vec()), true));
                }
                if cfg.burnt_requests {
                    for which in [0usize, 1] {
                        let mut ob = outs.clone();
                        ob[which].covhash = Address::coin_destroy();
                        out.push((format!("deposit-burnt-output{}[{}]", which, pname), tx_t(TxKind::LiqDeposit, ins.clone(), ob, 0, k.to_bytes().to_vec()), true));
                    }
                }
            }
            if cfg.pool_spellings {
                // two coins of the same denomination "deposited" under the long-form name with equal sides: names no pool at all
                let same = coins_of(m, k.right(), 2);
                if same.len() == 2 && k.right() != Denom::Mel {
                    if let Some(carrier) = coins_of(m, Denom::Mel, 8).into_iter().last() {
                        let mut data = vec![0u8; 32];
                        data.extend_from_slice(&stdcode::serialize(&(k.right(), k.right())).unwrap());
                        let ins = vec![same[0].0, same[1].0, carrier.0];
                        let outs = vec![out_t(same[0].1.coin_data.value.0, k.right()), out_t(same[1].1.coin_data.value.0, k.right()), out_t(carrier.1.coin_data.value.0, Denom::Mel)];
                        out.push((format!("deposit-equal-sides[{}/{}]", dn(k.right()), dn(k.right())), tx_t(TxKind::LiqDeposit, ins, outs, 0, data), true));
                    }
                }
            }
            // a second, small deposit from *other* coins, so that several deposits can share a block
            let l2 = coins_of(m, k.left(), 2);
            let r2 = coins_of(m, k.right(), 2);
            if let (Some(l), Some(r)) = (l2.get(1), r2.get(1)) {
                let lv = l.1.coin_data.value.0;
                let rv = r.1.coin_data.value.0;
                if lv > 20 && rv > 20 {
                    let mut ins = vec![l.0, r.0];
                    let mut o2 = vec![out_t(4, k.left()), out_t(4, k.right()), out_t(lv - 4, k.left()), out_t(rv - 4, k.right())];
                    if k.left() != Denom::Mel && k.right() != Denom::Mel {
                        if let Some(carrier) = coins_of(m, Denom::Mel, 8).into_iter().last() {
                            ins.push(carrier.0);
                            o2.push(out_t(carrier.1.coin_data.value.0, Denom::Mel));
                        }
                    }
                    out.push((format!("deposit-small[{}]", pname), tx_t(TxKind::LiqDeposit, ins.clone(), o2.clone(), 0, k.to_bytes().to_vec()), true));
                    // where the wallet's second coins are large too (the huge-amount worlds): a second *large* deposit of another size,
                    // so that two deposits whose weights both exceed 64 bits share a block
                    if lv > (1 << 64) && rv > (1 << 64) {
                        let mut o3 = vec![out_t(lv, k.left()), out_t(rv / 2, k.right()), out_t(rv - rv / 2, k.right())];
                        o3.extend(o2.iter().skip(4).cloned());
                        out.push((format!("deposit-second-large[{}]", pname), tx_t(TxKind::LiqDeposit, ins, o3, 0, k.to_bytes().to_vec()), true));
                    }
                }
            }
        }
        if cfg.withdrawals {
            for (wi, c) in coins_of(m, k.liq_token_denom(), 3).into_iter().enumerate() {
                // every withdrawal request gets its own MEL carrier (pool number and coin number pick it), so that several fit in one block
                let carriers = coins_of(m, Denom::Mel, 12);
                if carriers.is_empty() {
                    continue;
                }
                let pool_no = pools.iter().position(|p| p == k).unwrap_or(0);
                let carrier = &carriers[(carriers.len() - 1).saturating_sub((pool_no * 3 + wi) % carriers.len())];
                let (ins, carrier_out) = (vec![c.0, carrier.0], Vec::<CoinData>::new());
                // a withdrawal request has exactly one output, so the MEL carrier cannot be returned: pay it as fee... not possible in general; use a MEL-free shape only when the carrier is tiny
                let _ = carrier_out;
                let v = c.1.coin_data.value.0;
                // the only valid shape: inputs [liq coin, mel coin], outputs [liq value], fee = mel value
                let fee = ins.get(1).and_then(|id| m.coins.get(id)).map(|c| c.coin_data.value.0).unwrap_or(0);
                out.push((format!("withdraw[{}]({})", pname, short(&c.0)), tx_t(TxKind::LiqWithdraw, ins.clone(), vec![out_t(v, k.liq_token_denom())], fee, k.to_bytes().to_vec()), true));
                if cfg.odd_shapes && wi == 0 {
                    // a withdrawal-like transaction with a change output to another address: not a request (a request has exactly one output)
                    let mut change = out_t(fee, Denom::Mel);
                    change.covhash = addr_true2();
                    out.push((format!("withdraw-with-change[{}]({})", pname, short(&c.0)), tx_t(TxKind::LiqWithdraw, ins.clone(), vec![out_t(v, k.liq_token_denom()), change], 0, k.to_bytes().to_vec()), true));
                }
                if cfg.burnt_requests {
                    let mut o = out_t(v, k.liq_token_denom());
                    o.covhash = Address::coin_destroy();
                    out.push((format!("withdraw-burnt-output[{}]({})", pname, short(&c.0)), tx_t(TxKind::LiqWithdraw, ins.clone(), vec![o], fee, k.to_bytes().to_vec()), true));
                }
                if cfg.request_variants {
                    let mut o = out_t(v, k.liq_token_denom());
                    o.additional_data = vec![1].into();
                    out.push((format!("withdraw'[{}]({})", pname, short(&c.0)), tx_t(TxKind::LiqWithdraw, ins.clone(), vec![o], fee, k.to_bytes().to_vec()), true));
                }
            }
        }
    }
    out
}

pub fn dn(d: Denom) -> String {
    match d {
        Denom::Mel => "MEL".into(),
        Denom::Sym => "SYM".into(),
        Denom::Erg => "ERG".into(),
        Denom::NewCustom => "NEW".into(),
        Denom::Custom(h) => format!("C{}", hex::encode(&h.0 .0[..2])),
    }
}

/// The full action alphabet of a node.
pub fn actions(n: &Node, cfg: &AlphaCfg) -> Vec<Action> {
    if !n.is_open() {
        let mut v = vec![Action::Open];
        if cfg.restarts && n.salt == 0 {
            v.push(Action::Restart);
        }
        if let Some(j) = cfg.jump_to {
            if n.model.height < j {
                v.push(Action::Jump(j));
            }
        }
        return v;
    }
    let mut v = vec![];
    let in_block = n.model.block_txs.len();
    if in_block < cfg.max_txs_per_block {
        let alpha = tx_alphabet(n, cfg);
        for (l, t, ok) in &alpha {
            v.push(single(l.clone(), t.clone(), *ok));
        }
        if cfg.pairs && in_block + 2 <= cfg.max_txs_per_block + 1 {
            v.extend(pair_actions(n, &alpha));
        }
    }
    for a in &cfg.seal_actions {
        v.push(Action::Seal(*a));
    }
    v
}

/// Ordered pairs that force interaction: b spends an output of a (both orders), two spends of the same coin, a repeated transaction.
pub fn pair_actions(n: &Node, alpha: &[(String, Transaction, bool)]) -> Vec<Action> {
    let mut v = vec![];
    let plain: Vec<&(String, Transaction, bool)> = alpha.iter().filter(|(_, _, ok)| *ok).collect();
    for (la, a, _) in plain.iter().map(|x| (&x.0, &x.1, x.2)) {
        if a.outputs.is_empty() {
            continue;
        }
        // chained spend of a's first output
        let o0 = &a.outputs[0];
        if o0.covhash == addr_true() && o0.denom != Denom::NewCustom {
            let id = a.output_coinid(0);
            let b = if o0.denom == Denom::Mel {
                Some(tx_t(TxKind::Normal, vec![id], vec![out_t(o0.value.0, Denom::Mel)], 0, vec![0xc4]))
            } else {
                // needs a MEL carrier: use a's MEL output if it has one
                a.outputs.iter().enumerate().find(|(_, o)| o.denom == Denom::Mel && o.covhash == addr_true()).map(|(i, mo)| {
                    tx_t(TxKind::Normal, vec![id, a.output_coinid(i as u8)], vec![out_t(o0.value.0, o0.denom), out_t(mo.value.0, Denom::Mel)], 0, vec![0xc4])
                })
            };
            if let Some(b) = b {
                v.push(Action::Batch { label: format!("[{} , chain]", la), txs: vec![a.clone(), b.clone()], expect_ok: true });
                v.push(Action::Batch { label: format!("[chain , {}]", la), txs: vec![b.clone(), a.clone()], expect_ok: true });
                // the coin created inside the batch is spent twice: by two different transactions, and twice by one
                {
                    // (a coin of another denomination travels with the MEL carrier that `chain` uses: the second claimant takes both again)
                    let mut b2 = b.clone();
                    b2.data = vec![0xc6].into();
                    v.push(Action::Batch { label: format!("[{} , chain , chain']", la), txs: vec![a.clone(), b.clone(), b2.clone()], expect_ok: false });
                    v.push(Action::Batch { label: format!("[chain' , {} , chain]", la), txs: vec![b2, a.clone(), b.clone()], expect_ok: false });
                    if o0.denom == Denom::Mel {
                        let d = tx_t(TxKind::Normal, vec![id, id], vec![out_t(o0.value.0, Denom::Mel), out_t(o0.value.0, Denom::Mel)], 0, vec![0xc7]);
                        v.push(Action::Batch { label: format!("[{} , dbl-of-its-output]", la), txs: vec![a.clone(), d], expect_ok: false });
                    }
                }
                // three-step chain in the worst order
                if o0.denom == Denom::Mel {
                    let c = tx_t(TxKind::Normal, vec![b.output_coinid(0)], vec![out_t(o0.value.0, Denom::Mel)], 0, vec![0xc5]);
                    v.push(Action::Batch { label: format!("[chain2 , chain , {}]", la), txs: vec![c, b, a.clone()], expect_ok: true });
                }
            }
        }
        v.push(Action::Batch { label: format!("[{} , {}]", la, la), txs: vec![a.clone(), a.clone()], expect_ok: false });
    }
    // conflicting pairs: two different transactions spending the same coin
    for i in 0..plain.len() {
        for j in 0..plain.len() {
            if i != j && !plain[i].1.inputs.is_empty() && plain[i].1.inputs.iter().any(|x| plain[j].1.inputs.contains(x)) && v.len() < 400 {
                if i < j {
                    v.push(Action::Batch { label: format!("[{} , {}]", plain[i].0, plain[j].0), txs: vec![plain[i].1.clone(), plain[j].1.clone()], expect_ok: false });
                }
            } else if i < j && n.model.block_txs.is_empty() && plain[i].1.inputs.iter().all(|x| !plain[j].1.inputs.contains(x)) && plain[i].1.kind != plain[j].1.kind {
                // independent pair of different kinds as one batch
                v.push(Action::Batch { label: format!("[{} , {}]", plain[i].0, plain[j].0), txs: vec![plain[i].1.clone(), plain[j].1.clone()], expect_ok: true });
            }
        }
    }
    v
}
