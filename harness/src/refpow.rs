//! Reference verifier for MelPoW proofs (non-interactive proofs of sequential work after Cohen & Pietrzak), written from
//! the construction that `melpow::Proof::generate` implements and *not* from `melpow::Proof::verify`:
//!
//! * nodes are bit strings of length <= d; the label of an inner node is H(id, label(child 0), label(child 1)), the label of a
//!   leaf is H(id, labels of the left siblings of the nodes on its path - those prefixes extended by 0 where the leaf has a 1);
//! * the proof opens 200 challenged leaves (derived from the puzzle): for each, the leaf label, the labels the leaf is hashed
//!   from, and the sibling labels along its path, so that the path can be hashed up to the root;
//! * a proof is valid when every challenged leaf's label is the hash of the labels it names, **and** hashing each path up with
//!   the siblings given arrives at the root label the proof commits to.
//!
//! The second condition is what binds the opened labels to one labelling fixed before the challenges were known; without it a
//! "proof" needs 200 hashes whatever the difficulty.  The verdicts are kept apart so that a proof that satisfies the first
//! condition and not the second can be named for what it is.
use std::collections::HashMap;

#[derive(Clone, Copy, PartialEq, Eq, Debug)]
pub enum PowVerdict {
    Valid,
    /// not a multiple of 40 bytes, difficulty outside 1..=56 (node ids hold 56 bits), root / leaf / sibling labels missing
    Malformed,
    /// a challenged leaf's label is not the hash of the labels it is derived from
    LeafLabelWrong,
    /// every challenged leaf hashes correctly from the labels given, but a path does not hash up to the committed root
    NotBoundToRoot,
}

#[derive(Clone, Copy, PartialEq, Eq, Hash)]
struct Nd {
    bv: u64,
    len: usize,
}
impl Nd {
    fn take(self, n: usize) -> Nd {
        Nd { bv: if n >= 64 { self.bv } else { self.bv & ((1u64 << n) - 1) }, len: n }
    }
    fn append(self, b: u64) -> Nd {
        Nd { bv: self.bv | (b << self.len), len: self.len + 1 }
    }
    fn bit(self, n: usize) -> u64 {
        (self.bv >> n) & 1
    }
    fn id(self) -> [u8; 8] {
        (((self.len as u64) << 56) | self.bv).to_be_bytes()
    }
}

pub fn hash_legacy(data: &[u8], key: &[u8]) -> [u8; 32] {
    *blake3::keyed_hash(blake3::hash(key).as_bytes(), data).as_bytes()
}
pub fn hash_tip910(data: &[u8], key: &[u8]) -> [u8; 32] {
    let mut r = blake3::keyed_hash(blake3::hash(key).as_bytes(), data);
    for _ in 0..99 {
        r = blake3::hash(r.as_bytes());
    }
    *r.as_bytes()
}

fn acc(parts: &[&[u8]]) -> Vec<u8> {
    let mut v = vec![];
    for p in parts {
        v.extend_from_slice(&(p.len() as u64).to_be_bytes());
        v.extend_from_slice(p);
    }
    v
}

pub fn challenges(puzzle: &[u8], d: usize) -> Vec<(u64, usize)> {
    (0..200)
        .map(|i| {
            let seed = tmelcrypt::hash_keyed(format!("gamma-{}", i).as_bytes(), puzzle);
            let g = u64::from_le_bytes(seed.0[0..8].try_into().unwrap());
            let shift = 64 - d;
            (((g >> shift) << shift).reverse_bits(), d)
        })
        .collect()
}

/// The label the proof's own opened leaves give to a node: a challenged leaf has the label the proof states for it; a proper
/// ancestor of a challenged leaf has the hash of its two children's labels (so a stated label for such a node is redundant
/// and is neither needed nor consulted); every other node has the label the proof states, if any.
fn derived(n: Nd, d: usize, anc: &std::collections::HashSet<Nd>, given: &HashMap<Nd, [u8; 32]>, memo: &mut HashMap<Nd, Option<[u8; 32]>>, chi: &[u8], h: &dyn Fn(&[u8], &[u8]) -> [u8; 32]) -> Option<[u8; 32]> {
    if n.len == d || !anc.contains(&n) {
        return given.get(&n).copied();
    }
    if let Some(m) = memo.get(&n) {
        return *m;
    }
    let c0 = derived(n.append(0), d, anc, given, memo, chi, h);
    let c1 = derived(n.append(1), d, anc, given, memo, chi, h);
    let r = match (c0, c1) {
        (Some(a), Some(b)) => Some(h(&acc(&[&n.id(), &a, &b]), chi)),
        _ => None,
    };
    memo.insert(n, r);
    r
}

pub fn ref_pow_verify(proof: &[u8], puzzle: &[u8], d: usize, h: &dyn Fn(&[u8], &[u8]) -> [u8; 32]) -> PowVerdict {
    if proof.len() % 40 != 0 || d == 0 || d > 56 {
        return PowVerdict::Malformed;
    }
    let mut given: HashMap<Nd, [u8; 32]> = HashMap::new();
    for u in proof.chunks(40) {
        let id = u64::from_be_bytes(u[0..8].try_into().unwrap());
        let mut l = [0u8; 32];
        l.copy_from_slice(&u[8..40]);
        given.insert(Nd { bv: id << 8 >> 8, len: (id >> 56) as usize }, l);
    }
    let chi = tmelcrypt::hash_keyed(b"chi", puzzle).0;
    let root = Nd { bv: 0, len: 0 };
    let phi = match given.get(&root) {
        Some(p) => *p,
        None => return PowVerdict::Malformed,
    };
    let gammas: Vec<Nd> = challenges(puzzle, d).into_iter().map(|(bv, len)| Nd { bv, len }).collect();
    let mut anc: std::collections::HashSet<Nd> = Default::default();
    for g in &gammas {
        for index in 0..d {
            anc.insert(g.take(index));
        }
    }
    let mut memo = HashMap::new();
    // every challenged leaf hashes from the labels it names: with the labels derived from the opened leaves where there are
    // such, and - to tell the two failures apart - with the labels as stated
    let mut leaves_ok_derived = true;
    for g in &gammas {
        let leaf = match given.get(g) {
            Some(l) => *l,
            None => return PowVerdict::Malformed,
        };
        let id = g.id();
        let mut parts_d: Vec<Vec<u8>> = vec![id.to_vec()];
        let mut parts_g: Vec<Vec<u8>> = vec![id.to_vec()];
        let mut missing = false;
        for index in 0..d {
            if g.bit(index) != 0 {
                let s = g.take(index).append(0);
                match (derived(s, d, &anc, &given, &mut memo, &chi, h), given.get(&s)) {
                    (Some(a), b) => {
                        parts_d.push(a.to_vec());
                        parts_g.push(b.copied().unwrap_or(a).to_vec());
                    }
                    (None, _) => missing = true,
                }
            }
        }
        if missing {
            return PowVerdict::Malformed;
        }
        let rd: Vec<&[u8]> = parts_d.iter().map(|p| p.as_slice()).collect();
        if h(&acc(&rd), &chi) != leaf {
            leaves_ok_derived = false;
            let rg: Vec<&[u8]> = parts_g.iter().map(|p| p.as_slice()).collect();
            if h(&acc(&rg), &chi) != leaf {
                return PowVerdict::LeafLabelWrong;
            }
        }
    }
    // ... and the opened leaves hash up, with the sibling labels given, to the root label the proof commits to
    match derived(root, d, &anc, &given, &mut memo, &chi, h) {
        None => PowVerdict::Malformed,
        Some(r) if r == phi && leaves_ok_derived => PowVerdict::Valid,
        Some(_) => PowVerdict::NotBoundToRoot,
    }
}

/// A "proof" made without the sequential work: every label is a filler except the 200 challenged leaves, which are hashed
/// from the fillers they name.  About 200 hashes at any difficulty.
pub fn forged_proof(puzzle: &[u8], d: usize, h: &dyn Fn(&[u8], &[u8]) -> [u8; 32]) -> Vec<u8> {
    let chi = tmelcrypt::hash_keyed(b"chi", puzzle).0;
    let filler = [7u8; 32];
    let mut map: std::collections::BTreeMap<(usize, u64), [u8; 32]> = Default::default();
    map.insert((0, 0), filler);
    let ch = challenges(puzzle, d);
    for (bv, _) in &ch {
        let g = Nd { bv: *bv, len: d };
        for index in 0..d {
            let p = g.take(index);
            map.entry((index + 1, p.append(0).bv)).or_insert(filler);
            map.entry((index + 1, p.append(1).bv)).or_insert(filler);
        }
    }
    for (bv, _) in &ch {
        let g = Nd { bv: *bv, len: d };
        let id = g.id();
        let mut parts: Vec<Vec<u8>> = vec![id.to_vec()];
        for index in 0..d {
            if g.bit(index) != 0 {
                parts.push(filler.to_vec());
            }
        }
        let refs: Vec<&[u8]> = parts.iter().map(|p| p.as_slice()).collect();
        map.insert((d, g.bv), h(&acc(&refs), &chi));
    }
    // a challenged leaf may itself be named by another challenged leaf (as the left sibling of its path): re-hash until stable
    for _ in 0..4 {
        for (bv, _) in &ch {
            let g = Nd { bv: *bv, len: d };
            let id = g.id();
            let mut parts: Vec<Vec<u8>> = vec![id.to_vec()];
            for index in 0..d {
                if g.bit(index) != 0 {
                    let s = g.take(index).append(0);
                    parts.push(map[&(s.len, s.bv)].to_vec());
                }
            }
            let refs: Vec<&[u8]> = parts.iter().map(|p| p.as_slice()).collect();
            map.insert((d, g.bv), h(&acc(&refs), &chi));
        }
    }
    let mut out = vec![];
    for ((len, bv), lab) in map {
        out.extend_from_slice(&(((len as u64) << 56) | bv).to_be_bytes());
        out.extend_from_slice(&lab);
    }
    out
}
