//! Lock-step execution of the real MelVM interpreter (hook H1) against the reference interpreter.
use crate::guard::guard;
use crate::refvm::{RefVm, RV};
use melvm::{opcode::OpCode, Value, VerifExecutor};
use std::collections::{BTreeMap, HashMap};

#[derive(Debug, Clone)]
pub struct Divergence {
    /// feature string: what differs, at which opcode
    pub class: String,
    pub what: String,
}

#[derive(Debug, Clone)]
pub struct LockstepResult {
    pub steps: u64,
    pub result: Option<RV>,
    pub capped: bool,
    pub divergence: Option<Divergence>,
}

pub fn opname(op: &OpCode) -> String {
    op.to_string().split(' ').next().unwrap().to_string()
}

pub fn prog_str(p: &[OpCode]) -> String {
    p.iter()
        .map(|o| match o {
            OpCode::PushB(b) if b.len() > 8 => format!("pushb[{}B]", b.len()),
            OpCode::PushI(i) if *i > ethnum::U256::from(1_000_000u32) => format!("pushi 0x{:x}", i),
            o => o.to_string(),
        })
        .collect::<Vec<_>>()
        .join("; ")
}

pub fn real_heap(h: &BTreeMap<u16, RV>) -> HashMap<u16, Value> {
    h.iter().map(|(k, v)| (*k, v.to_real())).collect()
}

/// Runs `prog` on both interpreters from `heap`, comparing after every instruction.
pub fn lockstep(prog: &[OpCode], heap: &BTreeMap<u16, RV>, max_steps: u64, compare_heap: bool) -> LockstepResult {
    let mut real = VerifExecutor::new(prog.to_vec(), real_heap(heap));
    let mut reference = RefVm::new(prog.to_vec(), heap.clone());
    let len = prog.len();
    let mut steps = 0u64;
    let mut out = LockstepResult { steps: 0, result: None, capped: false, divergence: None };
    loop {
        let rd = real.pc() >= len;
        let fd = reference.done();
        if rd != fd {
            out.divergence = Some(Divergence {
                class: "termination-differs".into(),
                what: format!("after {} steps real pc={} (len {}) reference pc={}", steps, real.pc(), len, reference.pc),
            });
            break;
        }
        if rd {
            // final result: popped top of stack
            let r = real.stack.pop().map(|v| RV::from_real(&v));
            let f = reference.stack.pop();
            if r != f {
                out.divergence = Some(Divergence {
                    class: "final-result-differs".into(),
                    what: format!("real {:?} reference {:?}", r.as_ref().map(|x| x.show()), f.as_ref().map(|x| x.show())),
                });
            }
            out.result = f;
            break;
        }
        if steps >= max_steps {
            out.capped = true;
            break;
        }
        let pc_before = real.pc();
        let op = prog[pc_before].clone();
        let r = guard(|| real.step());
        let f = reference.step();
        steps += 1;
        let r = match r {
            Err(p) => {
                out.divergence = Some(Divergence { class: format!("step-panics/op={}/{}", opname(&op), p.class()), what: format!("step {} ({}) panicked: {}", steps, op, p.msg) });
                break;
            }
            Ok(r) => r,
        };
        if r.is_some() != f.is_some() {
            out.divergence = Some(Divergence {
                class: format!("failure-differs/op={}/real_ok={}", opname(&op), r.is_some()),
                what: format!("step {} at pc {} ({}): real {} reference {}", steps, pc_before, op, if r.is_some() { "continues" } else { "fails" }, if f.is_some() { "continues" } else { "fails" }),
            });
            break;
        }
        if r.is_none() {
            // both fail: execution ends with no result
            out.result = None;
            break;
        }
        if real.pc() != reference.pc {
            out.divergence = Some(Divergence {
                class: format!("pc-differs/op={}", opname(&op)),
                what: format!("after step {} at pc {} ({}): real pc {} reference pc {}", steps, pc_before, op, real.pc(), reference.pc),
            });
            break;
        }
        // stacks: compare depth always, top two values always, everything when small
        if real.stack.len() != reference.stack.len() {
            out.divergence = Some(Divergence {
                class: format!("stack-depth-differs/op={}", opname(&op)),
                what: format!("after step {} ({}): real depth {} reference depth {}", steps, op, real.stack.len(), reference.stack.len()),
            });
            break;
        }
        let n = real.stack.len();
        let from = n.saturating_sub(3);
        let mut bad = None;
        for i in from..n {
            let rv = RV::from_real(&real.stack[i]);
            if rv != reference.stack[i] {
                bad = Some((i, rv.show(), reference.stack[i].show()));
                break;
            }
        }
        if let Some((i, a, b)) = bad {
            out.divergence = Some(Divergence {
                class: format!("stack-value-differs/op={}", opname(&op)),
                what: format!("after step {} at pc {} ({}): stack[{}] real {} reference {}", steps, pc_before, op, i, a, b),
            });
            break;
        }
        if compare_heap && matches!(op, OpCode::Store | OpCode::StoreImm(_)) {
            let rh: BTreeMap<u16, RV> = real.heap.iter().map(|(k, v)| (*k, RV::from_real(v))).collect();
            if rh != reference.heap {
                out.divergence = Some(Divergence { class: format!("heap-differs/op={}", opname(&op)), what: format!("after step {} ({}): heaps differ", steps, op) });
                break;
            }
        }
    }
    out.steps = steps;
    out
}
