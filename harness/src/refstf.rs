//! Reference model of the state-transition function: plain ordered maps, written from the
//! property statements (C01, C02, C05, C13, C15, C16, C18, C19, C20).  Pool arithmetic re-uses
//! `melstructs::PoolState` (external crate, trusted base); the orchestration is written here.
use crate::refvm::{eval_covenant, ref_decode, ref_weight, RefEnv};
use melstructs::{
    Address, CoinData, CoinDataHeight, CoinID, CoinValue, Denom, Header, NetID, PoolKey, PoolState, ProposerAction, StakeDoc, Transaction, TxHash, TxKind, MAX_COINVAL,
};
use num::{integer::Roots, BigInt, BigRational, BigUint, ToPrimitive, Zero};
use std::collections::{BTreeMap, BTreeSet};

pub const GRANDFATHERED_FAUCET: &str = "30a60b20830f000f755b70c57c998553a303cc11f8b1f574d5e9f7e26b645d8b";

#[derive(Clone, Debug)]
pub struct RefState {
    pub network: NetID,
    pub height: u64,
    pub coins: BTreeMap<CoinID, CoinDataHeight>,
    pub pools: BTreeMap<PoolKey, PoolState>,
    pub stakes: BTreeMap<TxHash, StakeDoc>,
    pub fee_pool: u128,
    pub fee_multiplier: u128,
    pub tips: u128,
    pub dosc_speed: u128,
    pub block_txs: BTreeMap<TxHash, Transaction>,
    /// every pool key any transaction of the history has named (so that the real pool tree can be fully accounted for)
    pub seen_pool_keys: BTreeSet<PoolKey>,
    /// hashes of every accepted transaction of kind Stake in this history (bookkeeping for alphabets only)
    pub stake_txs_seen: BTreeSet<TxHash>,
    /// the last few coins this history has spent, with their data (bookkeeping for alphabets only: second spends of them)
    pub spent_recently: Vec<(CoinID, CoinDataHeight)>,
    /// the DOSC speed the previous block was sealed with, as this model recorded it (None: not known to the model - a root,
    /// a re-labelled state - and read from the real history instead).  Mint rewards are bounded against it.
    pub prev_dosc_speed: Option<u128>,
}

#[derive(Clone, Debug, PartialEq, Eq)]
pub struct Reject {
    /// which stated condition fails (used in violation classes)
    pub reason: &'static str,
    pub detail: String,
}

fn rej<T>(reason: &'static str, detail: impl Into<String>) -> Result<T, Reject> {
    Err(Reject { reason, detail: detail.into() })
}

#[derive(Clone, Copy, Debug)]
pub struct Rules {
    pub tip_901: bool,
    pub tip_902: bool,
    pub tip_906: bool,
    pub tip_908: bool,
    pub tip_909: bool,
    pub tip_909a: bool,
    /// stake documents are validated and registered (not in the grandfathered window below 500000 on mainnet/testnet)
    pub stake_rules: bool,
    /// staked coins are locked (not in the grandfathered window below 900000 on mainnet/testnet)
    pub stake_lock: bool,
    /// grandfathered deposit rule window (mainnet/testnet below 978392)
    pub old_deposit_rule: bool,
}

pub fn rules(network: NetID, height: u64) -> Rules {
    let tip = |activation: u64| -> bool {
        match network {
            NetID::Mainnet => height >= activation,
            NetID::Testnet => height >= 500,
            _ => true,
        }
    };
    let legacy_net = network == NetID::Mainnet || network == NetID::Testnet;
    Rules {
        tip_901: tip(42_700),
        tip_902: tip(180_000),
        tip_906: tip(830_000),
        tip_908: network == NetID::Custom08,
        tip_909: tip(950_000),
        tip_909a: tip(1_048_000),
        stake_rules: !(legacy_net && height < 500_000),
        stake_lock: !(legacy_net && height < 900_000),
        old_deposit_rule: legacy_net && height < 978_392,
    }
}

pub fn ref_tx_weight(tx: &Transaction) -> u128 {
    let raw = stdcode::serialize(tx).unwrap().len() as u128;
    let covs: u128 = tx.covenants.iter().map(|c| ref_decode(c).map(|ops| ref_weight(&ops)).unwrap_or(0)).fold(0u128, |a, b| a.saturating_add(b));
    raw.saturating_add(covs).saturating_add(tx.outputs.len() as u128 * 1000).saturating_sub(tx.inputs.len() as u128 * 1000)
}

pub fn ref_min_fee(tx: &Transaction, mult: u128) -> u128 {
    // weight x multiplier / 65536 rounded down - exactly, as the statement gives it (the product is formed in unbounded
    // arithmetic).  A minimum beyond 128 bits cannot be paid by any fee; it is reported as u128::MAX, above every amount a
    // transaction can name (2^120).  Until session 4 this function copied the code's saturating product, which hid that from
    // weight x multiplier >= 2^128 on the code's minimum stays at 2^112 - 1 however large the true one is (DESIGN §7-Z).
    let q: BigUint = (BigUint::from(ref_tx_weight(tx)) * BigUint::from(mult)) >> 16u32;
    u128::try_from(q).unwrap_or(u128::MAX)
}

pub fn is_grandfathered(tx: &Transaction) -> bool {
    hex::encode(tx.hash_nosigs().0 .0) == GRANDFATHERED_FAUCET
}

pub fn faucet_marker(txhash: TxHash) -> CoinID {
    crate::world::faucet_marker(txhash)
}

fn marker_coin() -> CoinDataHeight {
    CoinDataHeight {
        coin_data: CoinData { covhash: Address(Default::default()), value: CoinValue(0), denom: Denom::Mel, additional_data: Default::default() },
        height: 0.into(),
    }
}

/// What a DoscMint is allowed to create, computed from the statement (C18).
pub struct DoscVerdict {
    pub speed: u128,
    pub max_erg: u128,
}

pub fn microergs_per_dosc(height: u64) -> u128 {
    // inflator(0) = 10^6; inflator(h+1) = max(x+1, x + x/2000000)
    let mut x: u128 = 1_000_000;
    // closed loop is fine for the heights the harness uses (< 2*10^6) but memoise across calls
    use std::sync::Mutex;
    static TABLE: Mutex<Vec<u128>> = Mutex::new(Vec::new());
    let mut t = TABLE.lock().unwrap();
    if t.is_empty() {
        t.push(x);
    }
    while (t.len() as u64) <= height {
        x = *t.last().unwrap();
        // (beyond 128 bits, from block 150,582,831 on, the inflator stays at the largest value: finding X)
        t.push(x.saturating_add(1).max(x.saturating_add(x / 2_000_000)));
    }
    t[height as usize]
}

pub fn ref_reward(speed: u128, prev_dosc_speed: u128, difficulty: u32, tip910: bool) -> u128 {
    let work = BigInt::from(2u8).pow(difficulty) * BigInt::from(if tip910 { 100u32 } else { 1 });
    // the implementation saturates 2^d * 100 at u128::MAX; difficulty is < 128 for any verifiable proof
    let work = if work > BigInt::from(u128::MAX) { BigInt::from(u128::MAX) } else { work };
    if prev_dosc_speed == 0 {
        return u128::MAX;
    }
    let r = work * BigInt::from(speed) * BigInt::from(1_000_000u32) / (BigInt::from(prev_dosc_speed).pow(2) * BigInt::from(2880u32));
    r.to_u128().unwrap_or(u128::MAX)
}

pub fn ref_dosc_to_erg(height: u64, real: u128) -> Option<u128> {
    let r = BigInt::from(real) * BigInt::from(microergs_per_dosc(height)) / BigInt::from(1_000_000u32);
    r.to_u128()
}

pub struct LegacyHash;
impl melpow::HashFunction for LegacyHash {
    fn hash(&self, b: &[u8], k: &[u8]) -> melpow::SVec<u8> {
        melpow::SVec::from_slice(blake3::keyed_hash(blake3::hash(k).as_bytes(), b).as_bytes())
    }
}
pub struct Tip910Hash;
impl melpow::HashFunction for Tip910Hash {
    fn hash(&self, b: &[u8], k: &[u8]) -> melpow::SVec<u8> {
        let mut res = blake3::keyed_hash(blake3::hash(k).as_bytes(), b);
        for _ in 0..99 {
            res = blake3::hash(res.as_bytes());
        }
        melpow::SVec::from_slice(res.as_bytes())
    }
}

/// Context the engine supplies to the model for things the model does not re-derive itself.
pub struct BatchCtx<'a> {
    /// header of the previous block as covenants see it
    pub last_header: Header,
    /// header at a given height (for DoscMint puzzles and the previous DOSC speed)
    pub header_at: &'a dyn Fn(u64) -> Option<Header>,
    /// evaluate covenants input-by-input (the statement) — always true; kept explicit for readability
    pub per_input_covenants: bool,
}

impl RefState {
    pub fn rules(&self) -> Rules {
        rules(self.network, self.height)
    }

    pub fn epoch(&self) -> u64 {
        self.height / 200_000
    }

    /// Total supply of a denomination: unspent coins + pool reserves (+ fee pool and tips for MEL).
    pub fn supply(&self) -> BTreeMap<Denom, BigUint> {
        let mut m: BTreeMap<Denom, BigUint> = BTreeMap::new();
        for c in self.coins.values() {
            *m.entry(c.coin_data.denom).or_default() += BigUint::from(c.coin_data.value.0);
        }
        for (k, p) in &self.pools {
            *m.entry(k.left()).or_default() += BigUint::from(p.lefts);
            *m.entry(k.right()).or_default() += BigUint::from(p.rights);
        }
        *m.entry(Denom::Mel).or_default() += BigUint::from(self.fee_pool) + BigUint::from(self.tips);
        m
    }

    /// The textbook batch rule of C02.  Returns the new state or the first stated condition that fails.
    /// Transactions of the batch that are not balanced in the strict sense of the statement although every denomination they
    /// *name* balances: their inputs carry a denomination (in a positive amount) that none of their outputs names, so that
    /// amount simply disappears ("burnt by omission").  The code accepts these - its balance check walks the outputs only -
    /// while it refuses an explicit smaller output of the same denomination; the model applies them too and the engine
    /// reports each as the known finding AK.  Returns (index in the batch, denomination).
    pub fn burns_by_omission(&self, txs: &[Transaction]) -> Vec<(usize, Denom)> {
        let mut created: BTreeMap<CoinID, (Denom, u128)> = BTreeMap::new();
        for tx in txs {
            let h = tx.hash_nosigs();
            for (i, o) in tx.outputs.iter().enumerate().take(255) {
                let d = if o.denom == Denom::NewCustom { Denom::Custom(h) } else { o.denom };
                created.insert(tx.output_coinid(i as u8), (d, o.value.0));
            }
        }
        let mut out = vec![];
        for (ti, tx) in txs.iter().enumerate() {
            if tx.kind == TxKind::Faucet {
                continue;
            }
            let mut ins: BTreeMap<Denom, u128> = BTreeMap::new();
            for i in &tx.inputs {
                let dv = self.coins.get(i).map(|c| (c.coin_data.denom, c.coin_data.value.0)).or_else(|| created.get(i).copied());
                if let Some((d, v)) = dv {
                    *ins.entry(d).or_default() = ins.get(&d).copied().unwrap_or(0).saturating_add(v);
                }
            }
            for (d, v) in ins {
                // MEL is always named (the fee); ERG created or spent by a mint has rules of its own
                if v == 0 || d == Denom::Mel || (tx.kind == TxKind::DoscMint && d == Denom::Erg) {
                    continue;
                }
                if !tx.outputs.iter().any(|o| o.denom == d) {
                    out.push((ti, d));
                }
            }
        }
        out
    }

    pub fn apply_batch(&self, txs: &[Transaction], ctx: &BatchCtx) -> Result<RefState, Reject> {
        let rules = self.rules();
        // every transaction individually well-formed
        for tx in txs {
            if tx.outputs.len() > 255 {
                return rej("malformed:too-many-outputs", "");
            }
            if tx.fee > MAX_COINVAL || tx.outputs.iter().any(|o| o.value > MAX_COINVAL) {
                return rej("malformed:value-above-max", "");
            }
        }
        // coins created inside the batch (not those sent to the destruction address; new-token outputs take the tx hash)
        let mut created: BTreeMap<CoinID, CoinDataHeight> = BTreeMap::new();
        for tx in txs {
            let h = tx.hash_nosigs();
            for (i, o) in tx.outputs.iter().enumerate() {
                let mut o = o.clone();
                if o.denom == Denom::NewCustom {
                    o.denom = Denom::Custom(h);
                }
                if o.covhash != Address::coin_destroy() {
                    created.insert(CoinID::new(h, i as u8), CoinDataHeight { coin_data: o, height: self.height.into() });
                }
            }
        }
        // no coin consumed twice anywhere in the batch
        let mut seen = BTreeSet::new();
        for tx in txs {
            for i in &tx.inputs {
                if !seen.insert(*i) {
                    return rej("double-spend-in-batch", format!("{}", i));
                }
            }
        }
        // every input unspent in the prior state or created inside the batch
        let lookup = |id: &CoinID| -> Option<CoinDataHeight> { created.get(id).cloned().or_else(|| self.coins.get(id).cloned()) };
        for tx in txs {
            for i in &tx.inputs {
                if lookup(i).is_none() {
                    return rej("input-missing", format!("{}", i));
                }
            }
        }
        // stake documents of this batch
        let mut new_stakes: BTreeMap<TxHash, StakeDoc> = BTreeMap::new();
        for tx in txs {
            if tx.kind == TxKind::Stake && rules.stake_rules {
                let doc: StakeDoc = match stdcode::deserialize(&tx.data) {
                    Ok(d) => d,
                    Err(_) => return rej("stake:undecodable-document", ""),
                };
                let first = match tx.outputs.first() {
                    Some(f) => f,
                    None => return rej("stake:no-output", ""),
                };
                if first.denom != Denom::Sym {
                    return rej("stake:first-output-not-sym", "");
                }
                if doc.e_start > self.epoch() && doc.e_post_end > doc.e_start && doc.syms_staked == first.value {
                    new_stakes.insert(tx.hash_nosigs(), doc);
                }
            }
        }
        let mut max_speed = self.dosc_speed;
        for tx in txs {
            // unlocked
            if rules.stake_lock {
                for i in &tx.inputs {
                    // the staked coin is the first output of the stake transaction (the statement speaks of that coin only;
                    // an implementation that also locks the other outputs is stricter, which the necessity direction allows)
                    if i.index == 0 && (self.stakes.contains_key(&i.txhash) || new_stakes.contains_key(&i.txhash)) {
                        return rej("coin-locked", format!("{}", i));
                    }
                }
            }
            // authorised: every input's covenant is supplied and approves this spend in this input's own environment
            let mut totals: BTreeMap<Denom, BigUint> = BTreeMap::new();
            for (idx, i) in tx.inputs.iter().enumerate() {
                let cdh = lookup(i).unwrap();
                let cov = tx.covenants.iter().find(|c| Address(tmelcrypt::hash_single(c)) == cdh.coin_data.covhash);
                let cov = match cov {
                    Some(c) => c,
                    None => return rej("covenant-missing", format!("input {}", idx)),
                };
                let ops = match ref_decode(cov) {
                    Some(o) => o,
                    None => return rej("covenant-undecodable", format!("input {}", idx)),
                };
                let env = RefEnv { parent_coinid: *i, parent_cdh: cdh.clone(), spender_index: idx as u64, last_header: ctx.last_header };
                match eval_covenant(&ops, tx, Some(&env), 5_000_000) {
                    Some(true) => {}
                    _ => return rej("covenant-rejects", format!("input {}", idx)),
                }
                *totals.entry(cdh.coin_data.denom).or_default() += BigUint::from(cdh.coin_data.value.0);
            }
            // balanced
            if tx.kind != TxKind::Faucet {
                let mut outs: BTreeMap<Denom, BigUint> = BTreeMap::new();
                for o in &tx.outputs {
                    *outs.entry(o.denom).or_default() += BigUint::from(o.value.0);
                }
                *outs.entry(Denom::Mel).or_default() += BigUint::from(tx.fee.0);
                for (d, v) in &outs {
                    if *d == Denom::NewCustom || (tx.kind == TxKind::DoscMint && *d == Denom::Erg) {
                        continue;
                    }
                    if totals.get(d).cloned().unwrap_or_default() != *v {
                        return rej("unbalanced", format!("{:?}", d));
                    }
                }
            }
            // fee-paying
            let min = ref_min_fee(tx, self.fee_multiplier);
            if tx.fee.0 < min {
                return rej("fee-below-minimum", format!("{} < {}", tx.fee.0, min));
            }
            // faucets
            if tx.kind == TxKind::Faucet {
                if self.network == NetID::Mainnet && !is_grandfathered(tx) {
                    return rej("faucet-on-mainnet", "");
                }
            }
            // DoscMint
            if tx.kind == TxKind::DoscMint {
                let v = self.dosc_verdict(tx, &lookup, ctx)?;
                max_speed = max_speed.max(v.speed);
                let erg: BigUint = tx.outputs.iter().filter(|o| o.denom == Denom::Erg).map(|o| BigUint::from(o.value.0)).sum();
                if erg > BigUint::from(v.max_erg) {
                    return rej("doscmint:erg-above-reward", format!("{} > {}", erg, v.max_erg));
                }
            }
        }
        // apply
        let mut next = self.clone();
        for tx in txs {
            if tx.kind == TxKind::Faucet {
                let m = faucet_marker(tx.hash_nosigs());
                if next.coins.contains_key(&m) {
                    return rej("faucet-duplicate", "");
                }
                // within one block every faucet is listed once - also the grandfathered mainnet one, which leaves no marker
                if next.block_txs.contains_key(&tx.hash_nosigs()) {
                    return rej("faucet-duplicate", "already in this block");
                }
                // every accepted faucet is remembered (the statement: at most once on any network other than mainnet);
                // the one grandfathered transaction on mainnet is the exception the statement itself makes
                if !(self.network == NetID::Mainnet && is_grandfathered(tx)) {
                    next.coins.insert(m, marker_coin());
                }
            }
            let min = ref_min_fee(tx, self.fee_multiplier);
            // "added ... exactly": a fee that the two 128-bit tallies (and their sum, which the proposer's reward forms again)
            // cannot take exactly is not acceptable (until session 4 the model saturated here, as the code did: DESIGN §7-AF)
            match (next.fee_pool.checked_add(min), next.tips.checked_add(tx.fee.0 - min)) {
                (Some(p), Some(t)) if p.checked_add(t).is_some() => {
                    next.fee_pool = p;
                    next.tips = t;
                }
                _ => return rej("fee:tallies-beyond-128-bits", "the fee pool, the tips or their sum would leave 128 bits"),
            }
            next.block_txs.insert(tx.hash_nosigs(), tx.clone());
            if let Some(k) = PoolKey::from_bytes(&tx.data) {
                next.seen_pool_keys.insert(k);
            }
            if tx.kind == TxKind::Stake {
                next.stake_txs_seen.insert(tx.hash_nosigs());
            }
        }
        for (id, c) in created {
            next.coins.insert(id, c);
        }
        for tx in txs {
            for i in &tx.inputs {
                if let Some(c) = next.coins.remove(i) {
                    next.spent_recently.push((*i, c));
                }
            }
        }
        let excess = next.spent_recently.len().saturating_sub(3);
        next.spent_recently.drain(..excess);
        next.dosc_speed = max_speed;
        for (k, v) in new_stakes {
            next.stakes.insert(k, v);
        }
        Ok(next)
    }

    /// Why the model refuses a DoscMint, if it does (used to name conservation reports precisely).
    pub fn dosc_reject_reason(&self, tx: &Transaction, lookup: &dyn Fn(&CoinID) -> Option<CoinDataHeight>, ctx: &BatchCtx) -> Option<&'static str> {
        if tx.kind != TxKind::DoscMint || tx.inputs.first().and_then(|i| lookup(i)).is_none() {
            return None;
        }
        self.dosc_verdict(tx, lookup, ctx).err().map(|r| r.reason)
    }

    fn dosc_verdict(&self, tx: &Transaction, lookup: &dyn Fn(&CoinID) -> Option<CoinDataHeight>, ctx: &BatchCtx) -> Result<DoscVerdict, Reject> {
        let first = match tx.inputs.first() {
            Some(f) => *f,
            None => return rej("doscmint:no-input", ""),
        };
        let cdh = lookup(&first).unwrap();
        let age = self.height.saturating_sub(cdh.height.0);
        if self.network == NetID::Mainnet && age < 100 {
            return rej("doscmint:coin-too-young", "");
        }
        let seed_header = match (ctx.header_at)(cdh.height.0) {
            Some(h) => h,
            None => return rej("doscmint:no-header-at-coin-height", ""),
        };
        let puzzle = tmelcrypt::hash_keyed(seed_header.hash(), stdcode::serialize(&first).unwrap());
        let (difficulty, proof_bytes): (u32, Vec<u8>) = match stdcode::deserialize(&tx.data) {
            Ok(v) => v,
            Err(_) => return rej("doscmint:undecodable-data", ""),
        };
        if proof_bytes.len() % 40 != 0 {
            return rej("doscmint:undecodable-proof", "");
        }
        // validity is judged by the reference verifier (refpow.rs), written from the construction and not from melpow's own
        // `verify`: the challenged leaves must hash from the labels they name *and* their paths must hash up to the committed root
        use crate::refpow::{hash_legacy, hash_tip910, ref_pow_verify, PowVerdict};
        let vl = ref_pow_verify(&proof_bytes, &puzzle.0, difficulty as usize, &hash_legacy);
        let legacy = vl == PowVerdict::Valid;
        let vt = if legacy { PowVerdict::Malformed } else { ref_pow_verify(&proof_bytes, &puzzle.0, difficulty as usize, &hash_tip910) };
        let tip910 = vt == PowVerdict::Valid;
        if !legacy && !tip910 {
            if vl == PowVerdict::NotBoundToRoot || vt == PowVerdict::NotBoundToRoot {
                return rej("doscmint:proof-labels-not-bound-to-the-root", "every challenged leaf hashes from the labels given, but the paths do not hash up to the root the proof commits to: no sequential work is shown");
            }
            return rej("doscmint:invalid-proof", "");
        }
        if age == 0 || difficulty >= 128 {
            return rej("doscmint:degenerate", "");
        }
        let speed = (if tip910 { 100u128 } else { 1 }) * (1u128 << difficulty) / age as u128;
        let prev = match self.prev_dosc_speed.or_else(|| self.height.checked_sub(1).and_then(|h| (ctx.header_at)(h)).map(|h| h.dosc_speed)) {
            Some(s) => s,
            None => return rej("doscmint:no-previous-header", ""),
        };
        let reward = ref_reward(speed, prev, difficulty, tip910);
        let max_erg = ref_dosc_to_erg(self.height, reward).unwrap_or(u128::MAX);
        Ok(DoscVerdict { speed, max_erg })
    }

    /// next_unsealed: height + 1, expired stakes dropped, block transactions cleared.
    pub fn open_next(&self) -> RefState {
        let mut n = self.clone();
        n.height += 1;
        n.prev_dosc_speed = Some(self.dosc_speed);
        let epoch = n.height / 200_000;
        // a stake is locked "through the end of the epoch numbered by the stake's end field"
        n.stakes.retain(|_, v| v.e_post_end >= epoch);
        n.block_txs.clear();
        // tips are local to a block: what a block sealed without a proposer action did not pay out is not carried over
        n.tips = 0;
        n
    }

    // -----------------------------------------------------------------------------------------
    // sealing

    pub fn seal(&self, action: Option<ProposerAction>) -> (RefState, SealReport) {
        let mut s = self.clone();
        let rules = s.rules();
        let mut rep = SealReport::default();
        // built-in pools
        let mut def = PoolState::new_empty();
        let _ = def.deposit(1_000_000_000, 1_000_000_000);
        s.pools.entry(PoolKey::new(Denom::Mel, Denom::Sym)).or_insert(def);
        s.pools.entry(PoolKey::new(Denom::Mel, Denom::Erg)).or_insert(def);
        if rules.tip_902 {
            s.pools.entry(PoolKey::new(Denom::Erg, Denom::Sym)).or_insert(def);
        }
        s.settle_swaps(&mut rep);
        s.settle_deposits(&rules, &mut rep);
        s.settle_withdrawals(&mut rep);
        rep.supply_before_issuance = Some(s.supply());
        rep.melsym_before_peg = s.pools.get(&PoolKey::new(Denom::Mel, Denom::Sym)).copied();
        s.peg(&rules, &mut rep);
        if rules.tip_909 {
            s.subsidy(&rules, &mut rep);
        }
        if let Some(a) = action {
            // fee multiplier step (C17)
            let mut max_mv = BigInt::from(s.fee_multiplier >> 7);
            if rules.tip_901 && max_mv < BigInt::from(2) {
                max_mv = BigInt::from(2);
            }
            let mv = max_mv * BigInt::from(a.fee_multiplier_delta) / BigInt::from(128);
            let newm = BigInt::from(s.fee_multiplier) + mv;
            s.fee_multiplier = if newm < BigInt::zero() { 0 } else { newm.to_u128().unwrap_or(u128::MAX) };
            // proposer reward: 1/65536 of the fee pool plus all tips
            let base = s.fee_pool >> 16;
            s.fee_pool -= base;
            let reward = base + s.tips;
            s.tips = 0;
            s.coins.insert(
                CoinID::proposer_reward(s.height.into()),
                CoinDataHeight { coin_data: CoinData { covhash: a.reward_dest, value: CoinValue(reward), denom: Denom::Mel, additional_data: Default::default() }, height: s.height.into() },
            );
            rep.proposer_reward = Some(reward);
        }
        (s, rep)
    }

    /// A genuine request names its pool in canonical form (how `PoolKey::to_bytes` spells it).
    fn named_pool(tx: &Transaction) -> Option<PoolKey> {
        let k = PoolKey::from_bytes(&tx.data)?;
        // canonical: left < right in byte order, and the name is the canonical spelling of that pool
        if k.left().to_bytes() >= k.right().to_bytes() {
            return None;
        }
        if k.to_bytes() != tx.data {
            return None;
        }
        // the two sides of a pool are denominations; `NewCustom` is the placeholder an output carries until its transaction's hash
        // is known, not a denomination (the empty string parses as the pair (NewCustom, MEL): a "pool" whose left side would be
        // every transaction's own new token at once - until session 4 this function copied the code here, DESIGN §7-AD)
        if k.left() == Denom::NewCustom || k.right() == Denom::NewCustom {
            return None;
        }
        Some(k)
    }

    fn settle_swaps(&mut self, rep: &mut SealReport) {
        // requests: kind swap, data names an existing pool, first output unspent and denominated in one side of the pool
        let mut by_pool: BTreeMap<PoolKey, Vec<Transaction>> = BTreeMap::new();
        for tx in self.block_txs.values() {
            if tx.kind != TxKind::Swap || tx.outputs.is_empty() {
                continue;
            }
            let k = match Self::named_pool(tx) {
                Some(k) => k,
                None => continue,
            };
            if !self.pools.contains_key(&k) || !self.coins.contains_key(&tx.output_coinid(0)) {
                continue;
            }
            // a pool emptied by withdrawing all of its liquidity has no price to swap at
            if self.pools[&k].lefts == 0 || self.pools[&k].rights == 0 {
                continue;
            }
            let d = tx.outputs[0].denom;
            if d != k.left() && d != k.right() {
                continue;
            }
            if tx.outputs[0].value.0 == 0 {
                continue;
            }
            by_pool.entry(k).or_default().push(tx.clone());
        }
        for (k, reqs) in by_pool {
            let mut pool = self.pools[&k];
            let before = pool;
            // totals beyond 128 bits (more than 256 requests of the maximum coin value) admit no single price in this
            // arithmetic: the statement has no rule for them, the requests stay as they are
            let total = |d: Denom| reqs.iter().filter(|t| t.outputs[0].denom == d).try_fold(0u128, |a, t| a.checked_add(t.outputs[0].value.0));
            let (tl, tr) = match (total(k.left()), total(k.right())) {
                (Some(l), Some(r)) => (l, r),
                _ => continue,
            };
            let (lw, rw) = pool.swap_many(tl, tr);
            for t in &reqs {
                let v = t.outputs[0].value.0;
                let mut o = t.outputs[0].clone();
                if o.denom == k.left() {
                    o.denom = k.right();
                    o.value = CoinValue(mulfrac(rw, v, tl).min(MAX_COINVAL.0));
                } else {
                    o.denom = k.left();
                    o.value = CoinValue(mulfrac(lw, v, tr).min(MAX_COINVAL.0));
                }
                self.coins.insert(t.output_coinid(0), CoinDataHeight { coin_data: o, height: self.height.into() });
                rep.transformed.insert(t.output_coinid(0));
            }
            self.pools.insert(k, pool);
            rep.swaps.push(SwapSettlement { pool: k, before, after: pool, total_left_in: tl, total_right_in: tr, left_out: lw, right_out: rw, requests: reqs.len() });
        }
    }

    fn settle_deposits(&mut self, rules: &Rules, rep: &mut SealReport) {
        let mut by_pool: BTreeMap<PoolKey, Vec<Transaction>> = BTreeMap::new();
        for tx in self.block_txs.values() {
            if tx.kind != TxKind::LiqDeposit || tx.outputs.len() < 2 {
                continue;
            }
            let k = match Self::named_pool(tx) {
                Some(k) => k,
                None => continue,
            };
            if !self.coins.contains_key(&tx.output_coinid(0)) || !self.coins.contains_key(&tx.output_coinid(1)) {
                continue;
            }
            if tx.outputs[0].denom != k.left() || tx.outputs[1].denom != k.right() {
                continue;
            }
            by_pool.entry(k).or_default().push(tx.clone());
        }
        for (k, reqs) in by_pool {
            // totals beyond 128 bits: no rule in the statement; the deposits stay as they are (see settle_swaps)
            let total = |i: usize| reqs.iter().try_fold(0u128, |a, t| a.checked_add(t.outputs[i].value.0));
            let sum_terms = reqs.iter().try_fold(0u128, |a, t| a.checked_add(t.outputs[0].value.0.sqrt().saturating_mul(t.outputs[1].value.0.sqrt())));
            let (tl, tr) = match (total(0), total(1), sum_terms) {
                (Some(l), Some(r), Some(_)) => (l, r),
                _ => continue,
            };
            let mut pool = self.pools.get(&k).copied().unwrap_or_else(PoolState::new_empty);
            let before = pool;
            let liqs = pool.deposit(tl, tr);
            // liquidity the pool's 128-bit record cannot hold is not handed out: the deposits stay as they are (finding Z)
            if before.liqs.checked_add(liqs) != Some(pool.liqs) {
                continue;
            }
            self.pools.insert(k, pool);
            // shares are proportional to sqrt(left)*sqrt(right); the divisor is the larger of that term over the totals and
            // the sum of the individual terms, so that the shares never exceed the liquidity minted (C16)
            let sum_sq = reqs.iter().map(|t| t.outputs[0].value.0.sqrt().saturating_mul(t.outputs[1].value.0.sqrt())).fold(0u128, |a, b| a.saturating_add(b));
            let total_sq = tl.sqrt().saturating_mul(tr.sqrt()).max(sum_sq);
            for t in &reqs {
                let my = t.outputs[0].value.0.sqrt().saturating_mul(t.outputs[1].value.0.sqrt());
                let mut o = t.outputs[0].clone();
                o.denom = k.liq_token_denom();
                o.value = CoinValue(if total_sq == 0 { 0 } else { mulfrac(liqs, my, total_sq) });
                self.coins.insert(t.output_coinid(0), CoinDataHeight { coin_data: o, height: self.height.into() });
                if rules.old_deposit_rule {
                    // mainnet/testnet below 978392: the code deliberately keeps its historical behaviour, in which the right-hand
                    // coin of a deposit is not removed (the "inflation bug" window); recorded so that C01 can account for it
                    rep.legacy_deposit_right_kept.push((k.right(), t.outputs[1].value.0));
                } else {
                    self.coins.remove(&t.output_coinid(1));
                }
                rep.transformed.insert(t.output_coinid(0));
                rep.transformed.insert(t.output_coinid(1));
            }
            rep.deposits.push(DepositSettlement { pool: k, before, after: pool, total_left: tl, total_right: tr, liqs_minted: liqs, requests: reqs.len() });
        }
    }

    fn settle_withdrawals(&mut self, rep: &mut SealReport) {
        let mut by_pool: BTreeMap<PoolKey, Vec<Transaction>> = BTreeMap::new();
        for tx in self.block_txs.values() {
            if tx.kind != TxKind::LiqWithdraw || tx.outputs.len() != 1 {
                continue;
            }
            let k = match Self::named_pool(tx) {
                Some(k) => k,
                None => continue,
            };
            if !self.pools.contains_key(&k) || !self.coins.contains_key(&tx.output_coinid(0)) {
                continue;
            }
            if tx.outputs[0].denom != k.liq_token_denom() {
                continue;
            }
            by_pool.entry(k).or_default().push(tx.clone());
        }
        for (k, reqs) in by_pool {
            let total: u128 = reqs.iter().map(|t| t.outputs[0].value.0).fold(0, |a, b| a.saturating_add(b));
            let mut pool = self.pools[&k];
            let before = pool;
            let builtin = k == PoolKey::new(Denom::Mel, Denom::Sym) || k == PoolKey::new(Denom::Mel, Denom::Erg) || k == PoolKey::new(Denom::Erg, Denom::Sym);
            if total > pool.liqs || total == 0 || (builtin && total == pool.liqs) {
                // cannot be honoured: leave everything as declared (the statement has no rule for it)
                rep.unsettleable_withdrawals.push(k);
                continue;
            }
            let (tl, tr) = pool.withdraw(total);
            self.pools.insert(k, pool);
            for t in &reqs {
                let my = t.outputs[0].value.0;
                let mut o0 = t.outputs[0].clone();
                o0.denom = k.left();
                o0.value = CoinValue(mulfrac(tl, my, total));
                let o1 = CoinData { denom: k.right(), value: CoinValue(mulfrac(tr, my, total)), covhash: t.outputs[0].covhash, additional_data: t.outputs[0].additional_data.clone() };
                self.coins.insert(t.output_coinid(0), CoinDataHeight { coin_data: o0, height: self.height.into() });
                self.coins.insert(t.output_coinid(1), CoinDataHeight { coin_data: o1, height: self.height.into() });
                rep.transformed.insert(t.output_coinid(0));
                rep.transformed.insert(t.output_coinid(1));
            }
            rep.withdrawals.push(WithdrawSettlement { pool: k, before, after: pool, liqs_burnt: total, left_out: tl, right_out: tr, requests: reqs.len() });
        }
    }

    fn peg(&mut self, rules: &Rules, rep: &mut SealReport) {
        let ms = PoolKey::new(Denom::Mel, Denom::Sym);
        let me = PoolKey::new(Denom::Mel, Denom::Erg);
        let es = PoolKey::new(Denom::Erg, Denom::Sym);
        let ratio = |n: u128, d: u128| BigRational::new(BigInt::from(n), BigInt::from(d));
        // implied SYM per DOSC(ERG)
        let x_sd = if rules.tip_902 {
            let p = self.pools[&es];
            // pool (Erg left, Sym right): syms per erg = rights / lefts
            ratio(p.rights, p.lefts)
        } else {
            let s = self.pools[&ms];
            let d = self.pools[&me];
            // (syms per mel) / (ergs per mel)
            ratio(s.rights, s.lefts) / ratio(d.rights, d.lefts)
        };
        let throttler: u128 = if rules.tip_902 { 200 } else { 1000 };
        let mut pool = self.pools[&ms];
        let konstant = BigInt::from(pool.lefts) * BigInt::from(pool.rights);
        let inflator = ratio(microergs_per_dosc(self.height), 1_000_000);
        let desired_x_sm = inflator * x_sd;
        let desired_mel = (BigRational::from(konstant.clone()) / desired_x_sm.clone()).floor().numer().sqrt().to_u128().unwrap_or(u128::MAX);
        let desired_sym = (BigRational::from(konstant) * desired_x_sm).floor().numer().sqrt().to_u128().unwrap_or(u128::MAX);
        if desired_mel > pool.lefts {
            let delta = (desired_mel - pool.lefts) / throttler;
            let _ = pool.swap_many(delta, 0);
            rep.peg_mel_issued = delta;
        }
        if desired_sym > pool.rights {
            let delta = (desired_sym - pool.rights) / throttler;
            let _ = pool.swap_many(0, delta);
            rep.peg_sym_issued = delta;
        }
        self.pools.insert(ms, pool);
    }

    fn subsidy(&mut self, rules: &Rules, rep: &mut SealReport) {
        let halvings = self.height.saturating_sub(950_000) / 1_000_000;
        let reward: u128 = if halvings >= 128 { 0 } else { (1u128 << 20) >> halvings };
        let erg_part = if rules.tip_909a { reward >> 8 } else { reward - reward / 2 };
        let fee_part = if rules.tip_909a { reward - erg_part } else { reward / 2 };
        let ms = PoolKey::new(Denom::Mel, Denom::Sym);
        let es = PoolKey::new(Denom::Erg, Denom::Sym);
        let mut p = self.pools[&ms];
        let (mel, _) = p.swap_many(0, fee_part);
        self.pools.insert(ms, p);
        self.fee_pool += mel;
        let mut e = self.pools[&es];
        let _ = e.swap_many(0, erg_part);
        self.pools.insert(es, e);
        rep.subsidy_sym = reward;
    }
}

/// floor(x * num / den) in wide arithmetic, saturating at u128::MAX.
pub fn mulfrac(x: u128, num: u128, den: u128) -> u128 {
    if den == 0 {
        return 0;
    }
    (BigUint::from(x) * BigUint::from(num) / BigUint::from(den)).to_u128().unwrap_or(u128::MAX)
}

#[derive(Clone, Debug)]
pub struct SwapSettlement {
    pub pool: PoolKey,
    pub before: PoolState,
    pub after: PoolState,
    pub total_left_in: u128,
    pub total_right_in: u128,
    pub left_out: u128,
    pub right_out: u128,
    pub requests: usize,
}
#[derive(Clone, Debug)]
pub struct DepositSettlement {
    pub pool: PoolKey,
    pub before: PoolState,
    pub after: PoolState,
    pub total_left: u128,
    pub total_right: u128,
    pub liqs_minted: u128,
    pub requests: usize,
}
#[derive(Clone, Debug)]
pub struct WithdrawSettlement {
    pub pool: PoolKey,
    pub before: PoolState,
    pub after: PoolState,
    pub liqs_burnt: u128,
    pub left_out: u128,
    pub right_out: u128,
    pub requests: usize,
}

#[derive(Clone, Debug, Default)]
pub struct SealReport {
    pub swaps: Vec<SwapSettlement>,
    pub deposits: Vec<DepositSettlement>,
    pub withdrawals: Vec<WithdrawSettlement>,
    pub unsettleable_withdrawals: Vec<PoolKey>,
    /// coins whose contents sealing is allowed to change (outputs of genuine requests)
    pub transformed: BTreeSet<CoinID>,
    pub supply_before_issuance: Option<BTreeMap<Denom, BigUint>>,
    pub melsym_before_peg: Option<PoolState>,
    pub peg_mel_issued: u128,
    pub peg_sym_issued: u128,
    pub subsidy_sym: u128,
    pub proposer_reward: Option<u128>,
    /// (denomination, amount) of right-hand deposit coins left unspent under the grandfathered deposit rule
    pub legacy_deposit_right_kept: Vec<(Denom, u128)>,
}

pub fn pool_eq(a: &PoolState, b: &PoolState) -> bool {
    a.lefts == b.lefts && a.rights == b.rights && a.liqs == b.liqs && a.price_accum == b.price_accum
}
