//! Known-findings file: /verif/known_findings.json, read-only at run time.
use serde::Deserialize;

#[derive(Deserialize, Clone, Debug)]
pub struct Finding {
    pub property: String,
    /// exact class string produced by the oracle that detects it
    pub class: String,
    pub what: String,
    /// "known" (suppresses exactly this class, prints KNOWN-FINDING) or "fixed" (suppresses nothing)
    pub status: String,
    #[serde(default)]
    pub commit: String,
}

#[derive(Deserialize)]
struct File {
    findings: Vec<Finding>,
}

pub fn load() -> Vec<Finding> {
    let path = format!("{}/known_findings.json", crate::report::verif_dir());
    match std::fs::read_to_string(&path) {
        Ok(s) => match serde_json::from_str::<File>(&s) {
            Ok(f) => f.findings,
            Err(e) => {
                eprintln!("MACHINERY-FAILURE cannot parse {}: {}", path, e);
                std::process::exit(2);
            }
        },
        Err(_) => vec![],
    }
}
